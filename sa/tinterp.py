"""Structural model of the T interpreter (core._t_eval) and of the op-tuple
writer (core._t_child), discovered by role from the current source."""
import ast

from .program import AnalysisError, src
from .util import is_name, const_str_tests, calls_in, parent
from .cfg import cfg_of


class Branch:
    def __init__(self, codes, test, body, outer=None):
        self.codes = codes        # set of op-code strings
        self.test = test          # ast test expr
        self.body = body          # list of stmts
        self.outer = outer        # enclosing Branch for nested tests

    def __repr__(self):
        return '<branch %s>' % ''.join(sorted(self.codes))


def dispatch_branches(stmts, var, outer=None, acc=None, else_bodies=None):
    """all if/elif tests on ``var`` against string constants under stmts
    (descending through else-branches, try bodies and branch bodies)"""
    acc = [] if acc is None else acc
    for st in stmts:
        if isinstance(st, ast.If):
            codes = const_str_tests(st.test, var)
            if codes is not None:
                b = Branch(codes, st.test, st.body, outer)
                acc.append(b)
                dispatch_branches(st.body, var, b, acc, else_bodies)
                if st.orelse:
                    dispatch_branches(st.orelse, var, outer, acc, else_bodies)
                    if else_bodies is not None and not (len(st.orelse) == 1 and isinstance(st.orelse[0], ast.If)
                                                        and const_str_tests(st.orelse[0].test, var) is not None):
                        else_bodies.append(st.orelse)
            else:
                dispatch_branches(st.body, var, outer, acc, else_bodies)
                dispatch_branches(st.orelse, var, outer, acc, else_bodies)
        elif isinstance(st, ast.Try):
            dispatch_branches(st.body, var, outer, acc, else_bodies)
            dispatch_branches(st.orelse, var, outer, acc, else_bodies)
        elif isinstance(st, (ast.For, ast.While, ast.With)):
            dispatch_branches(st.body, var, outer, acc, else_bodies)
    return acc


class Writer:
    """op-tuple layout as produced by _t_child: one-item root + ``stride``
    items per step"""

    def __init__(self, program):
        u = program.unit('core._t_child')
        self.unit = u
        stride = None
        from .util import deref
        wcfg = cfg_of(program, u)
        for n in u.own_nodes():
            if isinstance(n, ast.Assign) and len(n.targets) == 1 and isinstance(n.targets[0], ast.Attribute) \
                    and n.targets[0].attr == '__ops__':
                v = deref(wcfg, wcfg.node_of(n), n.value)     # the tuple may be named first
                if isinstance(v, ast.BinOp) and isinstance(v.op, ast.Add) and isinstance(v.right, ast.Tuple):
                    stride = len(v.right.elts)
                    self.append_stmt = n
                    self.tuple_elts = v.right.elts
        if stride is None:
            raise AnalysisError('writer _t_child: cannot find ``t.__ops__ = base + (op, arg)``')
        self.stride = stride
        # roots: module level ``X.__ops__ = (X,)``
        offs = set()
        core = program.modules['glom.core']
        self.roots = []
        for st in core.tree.body:
            if isinstance(st, ast.Assign) and len(st.targets) == 1 and isinstance(st.targets[0], ast.Attribute) \
                    and st.targets[0].attr == '__ops__' and isinstance(st.value, ast.Tuple):
                offs.add(len(st.value.elts))
                self.roots.append(st)
        if len(offs) != 1:
            raise AnalysisError('writer: root op tuples have lengths %s' % sorted(offs))
        self.offset = offs.pop()
        # which parameter of _t_child is the op code / the argument
        names = [e.id if isinstance(e, ast.Name) else None for e in self.tuple_elts]
        self.op_param = names[0]
        self.arg_param = names[1] if len(names) > 1 else None
        if self.op_param not in u.params:
            raise AnalysisError('writer: first appended item is not a parameter')
        self.op_index = u.params.index(self.op_param)


def find_fetch(body, ops_names, ivar):
    """(op variable, argument variable, op statement, argument statement) of a step loop body:
    ``op = ops[i]`` and ``arg = <expression over ops[i+1]>`` (None when not found)"""
    from .affine import linear, NotAffine

    def offset_of(e):
        if isinstance(e, ast.Subscript) and isinstance(e.value, ast.Name) and e.value.id in ops_names \
                and not isinstance(e.slice, ast.Slice):
            try:
                a, b = linear(e.slice, {ivar: (1, 0)})
            except NotAffine:
                return None
            return b if a == 1 else None
        return None
    opv = argv = ost = ast_ = None
    for st in body:
        if isinstance(st, ast.Assign) and len(st.targets) == 1 and is_name(st.targets[0]):
            if offset_of(st.value) == 0 and opv is None:
                opv, ost = st.targets[0].id, st
            elif argv is None and any(offset_of(x) == 1 for x in ast.walk(st.value)):
                argv, ast_ = st.targets[0].id, st
    if opv is None or argv is None:
        return None
    return opv, argv, ost, ast_


class TInterp:
    def __init__(self, program):
        self.program = program
        u = program.unit('core._t_eval')
        self.unit = u
        self.cfg = cfg_of(program, u)
        if len(u.params) < 3:
            raise AnalysisError('_t_eval: expected (target, t, scope) parameters')
        self.target_param, self.t_param, self.scope_param = u.params[:3]
        # ops variable
        self.ops_var = None
        for n in u.own_nodes():
            if isinstance(n, ast.Assign) and len(n.targets) == 1 and is_name(n.targets[0]) \
                    and isinstance(n.value, ast.Attribute) and n.value.attr == '__ops__' \
                    and is_name(n.value.value, self.t_param):
                self.ops_var = n.targets[0].id
        if self.ops_var is None:
            raise AnalysisError('_t_eval: no ``x = <t>.__ops__`` (role: reads the op tuple)')
        # main loop
        loops = [n for n in u.own_nodes() if isinstance(n, ast.While)
                 and isinstance(n.test, ast.Compare) and len(n.test.ops) == 1
                 and is_name(n.test.left)]
        if len(loops) != 1:
            raise AnalysisError('_t_eval: expected exactly one ``while <i> <cmp> <bound>`` loop, found %d'
                                % len(loops))
        self.loop = loops[0]
        self.ivar = self.loop.test.left.id
        self.loop_node = self.cfg.node_of(self.loop)
        # op, arg = ops[i], ops[i+1]
        self.op_var = self.arg_var = None
        self.fetch_stmt = self.arg_fetch_stmt = None
        # op = ops[i] ; arg = <expression over ops[i+1]>   (tuple assignments are split by the
        # normal form; the argument may be fetched raw or already passed through arg_val)
        from .affine import linear, NotAffine

        def offset_of(e):
            if isinstance(e, ast.Subscript) and is_name(e.value, self.ops_var) and not isinstance(e.slice, ast.Slice):
                try:
                    a, b = linear(e.slice, {self.ivar: (1, 0)})
                except NotAffine:
                    return None
                return b if a == 1 else None
            return None
        for st in self.loop.body:
            if isinstance(st, ast.Assign) and len(st.targets) == 1 and is_name(st.targets[0]):
                if offset_of(st.value) == 0 and self.op_var is None:
                    self.op_var = st.targets[0].id
                    self.fetch_stmt = st
                elif self.arg_var is None and any(offset_of(x) == 1 for x in ast.walk(st.value)):
                    self.arg_var = st.targets[0].id
                    self.arg_fetch_stmt = st
        if self.arg_var is None:
            self.op_var = None
        if self.op_var is None:
            raise AnalysisError('_t_eval: no ``op, arg = ops[i], ops[i+1]`` in the loop body')
        self.else_bodies = []
        self.branches = dispatch_branches(self.loop.body, self.op_var, else_bodies=self.else_bodies)
        if not self.branches:
            raise AnalysisError('_t_eval: no dispatch on the op code found')
        # root variable
        self.root_var = None
        for n in u.own_nodes():
            if isinstance(n, ast.Assign) and len(n.targets) == 1 and is_name(n.targets[0]) \
                    and isinstance(n.value, ast.Subscript) and is_name(n.value.value, self.ops_var) \
                    and isinstance(n.value.slice, ast.Constant) and n.value.slice.value == 0:
                self.root_var = n.targets[0].id
        # cur variable: the Name returned by the last top-level return
        # cur variable: the Name returned after the loop that is not the target parameter (the
        # assignment root returns the target; every other root returns the running value)
        self.cur_var = None
        after = u.node.body[u.node.body.index(self.loop) + 1:] if self.loop in u.node.body else u.node.body
        cands = [st for top in after for st in ast.walk(top) if isinstance(st, ast.Return) and is_name(st.value)
                 and st.value.id != self.target_param]
        if cands:
            self.cur_var = cands[-1].value.id
            self.final_return = cands[-1]
        if self.cur_var is None:
            raise AnalysisError('_t_eval: final ``return <cur>`` not found')

    def handled_codes(self):
        out = set()
        for b in self.branches:
            out |= b.codes
        return out

    def has_catch_all(self):
        """is there a final else that handles *every* remaining code without
        further testing (so unknown codes are not silently skipped)?"""
        for body in self.else_bodies:
            if not dispatch_branches(body, self.op_var):
                return True
        return False

    def code_slice(self, stmts, code):
        """the statements of ``stmts`` that run when the op variable equals ``code``"""
        from .util import code_slice
        return code_slice(stmts, self.op_var, code)

    def branch_for(self, code):
        """innermost branch handling a code"""
        best = None
        for b in self.branches:
            if code in b.codes:
                if best is None or self._depth(b) > self._depth(best):
                    best = b
        return best

    @staticmethod
    def _depth(b):
        d = 0
        while b.outer is not None:
            d += 1
            b = b.outer
        return d

    def induction(self):
        """(init constants, steps) of the induction variable: every definition
        reaching the loop"""
        inits, steps = [], []
        for n in self.unit.own_nodes():
            if isinstance(n, ast.Assign) and any(is_name(t, self.ivar) for t in n.targets):
                inits.append(n)
            elif isinstance(n, ast.AugAssign) and is_name(n.target, self.ivar):
                steps.append(n)
        return inits, steps
