"""Rule framework: obligations, verdicts, evidence, known findings, exit codes.

exit 0  every obligation ok or a listed known finding
exit 1  VIOLATION property=<id> replay=<path>   (one line per unlisted violation)
exit 2  ANALYSIS-ERROR property=<id> ...        (anchor vanished, floor missed,
        unsupported construct, analyser crashed) -- never a silent pass
"""
import hashlib
import json
import os
import sys
import time
import traceback

from .program import Program, AnalysisError, FunctionUnit, src, norm

VERIF = os.path.dirname(os.path.dirname(os.path.abspath(__file__)))
EVIDENCE_DIR = os.path.join(VERIF, 'evidence')
KNOWN_FILE = os.path.join(VERIF, 'known_findings.txt')

TRUSTED_BASE = [
    "CPython's ast parser (the program model is built from its trees)",
    "Python data-model tables in sa/tables.py (dunder<->operator, miss classes of the "
    "primitive operations, ChainMap write semantics, copy protocol, sink/loader tables)",
    "hand-confirmed repo instance tables and floors in sa/rules/*.py",
    "the analyser itself (sa/program.py, sa/cfg.py, sa/dataflow.py, sa/affine.py)",
]


class Ob:
    __slots__ = ('rule', 'where', 'construct', 'verdict', 'detail', 'witness', 'qual')

    def __init__(self, rule, where, qual, construct, verdict, detail='', witness=None):
        self.rule = rule
        self.where = where
        self.qual = qual
        self.construct = construct
        self.verdict = verdict     # ok | violation | known
        self.detail = detail
        self.witness = witness or []

    @property
    def key(self):
        return '%s|%s|%s' % (self.rule, self.qual, self.construct)

    def as_dict(self):
        d = {'rule': self.rule, 'where': self.where, 'construct': self.construct,
             'verdict': self.verdict}
        if self.detail:
            d['detail'] = self.detail
        if self.witness:
            d['witness'] = self.witness
        return d


class Ctx:
    """what a rule function receives"""

    def __init__(self, program, pid, tier='quick', shared=None):
        self.program = program
        self.pid = pid
        self.tier = tier
        self.obs = []
        self.notes = []
        self.units_touched = set()
        self.shared = shared if shared is not None else {}
        self.rule = None
        self.floors = []

    # -- shared analyses ---------------------------------------------------
    @property
    def analysis(self):
        a = self.shared.get('analysis')
        if a is None:
            from .dataflow import Analysis
            from .tables import mutation_api
            a = Analysis(self.program, sanctioned=mutation_api(self.program))
            self.shared['analysis'] = a
        return a

    def cfg(self, unit):
        from .cfg import cfg_of
        self.units_touched.add(unit.qualname)
        return cfg_of(self.program, unit)

    def unit(self, qualname):
        u = self.program.unit(qualname)
        self.units_touched.add(qualname)
        return u

    def cls(self, qualname):
        return self.program.cls(qualname)

    # -- obligations ---------------------------------------------------------
    def _where(self, at, node=None):
        if isinstance(at, FunctionUnit):
            line = getattr(node, 'lineno', None) or at.lineno
            self.units_touched.add(at.qualname)
            return '%s:%d %s' % (at.module.relpath, line, at.qualname), at.qualname
        if hasattr(at, 'qualname') and hasattr(at, 'node'):      # ClassInfo
            line = getattr(node, 'lineno', None) or at.node.lineno
            return '%s:%d %s' % (at.module.relpath, line, at.qualname), at.qualname
        return str(at), str(at)

    def ob(self, holds, at, construct, detail='', node=None, witness=None, rule=None):
        where, qual = self._where(at, node)
        if not isinstance(construct, str):
            construct = norm(construct)
        o = Ob(rule or self.rule, where, qual, construct, 'ok' if holds else 'violation',
               detail, witness)
        self.obs.append(o)
        return o

    def require(self, cond, msg):
        if not cond:
            raise AnalysisError('%s: %s' % (self.rule, msg))

    def floor(self, n, what=''):
        """at least n obligations produced by the current rule"""
        have = sum(1 for o in self.obs if o.rule == self.rule)
        self.floors.append((self.rule, n, have))
        if have < n:
            raise AnalysisError('%s matched %d instance(s), confirmed floor is %d %s'
                                % (self.rule, have, n, what))

    def note(self, text):
        self.notes.append('%s: %s' % (self.rule, text))


# ---------------------------------------------------------------------------

def load_known():
    known, fixed = [], []
    if os.path.exists(KNOWN_FILE):
        with open(KNOWN_FILE, encoding='utf-8') as f:
            for line in f:
                line = line.strip()
                if not line or line.startswith('#'):
                    continue
                if line.startswith('known:'):
                    body = line[len('known:'):].strip()
                    left, _, desc = body.partition(' :: ')
                    prop = ''
                    key = ''
                    if left.startswith('property='):
                        prop, _, rest = left[len('property='):].partition(' ')
                        rest = rest.strip()
                        if rest.startswith('key='):
                            key = rest[4:].strip()
                    # optional ``anchor=<function qualname>@@<source text>`` in front of the description:
                    # the offending construct as it is written in the source
                    anchor = None
                    desc = desc.strip()
                    if desc.startswith('anchor='):
                        a, _, desc = desc[len('anchor='):].partition(' :: ')
                        q, _, text = a.partition('@@')
                        anchor = (q.strip(), text.strip())
                    known.append({'property': prop, 'key': key, 'desc': desc.strip(), 'anchor': anchor})
                elif line.startswith('fixed:'):
                    fixed.append(line)
    return known, fixed


def run_rules(program, pid, tier='quick', shared=None, only_rules=None):
    """run every rule of property pid; returns (ctx, errors)"""
    from .rules import rules_for
    ctx = Ctx(program, pid, tier, shared)
    errors = []
    for rid, fn, rtier in rules_for(pid):
        if rtier == 'thorough' and tier != 'thorough':
            continue
        if only_rules is not None and rid not in only_rules:
            continue
        ctx.rule = rid
        try:
            fn(ctx)
        except AnalysisError as e:
            errors.append('%s' % e if str(e).startswith(rid) else '%s: %s' % (rid, e))
        except RecursionError as e:
            errors.append('%s: analyser recursion limit (%s)' % (rid, e))
        except Exception as e:      # analyser bug: never a silent pass
            tb = traceback.format_exc().strip().splitlines()
            errors.append('%s: analyser raised %s: %s [%s]' % (rid, type(e).__name__, e,
                                                               ' | '.join(tb[-3:])))
    ctx.rule = None
    return ctx, errors


def apply_known(ctx):
    known, fixed = load_known()
    hits = []
    for o in ctx.obs:
        if o.verdict != 'violation':
            continue
        for k in known:
            kk = k['key']
            same = kk == o.key or (kk.endswith('|*') and o.key.startswith(kk[:-1]))
            if k['property'] == ctx.pid and same:
                o.verdict = 'known'
                hits.append((k, o))
                break
    return hits


def lost_known(ctx, hits):
    """listed known findings of this property that were NOT re-derived although the construct
    they are anchored in is still in the source: the rule lost its discrimination (a repaired
    tree, where the construct is gone, is not an error)"""
    known, _ = load_known()
    found = {id(k) for k, _ in hits}
    keys_hit = {k['key'] for k, _ in hits}
    out = []
    for k in known:
        if k['property'] != ctx.pid or k['key'] in keys_hit or not k.get('anchor'):
            continue
        q, text = k['anchor']
        u = ctx.program.units.get(q)
        if u is None:
            continue
        mod = u.module
        lines = mod.source.split('\n')
        seg = '\n'.join(lines[u.node.lineno - 1:(getattr(u.node, 'end_lineno', None) or u.node.lineno)])
        if ' '.join(text.split()) in ' '.join(seg.split()):
            out.append('known finding %s is listed and its construct `%s` is still in %s, but the rule no longer derives it'
                       % (k['key'], text, q))
    return out


def _hash(s):
    return hashlib.sha1(s.encode('utf-8')).hexdigest()[:10]


def write_evidence(ctx, errors, wall, tier, extra=None):
    os.makedirs(EVIDENCE_DIR, exist_ok=True)
    from .rules import PROPERTY_INFO
    info = PROPERTY_INFO.get(ctx.pid, {})
    obs = ctx.obs
    viol = [o for o in obs if o.verdict == 'violation']
    known = [o for o in obs if o.verdict == 'known']
    distinct = len({(o.rule, o.qual, o.construct) for o in obs})
    samples = [o.as_dict() for o in viol[:10]] + [o.as_dict() for o in known[:5]]
    seen_rules = set()
    for o in obs:
        if o.verdict == 'ok' and o.rule not in seen_rules:
            seen_rules.add(o.rule)
            samples.append(o.as_dict())
    per_rule = {}
    for o in obs:
        d = per_rule.setdefault(o.rule, {'obligations': 0, 'ok': 0, 'violation': 0, 'known': 0})
        d['obligations'] += 1
        d[o.verdict] += 1
    cov = {
        'explanation': info.get('explanation', '') or
        'all-paths static decision of the structural clauses listed in rules; does not '
        'decide the behaviour as a whole',
        'evaluations': len(obs),
        'distinct_nontrivial': distinct,
        'rule': 'one obligation per construct of /repo matched by a rule (rule id, function, '
                'normalised construct); an obligation is non-trivial when it is anchored in '
                'real code of the current tree, and distinct by that triple',
        'samples': samples[:40],
        'obligations': len(obs),
        'discharged': len(obs) - len(viol) - len(known),
        'checker_cmd': '/venv/bin/python -m sa %s --tier %s' % (ctx.pid, tier),
        'trusted_base': TRUSTED_BASE,
        'per_rule': per_rule,
        'rules_run': sorted(per_rule),
        'floors': [{'rule': r, 'floor': n, 'matched': h} for r, n, h in ctx.floors],
        'functions_analysed': sorted(ctx.units_touched),
        'functions_in_program': len(ctx.program.units),
        'analysis_errors': errors,
        'clauses_decided': info.get('decided', []),
        'clauses_not_decided': info.get('not_decided', []),
        'notes': ctx.notes[:60],
        'known_findings_reported': [o.as_dict() for o in known],
        'exhaustive': False,
    }
    if extra:
        cov.update(extra)
    ev = {
        'property_id': ctx.pid,
        'tier': tier,
        'seed': int(os.environ.get('VERIF_SEED', '0') or 0),
        'level': 'other',
        'coverage': cov,
        'assumptions': info.get('assumptions', []) + [
            'user callables, registered handlers and custom specs are outside the quantifier '
            '(treated as opaque; their call sites are listed, not analysed)',
            'Python semantics tables in sa/tables.py are correct',
        ],
        'wall_s': round(wall, 3),
        'violations': len(viol),
    }
    path = os.path.join(EVIDENCE_DIR, '%s.json' % ctx.pid)
    with open(path, 'w', encoding='utf-8') as f:
        json.dump(ev, f, indent=1, sort_keys=False)
    return path


def write_replay(ctx, o):
    d = os.path.join(EVIDENCE_DIR, 'violations')
    os.makedirs(d, exist_ok=True)
    path = os.path.join(d, '%s-%s-%s.json' % (ctx.pid, o.rule, _hash(o.key)))
    with open(path, 'w', encoding='utf-8') as f:
        json.dump({'property': ctx.pid, 'key': o.key, **o.as_dict(),
                   'replay': '/venv/bin/python -m sa %s --replay %s' % (ctx.pid, path)},
                  f, indent=1)
    return path


def main(argv=None):
    import argparse
    ap = argparse.ArgumentParser(prog='sa')
    ap.add_argument('pid')
    ap.add_argument('--tier', default=os.environ.get('VERIF_TIER') or 'quick',
                    choices=['quick', 'thorough'])
    ap.add_argument('--replay')
    ap.add_argument('--root', default=None)
    ap.add_argument('--list', action='store_true', help='print every obligation')
    ap.add_argument('--twin', default=None, help='(debug) analyse a behaviour-preserving twin of the tree')
    args = ap.parse_args(argv)
    pid = args.pid
    t0 = time.time()
    errors = []
    ctx = None
    extra = None
    try:
        program = Program.load(args.root)
        if args.twin:
            from .selftest import TWINS
            program = Program(TWINS[args.twin](program.sources))
        ctx, errors = run_rules(program, pid, args.tier)
        hits = apply_known(ctx)
        errors += lost_known(ctx, hits)
        if args.tier == 'thorough':
            from .selftest import thorough_extra
            extra, more_errors = thorough_extra(program, pid, ctx)
            errors += more_errors
    except AnalysisError as e:
        errors.append(str(e))
        hits = []
    except Exception as e:
        errors.append('analyser raised %s: %s' % (type(e).__name__, e))
        traceback.print_exc()
        hits = []
    wall = time.time() - t0
    if ctx is None:
        ctx = Ctx(None, pid, args.tier)
        ctx.program = type('P', (), {'units': {}})()
    try:
        if not os.environ.get('SA_NO_EVIDENCE'):
            write_evidence(ctx, errors, wall, args.tier, extra)
    except Exception as e:
        errors.append('could not write evidence: %s' % e)
    if args.list:
        for o in ctx.obs:
            print('%-9s %-8s %s :: %s%s' % (o.verdict, o.rule, o.where, o.construct,
                                            (' -- ' + o.detail) if o.detail else ''))
    viol = [o for o in ctx.obs if o.verdict == 'violation']
    if args.replay:
        try:
            with open(args.replay) as f:
                want = json.load(f)['key']
        except Exception as e:
            print('ANALYSIS-ERROR property=%s cannot read replay file: %s' % (pid, e))
            return 2
        viol = [o for o in viol if o.key == want]
        if not viol:
            print('replay: obligation %s is not violated on the current tree' % want)
    for k, o in hits:
        print('KNOWN-FINDING: property=%s %s [%s at %s]' % (pid, k['desc'] or o.detail, o.rule, o.where))
    for o in viol:
        path = write_replay(ctx, o) if not os.environ.get('SA_NO_EVIDENCE') else '(not written)'
        print('%s: %s: %s%s' % (o.where, o.rule, o.construct, (' -- ' + o.detail) if o.detail else ''))
        for w in o.witness[:16]:
            print('    ' + w)
        print('VIOLATION property=%s replay=%s' % (pid, path))
    nrules = len({o.rule for o in ctx.obs})
    print('%s %s: %d obligations over %d rules, %d violation(s), %d known, %d analysis error(s), %.2fs'
          % (pid, args.tier, len(ctx.obs), nrules, len(viol), len(hits), len(errors), wall))
    if viol:
        for e in errors:
            print('ANALYSIS-ERROR property=%s %s' % (pid, e))
        return 1
    if errors:
        for e in errors:
            print('ANALYSIS-ERROR property=%s %s' % (pid, e))
        return 2
    return 0
