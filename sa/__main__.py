import sys
from .framework import main

if __name__ == '__main__':
    try:
        rc = main()
    except SystemExit:
        raise
    except BaseException as e:   # never a traceback with exit 1
        print('ANALYSIS-ERROR analyser crashed: %s: %s' % (type(e).__name__, e))
        rc = 2
    sys.stdout.flush()
    sys.exit(rc)
