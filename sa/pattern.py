"""structural matching of AST nodes against source templates, modulo the
names of local variables:  ``$x`` matches any Name (consistently),
``$$e`` matches any expression (consistently)."""
import ast
import re

_cache = {}


def _norm(tree):
    """templates are read in the same expression-level normal form as the program"""
    from .normal import normalise_template
    return normalise_template(tree)


def _compile(template):
    t = _cache.get(template)
    if t is None:
        s = re.sub(r'\$\$(\w+)', r'__MVX_\1__', template)
        s = re.sub(r'\$(\w+)', r'__MV_\1__', s)
        try:
            t = ast.parse(s, mode='eval')
            t = _norm(t).body
        except SyntaxError:
            body = _norm(ast.parse(s)).body
            t = body[0] if len(body) == 1 else body
        _cache[template] = t
    return t


def _mv(s):
    if isinstance(s, str):
        m = re.fullmatch(r'__MV_(\w+?)__', s)
        if m:
            return 'n', m.group(1)
        m = re.fullmatch(r'__MVX_(\w+?)__', s)
        if m:
            return 'x', m.group(1)
    return None, None


def _m(t, n, b):
    if isinstance(t, ast.Name):
        kind, key = _mv(t.id)
        if kind == 'n':
            if not isinstance(n, ast.Name):
                return False
            if key in b and b[key] != n.id:
                return False
            b[key] = n.id
            return True
        if kind == 'x':
            d = ast.dump(n) if isinstance(n, ast.AST) else repr(n)
            if ('x:' + key) in b and b['x:' + key] != d:
                return False
            b['x:' + key] = d
            b[key] = n
            return True
    if isinstance(t, ast.Expr) and not isinstance(n, ast.Expr) and isinstance(t.value, ast.Name) and _mv(t.value.id)[0] == 'x':
        return _m(t.value, n, b)
    if type(t) is not type(n):
        return False
    if isinstance(t, ast.AST):
        for f in t._fields:
            if f in ('ctx', 'type_comment', 'kind', 'lineno', 'col_offset'):
                continue
            tv, nv = getattr(t, f, None), getattr(n, f, None)
            if isinstance(tv, str) and not isinstance(t, ast.Constant):
                kind, key = _mv(tv)
                if kind == 'n':
                    if not isinstance(nv, str):
                        return False
                    if key in b and b[key] != nv:
                        return False
                    b[key] = nv
                    continue
            if not _m(tv, nv, b):
                return False
        return True
    if isinstance(t, list):
        if len(t) != len(n):
            return False
        return all(_m(a, c, b) for a, c in zip(t, n))
    return t == n


def match(node, template, binds=None):
    """-> dict of bindings (possibly pre-seeded, never mutated on failure) or None"""
    t = _compile(template)
    b = dict(binds or {})
    if isinstance(t, ast.Expr) and not isinstance(node, ast.Expr):
        t = t.value
    if isinstance(node, ast.Expr) and not isinstance(t, (ast.Expr, list)) and not isinstance(t, ast.stmt):
        node = node.value
    if _m(t, node, b):
        return b
    return None


def matches(node, template, binds=None):
    return match(node, template, binds) is not None


def find(nodes, template, binds=None):
    """all (node, bindings) among nodes matching the template"""
    out = []
    for n in nodes:
        b = match(n, template, binds)
        if b is not None:
            out.append((n, b))
    return out
