"""glom static analyser (see /verif/DESIGN.md)"""
