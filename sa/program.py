"""Program model for the glom static analyser.

Parses every module of the package from a {relative path: source} mapping
(read from disk by default; in-memory overrides are how the self-validation
builds variants), and builds

* module symbol tables (imports followed to the defining module),
* function units (functions, methods, nested functions, lambdas) with their
  enclosing-scope chain and name resolution,
* the class hierarchy with C3 linearisation (builtin bases are resolved
  through the ``builtins`` module),
* callee resolution, including glom's indirections (evaluator calls through
  ``scope[glom]``, ``glomit`` dispatch, mode dispatch).

glom itself is never imported.
"""
import ast
import builtins
import os

PKG = 'glom'
DEFAULT_ROOT = os.environ.get('GLOM_REPO', '/repo')


PY2_ONLY_IMPORTS = {('itertools', 'imap'), ('itertools', 'ifilter'), ('itertools', 'izip')}


class AnalysisError(Exception):
    """An anchor vanished, a floor was missed or a construct fell outside the
    supported idioms.  Exit code 2, never a VIOLATION."""


# ---------------------------------------------------------------------------
# definitions a name can resolve to

class Def:
    kind = 'def'

    def __repr__(self):
        return '<%s %s>' % (self.kind, getattr(self, 'qualname', getattr(self, 'name', '?')))


class FuncDef(Def):
    kind = 'func'

    def __init__(self, unit):
        self.unit = unit
        self.qualname = unit.qualname


class ClassDefn(Def):
    kind = 'class'

    def __init__(self, cls):
        self.cls = cls
        self.qualname = cls.qualname


class Builtin(Def):
    kind = 'builtin'

    def __init__(self, name):
        self.name = name
        self.qualname = 'builtins.' + name
        self.obj = getattr(builtins, name, None)


class External(Def):
    """a name imported from outside the package: ``module`` dotted name and
    ``attr`` (None for the module itself)"""
    kind = 'external'

    def __init__(self, module, attr=None):
        self.module = module
        self.attr = attr
        self.qualname = module if attr is None else module + '.' + attr


class ModuleRef(Def):
    kind = 'module'

    def __init__(self, mod):
        self.mod = mod
        self.qualname = mod.name


class GlobalVar(Def):
    """module-level (or class-level) variable with the expressions assigned"""
    kind = 'var'

    def __init__(self, module, name, values, owner=None):
        self.module = module
        self.name = name
        self.values = values      # list of ast.expr (may be empty: loop var, etc.)
        self.owner = owner        # ClassInfo for class attributes
        if owner is not None:
            self.qualname = owner.qualname + '.' + name
        else:
            self.qualname = module.short + '.' + name


class Local(Def):
    kind = 'local'

    def __init__(self, unit, name, is_param):
        self.unit = unit
        self.name = name
        self.is_param = is_param
        self.qualname = unit.qualname + ':' + name


class Unknown(Def):
    kind = 'unknown'

    def __init__(self, name):
        self.name = name
        self.qualname = '?' + name


# ---------------------------------------------------------------------------

def _name_counts(func):
    counts = {}
    for n in ast.walk(func):
        if isinstance(n, ast.Name):
            counts[n.id] = counts.get(n.id, 0) + 1
    return counts


def _inline_return_temps(func):
    """analysis normal form:  ``t = e`` immediately followed by ``return t`` with t used
    nowhere else in the function becomes ``return e`` (undoes extract-variable of a result)"""
    captured = set()
    for n in ast.walk(func):
        if n is not func and isinstance(n, (ast.FunctionDef, ast.AsyncFunctionDef, ast.Lambda)):
            for x in ast.walk(n):
                if isinstance(x, ast.Name):
                    captured.add(x.id)

    def fix(body):
        out = []
        i = 0
        while i < len(body):
            st = body[i]
            nxt = body[i + 1] if i + 1 < len(body) else None
            if isinstance(st, ast.Assign) and len(st.targets) == 1 and isinstance(st.targets[0], ast.Name) \
                    and isinstance(nxt, ast.Return) and isinstance(nxt.value, ast.Name) \
                    and nxt.value.id == st.targets[0].id and st.targets[0].id not in captured:
                r = ast.Return(value=st.value)
                ast.copy_location(r, st)
                r.end_lineno = getattr(nxt, 'end_lineno', None)
                out.append(r)
                i += 2
                continue
            out.append(st)
            i += 1
        return out

    for node in ast.walk(func):
        if node is not func and isinstance(node, (ast.FunctionDef, ast.AsyncFunctionDef, ast.Lambda, ast.ClassDef)):
            continue
        for f in ('body', 'orelse', 'finalbody'):
            v = getattr(node, f, None)
            if isinstance(v, list) and v and isinstance(v[0], ast.stmt):
                setattr(node, f, fix(v))


class _NegForms(ast.NodeTransformer):
    """``not (a is b)`` -> ``a is not b``;  ``not (a in b)`` -> ``a not in b``"""

    def visit_UnaryOp(self, node):
        self.generic_visit(node)
        if isinstance(node.op, ast.Not) and isinstance(node.operand, ast.Compare) and len(node.operand.ops) == 1:
            op = node.operand.ops[0]
            new = {ast.Is: ast.IsNot, ast.In: ast.NotIn}.get(type(op))
            if new is not None:
                c = ast.Compare(left=node.operand.left, ops=[new()], comparators=node.operand.comparators)
                return ast.copy_location(c, node)
        return node


def normalise(tree):
    from .normal import apply_all
    tree = _NegForms().visit(tree)
    tree = apply_all(tree)
    for node in ast.walk(tree):
        if isinstance(node, (ast.FunctionDef, ast.AsyncFunctionDef)):
            _inline_return_temps(node)
    return tree


class Module:
    def __init__(self, program, name, relpath, source):
        self.program = program
        self.name = name                  # glom.core
        self.short = name.split('.', 1)[1] if '.' in name else name
        self.relpath = relpath            # glom/core.py
        self.source = source
        from .inline import inline_new_helpers
        tree = ast.parse(source, filename=relpath)
        tree = inline_new_helpers(tree, self.short)
        self.inlined = tree._inlined
        self.tree = normalise(tree)
        self.symbols = {}                 # name -> list of raw bindings
        self.units = []
        self.classes = []
        for node in ast.walk(self.tree):
            for child in ast.iter_child_nodes(node):
                # (context / operator nodes are singletons shared by every tree)
                if not isinstance(child, (ast.expr_context, ast.operator, ast.unaryop, ast.cmpop, ast.boolop)):
                    child._parent = node
        self.tree._parent = None


class ClassInfo:
    def __init__(self, module, node, qualname, outer_unit=None, outer_class=None):
        self.module = module
        self.node = node
        self.name = node.name
        self.qualname = qualname          # core.Path
        self.methods = {}                 # name -> FunctionUnit
        self.attrs = {}                   # name -> list of ast.expr
        self.aliases = {}                 # name -> name  (``__div__ = __truediv__``)
        self.bases = []                   # ClassInfo | python type | None
        self.outer_unit = outer_unit
        self.outer_class = outer_class
        self._mro = None

    def __repr__(self):
        return '<class %s>' % self.qualname

    # -- hierarchy -----------------------------------------------------
    def mro(self):
        if self._mro is None:
            seqs = []
            for b in self.bases:
                if isinstance(b, ClassInfo):
                    seqs.append(list(b.mro()))
                elif isinstance(b, type):
                    seqs.append(list(b.__mro__))
                else:
                    seqs.append([b])
            seqs.append(list(self.bases))
            res = [self]
            seqs = [s for s in seqs if s]
            while seqs:
                for s in seqs:
                    cand = s[0]
                    if not any(cand in t[1:] for t in seqs):
                        break
                else:
                    raise AnalysisError('inconsistent MRO for %s' % self.qualname)
                res.append(cand)
                seqs = [[x for x in s if x is not cand] for s in seqs]
                seqs = [s for s in seqs if s]
            if object not in res:
                res.append(object)
            self._mro = res
        return self._mro

    def ancestor_names(self):
        out = []
        for c in self.mro():
            if isinstance(c, ClassInfo):
                out.append(c.name)
            elif isinstance(c, type):
                out.append(c.__name__)
        return out

    def is_subclass_of(self, other):
        """other: ClassInfo, python type, or name"""
        for c in self.mro():
            if c is other:
                return True
            if isinstance(other, str):
                if isinstance(c, ClassInfo) and c.name == other:
                    return True
                if isinstance(c, type) and c.__name__ == other:
                    return True
        return False

    def find_method(self, name):
        for c in self.mro():
            if isinstance(c, ClassInfo):
                n = c.aliases.get(name, name)
                if n in c.methods:
                    return c.methods[n]
        return None

    def defines(self, name):
        return name in self.methods or name in self.aliases

    def has_unknown_base(self):
        return any(b is None for b in self.bases)


class FunctionUnit:
    def __init__(self, module, node, qualname, parent=None, cls=None):
        self.module = module
        self.node = node
        self.qualname = qualname          # core.Path.from_text.create
        self.parent = parent              # enclosing FunctionUnit or None
        self.cls = cls                    # ClassInfo if a method
        self.children = []
        self.is_lambda = isinstance(node, ast.Lambda)
        a = node.args
        self.params = [x.arg for x in a.posonlyargs + a.args]
        self.vararg = a.vararg.arg if a.vararg else None
        self.kwonly = [x.arg for x in a.kwonlyargs]
        self.kwarg = a.kwarg.arg if a.kwarg else None
        self.all_params = self.params + ([self.vararg] if self.vararg else []) \
            + self.kwonly + ([self.kwarg] if self.kwarg else [])
        self.locals = set(self.all_params)
        self.decorators = [] if self.is_lambda else list(node.decorator_list)
        self._collect_locals()
        self._cfg = None

    def __repr__(self):
        return '<unit %s>' % self.qualname

    @property
    def name(self):
        return self.qualname.rsplit('.', 1)[-1]

    @property
    def lineno(self):
        return self.node.lineno

    def where(self):
        return '%s:%d %s' % (self.module.relpath, self.node.lineno, self.qualname)

    def body(self):
        if self.is_lambda:
            if getattr(self, '_lambda_body', None) is None:
                self._lambda_body = [ast.Return(value=self.node.body, lineno=self.node.lineno,
                                                col_offset=self.node.col_offset)]
            return self._lambda_body
        return self.node.body

    def own_nodes(self):
        """all AST nodes of this unit's body, not descending into nested
        function/lambda/class bodies (their default args and decorators are
        evaluated here and are included)"""
        out = []
        stack = list(reversed(self.body()))
        while stack:
            n = stack.pop()
            out.append(n)
            if isinstance(n, (ast.FunctionDef, ast.AsyncFunctionDef)):
                stack.extend(n.decorator_list)
                stack.extend(n.args.defaults)
                stack.extend(d for d in n.args.kw_defaults if d is not None)
                continue
            if isinstance(n, ast.Lambda):
                stack.extend(n.args.defaults)
                stack.extend(d for d in n.args.kw_defaults if d is not None)
                continue
            if isinstance(n, ast.ClassDef):
                stack.extend(n.bases)
                continue
            stack.extend(reversed(list(ast.iter_child_nodes(n))))
        return out

    def _collect_locals(self):
        for n in self.own_nodes():
            if isinstance(n, ast.Name) and isinstance(n.ctx, (ast.Store, ast.Del)):
                self.locals.add(n.id)
            elif isinstance(n, (ast.FunctionDef, ast.AsyncFunctionDef, ast.ClassDef)):
                self.locals.add(n.name)
            elif isinstance(n, ast.ExceptHandler) and n.name:
                self.locals.add(n.name)
            elif isinstance(n, (ast.Import, ast.ImportFrom)):
                for al in n.names:
                    self.locals.add((al.asname or al.name).split('.')[0])

    def is_generator(self):
        return any(isinstance(n, (ast.Yield, ast.YieldFrom)) for n in self.own_nodes())

    def param_index(self, name):
        return self.params.index(name) if name in self.params else None

    def is_method(self):
        return self.cls is not None and self.parent is None

    def is_static(self):
        return any(isinstance(d, ast.Name) and d.id == 'staticmethod' for d in self.decorators)

    def is_classmethod(self):
        return any(isinstance(d, ast.Name) and d.id == 'classmethod' for d in self.decorators)

    def self_name(self):
        if self.is_method() and not self.is_static() and self.params:
            return self.params[0]
        return None


# ---------------------------------------------------------------------------

def read_sources(root=None):
    root = root or DEFAULT_ROOT
    pkgdir = os.path.join(root, PKG)
    if not os.path.isdir(pkgdir):
        raise AnalysisError('package directory %s not found' % pkgdir)
    out = {}
    for fn in sorted(os.listdir(pkgdir)):
        if fn.endswith('.py'):
            with open(os.path.join(pkgdir, fn), encoding='utf-8') as f:
                out[PKG + '/' + fn] = f.read()
    return out


class Program:
    def __init__(self, sources):
        self.sources = dict(sources)
        self.modules = {}
        self.units = {}
        self.classes = {}
        self._unit_of_node = {}
        self._class_of_node = {}
        for relpath, src in sorted(self.sources.items()):
            base = os.path.basename(relpath)[:-3]
            name = PKG if base == '__init__' else PKG + '.' + base
            try:
                mod = Module(self, name, relpath, src)
            except SyntaxError as e:
                raise AnalysisError('cannot parse %s: %s' % (relpath, e))
            self.modules[name] = mod
        for mod in self.modules.values():
            self._index_module(mod)
        for cls in self.classes.values():
            self._resolve_bases(cls)
        self._evaluators = None

    @classmethod
    def load(cls, root=None, overrides=None):
        src = read_sources(root)
        if overrides:
            src.update(overrides)
        return cls(src)

    # -- indexing ------------------------------------------------------
    def _index_module(self, mod):
        self._index_body(mod, mod.tree.body, prefix=mod.short, parent_unit=None, cls=None,
                         symtab=mod.symbols)

    def _bind(self, symtab, name, binding):
        symtab.setdefault(name, []).append(binding)

    def _index_body(self, mod, body, prefix, parent_unit, cls, symtab):
        """walk statements of a module/class body (descending into if/try/for
        etc. but not into functions) registering bindings; function bodies are
        indexed for nested units via _index_function."""
        for st in body:
            self._index_stmt(mod, st, prefix, parent_unit, cls, symtab)

    def _index_stmt(self, mod, st, prefix, parent_unit, cls, symtab):
        if isinstance(st, (ast.FunctionDef, ast.AsyncFunctionDef)):
            unit = self._make_unit(mod, st, prefix + '.' + st.name, parent_unit, cls)
            if symtab is not None:
                self._bind(symtab, st.name, ('func', unit))
            if cls is not None and parent_unit is None:
                cls.methods[st.name] = unit
        elif isinstance(st, ast.ClassDef):
            ci = ClassInfo(mod, st, prefix + '.' + st.name, outer_unit=parent_unit, outer_class=cls)
            self.classes[ci.qualname] = ci
            self._class_of_node[st] = ci
            mod.classes.append(ci)
            if symtab is not None:
                self._bind(symtab, st.name, ('class', ci))
            if cls is not None:
                cls.attrs.setdefault(st.name, []).append(st)
            self._index_body(mod, st.body, ci.qualname, parent_unit, ci, None)
        elif isinstance(st, ast.Import):
            for al in st.names:
                if symtab is not None:
                    if al.asname:
                        self._bind(symtab, al.asname, ('import', al.name, None))
                    else:
                        self._bind(symtab, al.name.split('.')[0], ('import', al.name.split('.')[0], None))
        elif isinstance(st, ast.ImportFrom):
            modname = self._abs_module(mod, st.module, st.level)
            for al in st.names:
                if symtab is not None:
                    self._bind(symtab, al.asname or al.name, ('import', modname, al.name))
        elif isinstance(st, (ast.Assign, ast.AnnAssign, ast.AugAssign)):
            targets = st.targets if isinstance(st, ast.Assign) else [st.target]
            value = st.value
            for t in targets:
                self._bind_target(t, value, cls, symtab, st)
            self._index_lambdas(mod, st, prefix, parent_unit, cls)
        elif isinstance(st, (ast.If, ast.While)):
            self._index_lambdas(mod, st.test, prefix, parent_unit, cls)
            self._index_body(mod, st.body, prefix, parent_unit, cls, symtab)
            self._index_body(mod, st.orelse, prefix, parent_unit, cls, symtab)
        elif isinstance(st, ast.For):
            self._bind_target(st.target, None, cls, symtab, st)
            self._index_lambdas(mod, st.iter, prefix, parent_unit, cls)
            self._index_body(mod, st.body, prefix, parent_unit, cls, symtab)
            self._index_body(mod, st.orelse, prefix, parent_unit, cls, symtab)
        elif isinstance(st, ast.Try):
            self._index_body(mod, st.body, prefix, parent_unit, cls, symtab)
            for h in st.handlers:
                self._index_body(mod, h.body, prefix, parent_unit, cls, symtab)
            self._index_body(mod, st.orelse, prefix, parent_unit, cls, symtab)
            self._index_body(mod, st.finalbody, prefix, parent_unit, cls, symtab)
        elif isinstance(st, ast.With):
            for it in st.items:
                if it.optional_vars is not None:
                    self._bind_target(it.optional_vars, None, cls, symtab, st)
            self._index_body(mod, st.body, prefix, parent_unit, cls, symtab)
        else:
            self._index_lambdas(mod, st, prefix, parent_unit, cls)

    def _bind_target(self, t, value, cls, symtab, st):
        if isinstance(t, ast.Name):
            if cls is not None and symtab is None:
                cls.attrs.setdefault(t.id, []).append(value)
                if isinstance(value, ast.Name):
                    cls.aliases[t.id] = value.id
            elif symtab is not None:
                self._bind(symtab, t.id, ('assign', value, st))
        elif isinstance(t, (ast.Tuple, ast.List)):
            for e in t.elts:
                self._bind_target(e, None, cls, symtab, st)

    def _index_lambdas(self, mod, node, prefix, parent_unit, cls):
        """lambdas (and comprehensions' lambdas) appearing in an expression or
        simple statement at module/class level"""
        if node is None:
            return
        for n in self._walk_no_scopes(node):
            if isinstance(n, ast.Lambda):
                self._make_unit(mod, n, '%s.<lambda@%d>' % (prefix, n.lineno), parent_unit, cls)

    @staticmethod
    def _walk_no_scopes(node):
        stack = [node]
        while stack:
            n = stack.pop()
            yield n
            if isinstance(n, ast.Lambda) and n is not node:
                continue
            if isinstance(n, (ast.FunctionDef, ast.AsyncFunctionDef, ast.ClassDef)) and n is not node:
                continue
            stack.extend(ast.iter_child_nodes(n))

    def _make_unit(self, mod, node, qualname, parent_unit, cls):
        base = qualname
        k = 1
        while qualname in self.units:
            k += 1
            qualname = '%s#%d' % (base, k)
        unit = FunctionUnit(mod, node, qualname, parent=parent_unit,
                            cls=cls if parent_unit is None or cls is not None else None)
        # a function nested in a method is not itself a method
        if parent_unit is not None:
            unit.cls = None
            unit.enclosing_class = parent_unit.cls or getattr(parent_unit, 'enclosing_class', None)
            parent_unit.children.append(unit)
        else:
            unit.enclosing_class = cls
        self.units[qualname] = unit
        self._unit_of_node[node] = unit
        mod.units.append(unit)
        # nested units
        for n in unit.own_nodes():
            if isinstance(n, (ast.FunctionDef, ast.AsyncFunctionDef)):
                self._make_unit(mod, n, qualname + '.' + n.name, unit, None)
            elif isinstance(n, ast.Lambda):
                self._make_unit(mod, n, '%s.<lambda@%d>' % (qualname, n.lineno), unit, None)
            elif isinstance(n, ast.ClassDef):
                ci = ClassInfo(mod, n, qualname + '.' + n.name, outer_unit=unit)
                self.classes[ci.qualname] = ci
                self._class_of_node[n] = ci
                mod.classes.append(ci)
                self._index_body(mod, n.body, ci.qualname, None, ci, None)
        return unit

    def _abs_module(self, mod, module, level):
        if level == 0:
            return module
        parts = mod.name.split('.')
        if mod.relpath.endswith('__init__.py'):
            pkg = parts
        else:
            pkg = parts[:-1]
        if level > 1:
            pkg = pkg[:-(level - 1)]
        return '.'.join(pkg + ([module] if module else []))

    def _resolve_bases(self, cls):
        for b in cls.node.bases:
            d = None
            if isinstance(b, (ast.Name, ast.Attribute)):
                d = self.resolve_expr_static(cls.module, cls.outer_unit, b)
            if isinstance(d, ClassDefn):
                cls.bases.append(d.cls)
            elif isinstance(d, Builtin) and isinstance(d.obj, type):
                cls.bases.append(d.obj)
            else:
                cls.bases.append(None)

    # -- lookups -------------------------------------------------------
    def unit(self, qualname):
        u = self.units.get(qualname)
        if u is None:
            raise AnalysisError('anchor function %s not found' % qualname)
        return u

    def find_unit(self, qualname):
        return self.units.get(qualname)

    def cls(self, qualname):
        c = self.classes.get(qualname)
        if c is None:
            raise AnalysisError('anchor class %s not found' % qualname)
        return c

    def unit_of(self, node):
        return self._unit_of_node.get(node)

    def class_of(self, node):
        return self._class_of_node.get(node)

    def enclosing_unit(self, node):
        n = getattr(node, '_parent', None)
        while n is not None:
            if n in self._unit_of_node:
                return self._unit_of_node[n]
            n = getattr(n, '_parent', None)
        return None

    def subclasses(self, cls, strict=False):
        out = []
        for c in self.classes.values():
            if c is cls and strict:
                continue
            if c.is_subclass_of(cls):
                out.append(c)
        return out

    def package_units(self, include_tutorial=False):
        for u in self.units.values():
            if not include_tutorial and u.module.short == 'tutorial':
                continue
            yield u

    # -- name resolution ----------------------------------------------
    def resolve_global(self, mod, name, _seen=None):
        _seen = _seen or set()
        if (mod.name, name) in _seen:
            return Unknown(name)
        _seen.add((mod.name, name))
        binds = mod.symbols.get(name)
        if not binds:
            if hasattr(builtins, name):
                return Builtin(name)
            return Unknown(name)
        # imports known to fail on Python 3 (the py2 fallbacks glom still carries)
        live = [b for b in binds if not (b[0] == 'import' and (b[1], b[2]) in PY2_ONLY_IMPORTS)]
        if live:
            binds = live
        # prefer func/class/import definitions; else variable
        last = binds[-1]
        kinds = {b[0] for b in binds}
        if last[0] == 'func':
            return FuncDef(last[1])
        if last[0] == 'class':
            return ClassDefn(last[1])
        if last[0] == 'import':
            return self._resolve_import(last[1], last[2], _seen)
        if 'assign' in kinds:
            values = [b[1] for b in binds if b[0] == 'assign' and b[1] is not None]
            # alias of another global: ``Literal = Val``, ``imap = map``
            if len(binds) == 1 and len(values) == 1 and isinstance(values[0], ast.Name):
                tgt = self.resolve_global(mod, values[0].id, _seen)
                if not isinstance(tgt, (Unknown, GlobalVar)):
                    return tgt
            return GlobalVar(mod, name, values)
        return Unknown(name)

    def _resolve_import(self, modname, attr, _seen=None):
        if attr is None:
            m = self.modules.get(modname)
            return ModuleRef(m) if m else External(modname)
        m = self.modules.get(modname)
        if m is None:
            return External(modname, attr)
        sub = self.modules.get(modname + '.' + attr)
        if attr not in m.symbols and sub is not None:
            return ModuleRef(sub)
        return self.resolve_global(m, attr, _seen)

    def resolve_name(self, unit, name, module=None):
        """resolve a Name used inside ``unit`` (or at module level when unit
        is None)"""
        u = unit
        while u is not None:
            if name in u.locals:
                return Local(u, name, name in u.all_params)
            u = u.parent
        mod = unit.module if unit is not None else module
        return self.resolve_global(mod, name)

    def resolve_expr_static(self, mod, unit, expr):
        """resolve Name / dotted Attribute to a definition when it denotes a
        module-level object; Local / Unknown otherwise"""
        if isinstance(expr, ast.Name):
            return self.resolve_name(unit, expr.id, mod)
        if isinstance(expr, ast.Attribute):
            base = self.resolve_expr_static(mod, unit, expr.value)
            if isinstance(base, ModuleRef):
                sub = self.modules.get(base.mod.name + '.' + expr.attr)
                if expr.attr in base.mod.symbols or sub is None:
                    return self.resolve_global(base.mod, expr.attr)
                return ModuleRef(sub)
            if isinstance(base, External):
                return External(base.module if base.attr is None else base.qualname, expr.attr)
            if isinstance(base, ClassDefn):
                m = base.cls.find_method(expr.attr)
                if m is not None:
                    return FuncDef(m)
                for c in base.cls.mro():
                    if isinstance(c, ClassInfo) and expr.attr in c.attrs:
                        return GlobalVar(c.module, expr.attr,
                                         [v for v in c.attrs[expr.attr] if isinstance(v, ast.expr)],
                                         owner=c)
                return Unknown(expr.attr)
            if isinstance(base, Builtin):
                return External('builtins.' + base.name, expr.attr)
            return Unknown(expr.attr)
        return Unknown(type(expr).__name__)

    def static(self, unit, expr):
        return self.resolve_expr_static(unit.module, unit, expr)

    def is_global_named(self, unit, expr, qualname):
        """does ``expr`` (Name/Attribute) denote the module-level object
        ``qualname`` (e.g. 'core.glom', 'core.MODE')?"""
        d = self.static(unit, expr) if isinstance(expr, (ast.Name, ast.Attribute)) else None
        return d is not None and getattr(d, 'qualname', None) == qualname

    def global_qualname(self, unit, expr):
        if isinstance(expr, (ast.Name, ast.Attribute)):
            d = self.static(unit, expr)
            if isinstance(d, (FuncDef, ClassDefn, GlobalVar, Builtin, External)):
                return d.qualname
        return None

    # -- scope keys ------------------------------------------------------
    def scope_key(self, unit, expr):
        """canonical name of a scope key expression: 'core.MODE', "'globals'",
        ('tuple', ...) or None when not static"""
        if isinstance(expr, ast.Constant):
            return repr(expr.value)
        q = self.global_qualname(unit, expr)
        if q is not None:
            return q
        if isinstance(expr, ast.Tuple):
            parts = [self.scope_key(unit, e) for e in expr.elts]
            return 'tuple(' + ','.join(p if p is not None else '?' for p in parts) + ')'
        return None

    def is_evaluator_call(self, unit, call):
        """``scope[glom](t, s, sc)`` — a subscript by the top-level glom
        function, called"""
        f = call.func
        if isinstance(f, ast.Subscript) and self.scope_key(unit, f.slice) == 'core.glom':
            return True
        # Inspect._trace calls the stashed evaluator scope[Inspect](...)
        return False

    def evaluator_targets(self):
        """values ever stored under the scope key ``glom``"""
        if self._evaluators is None:
            found = []
            for mod in self.modules.values():
                for n in ast.walk(mod.tree):
                    if isinstance(n, ast.Dict):
                        u = self.enclosing_unit(n)
                        for k, v in zip(n.keys, n.values):
                            if k is not None and self._key_at(mod, u, k) == 'core.glom':
                                found.append((mod, u, v))
                    elif isinstance(n, ast.Assign):
                        u = self.enclosing_unit(n)
                        for t in n.targets:
                            if isinstance(t, ast.Subscript) and self._key_at(mod, u, t.slice) == 'core.glom':
                                found.append((mod, u, n.value))
            self._evaluators = found
        return self._evaluators

    def _key_at(self, mod, unit, expr):
        if isinstance(expr, ast.Constant):
            return repr(expr.value)
        if isinstance(expr, (ast.Name, ast.Attribute)):
            d = self.resolve_expr_static(mod, unit, expr)
            if isinstance(d, (FuncDef, ClassDefn, GlobalVar, Builtin, External)):
                return d.qualname
        return None

    # -- callee resolution ---------------------------------------------
    def resolve_callee(self, unit, call):
        """returns (kind, payload):
        'func' unit | 'class' ClassInfo | 'builtin' name | 'external' qualname |
        'evaluator' None | 'method' [units] | 'glomit' [units] | 'user' descr
        """
        f = call.func
        if self.is_evaluator_call(unit, call):
            return ('evaluator', None)
        # self.__class__(...) / type(self)(...) / cls(...): the enclosing class
        owner_expr = None
        if isinstance(f, ast.Attribute) and f.attr == '__class__' and isinstance(f.value, ast.Name):
            owner_expr = f.value.id
        elif isinstance(f, ast.Call) and isinstance(f.func, ast.Name) and f.func.id == 'type' \
                and len(f.args) == 1 and isinstance(f.args[0], ast.Name):
            owner_expr = f.args[0].id
        elif isinstance(f, ast.Name):
            owner_expr = f.id if self._is_cls_param(unit, f.id) else None
        if owner_expr is not None:
            oc = self._self_class(unit, owner_expr)
            if oc is not None:
                return ('class', oc)
        if isinstance(f, ast.Name):
            d = self.resolve_name(unit, f.id)
            return self._callee_of_def(d, f.id)
        if isinstance(f, ast.Attribute):
            # self.m(...) / cls.m(...)
            if isinstance(f.value, ast.Name):
                owner = self._self_class(unit, f.value.id)
                if owner is not None:
                    impls = self.method_impls(owner, f.attr)
                    if impls:
                        return ('method', impls)
                    return ('user', 'self.%s' % f.attr)
            # super().m(...)
            if isinstance(f.value, ast.Call) and isinstance(f.value.func, ast.Name) \
                    and f.value.func.id == 'super':
                c = self._unit_class(unit)
                if c is not None:
                    mro = c.mro()
                    for b in mro[1:]:
                        if isinstance(b, ClassInfo) and b.defines(f.attr):
                            return ('func', b.methods[b.aliases.get(f.attr, f.attr)])
                        if isinstance(b, type) and f.attr in b.__dict__:
                            return ('builtin', '%s.%s' % (b.__name__, f.attr))
                return ('user', 'super().%s' % f.attr)
            d = self.static(unit, f)
            if not isinstance(d, (Unknown, Local)):
                return self._callee_of_def(d, f.attr)
            if f.attr == 'glomit':
                return ('glomit', self.glomit_impls())
            return ('attr', f.attr)
        return ('user', ast.unparse(f)[:40])

    def _callee_of_def(self, d, name):
        if isinstance(d, FuncDef):
            return ('func', d.unit)
        if isinstance(d, ClassDefn):
            return ('class', d.cls)
        if isinstance(d, Builtin):
            return ('builtin', d.name)
        if isinstance(d, External):
            return ('external', d.qualname)
        if isinstance(d, Local):
            return ('local', d)
        if isinstance(d, GlobalVar):
            return ('globalvar', d)
        return ('user', name)

    def _unit_class(self, unit):
        u = unit
        while u is not None:
            if u.cls is not None:
                return u.cls
            u = u.parent
        return None

    def _is_cls_param(self, unit, name):
        u = unit
        while u is not None:
            if u.is_method() and u.is_classmethod() and u.params and u.params[0] == name:
                return True
            if name in u.locals:
                return False
            u = u.parent
        return False

    def _self_class(self, unit, name):
        """if ``name`` is the self (or cls) parameter of the method enclosing
        ``unit`` (closures included), return the ClassInfo"""
        u = unit
        while u is not None:
            if u.is_method() and not u.is_static() and u.params and u.params[0] == name:
                return u.cls
            if name in u.locals and not (u.is_method() and u.params and u.params[0] == name):
                return None
            u = u.parent
        return None

    def method_impls(self, cls, name):
        """class-hierarchy analysis: the implementation seen from cls plus
        overrides in subclasses"""
        out = []
        m = cls.find_method(name)
        if m is not None:
            out.append(m)
        for sub in self.subclasses(cls, strict=True):
            if sub.defines(name):
                mm = sub.methods.get(sub.aliases.get(name, name))
                if mm is not None and mm not in out:
                    out.append(mm)
        return out

    def glomit_impls(self):
        out = []
        for c in self.classes.values():
            if c.module.short == 'tutorial':
                continue
            if 'glomit' in c.methods:
                out.append(c.methods['glomit'])
        return out

    def glomit_classes(self, include_inherited=True):
        out = []
        for c in self.classes.values():
            if c.module.short == 'tutorial':
                continue
            if 'glomit' in c.methods or (include_inherited and c.find_method('glomit')):
                out.append(c)
        return out

    def calls_in(self, unit):
        return [n for n in unit.own_nodes() if isinstance(n, ast.Call)]


def src(node, limit=90):
    try:
        s = ast.unparse(node)
    except Exception:
        s = type(node).__name__
    s = ' '.join(s.split())
    return s if len(s) <= limit else s[:limit - 3] + '...'


def norm(node):
    """normalised text of a statement/expression: the key of a finding (no
    line numbers, no formatting)"""
    return src(node, 200)
