"""Affine induction analysis: closed-form normalisation of integer expressions
in one variable.  ``linear(expr, env)`` returns (a, b) meaning a*K + b for the
symbolic K, given env: name -> (a, b).  Exact rules for floor division and
shifts by constants when the K-coefficient is divisible; anything outside the
fragment raises NotAffine (reported as ANALYSIS-ERROR, not guessed)."""
import ast


class NotAffine(Exception):
    pass


def linear(e, env):
    if isinstance(e, ast.Constant) and isinstance(e.value, int) and not isinstance(e.value, bool):
        return (0, e.value)
    if isinstance(e, ast.Name):
        if e.id in env:
            return env[e.id]
        raise NotAffine('free variable %s' % e.id)
    if isinstance(e, ast.UnaryOp) and isinstance(e.op, ast.USub):
        a, b = linear(e.operand, env)
        return (-a, -b)
    if isinstance(e, ast.BinOp):
        if isinstance(e.op, (ast.Add, ast.Sub)):
            a1, b1 = linear(e.left, env)
            a2, b2 = linear(e.right, env)
            if isinstance(e.op, ast.Add):
                return (a1 + a2, b1 + b2)
            return (a1 - a2, b1 - b2)
        if isinstance(e.op, ast.Mult):
            a1, b1 = linear(e.left, env)
            a2, b2 = linear(e.right, env)
            if a1 == 0:
                return (a2 * b1, b2 * b1)
            if a2 == 0:
                return (a1 * b2, b1 * b2)
            raise NotAffine('non-linear product')
        if isinstance(e.op, (ast.FloorDiv, ast.RShift)):
            a1, b1 = linear(e.left, env)
            a2, c = linear(e.right, env)
            if a2 != 0:
                raise NotAffine('division by a variable')
            if isinstance(e.op, ast.RShift):
                c = 2 ** c
            if c <= 0:
                raise NotAffine('division by non-positive constant')
            if a1 % c != 0:
                raise NotAffine('coefficient %d not divisible by %d' % (a1, c))
            return (a1 // c, b1 // c)
        if isinstance(e.op, ast.LShift):
            a1, b1 = linear(e.left, env)
            a2, c = linear(e.right, env)
            if a2 != 0:
                raise NotAffine('shift by a variable')
            return (a1 * 2 ** c, b1 * 2 ** c)
    raise NotAffine('unsupported expression %s' % type(e).__name__)
