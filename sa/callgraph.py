"""whole-program call graph over the resolved callees, including glom's four
indirections (evaluator, glomit dispatch, mode dispatch, registry handlers)"""
import ast

from .program import AnalysisError


def mode_functions(program):
    """values ever stored under the scope keys MODE / MIN_MODE"""
    out = set()
    for u in program.package_units():
        for n in u.own_nodes():
            if isinstance(n, ast.Assign) and isinstance(n.targets[0], ast.Subscript):
                k = program.scope_key(u, n.targets[0].slice)
                if k in ('core.MODE', 'core.MIN_MODE'):
                    v = n.value
                    if isinstance(v, ast.Name):
                        q = program.global_qualname(u, v)
                        if q in program.units:
                            out.add(program.units[q])
                    elif isinstance(v, ast.Attribute) and isinstance(v.value, ast.Call):
                        kind, payload = program.resolve_callee(u, v.value)
                        if kind == 'class':
                            m = payload.find_method(v.attr)
                            if m is not None:
                                out.add(m)
            if isinstance(n, ast.Dict):
                for k, v in zip(n.keys, n.values):
                    if k is not None and program.scope_key(u, k) == 'core.MODE' and isinstance(v, ast.Name):
                        q = program.global_qualname(u, v)
                        if q in program.units:
                            out.add(program.units[q])
    return out


def evaluators(program):
    out = set()
    for mod, u, v in program.evaluator_targets():
        if isinstance(v, ast.Name):
            d = program.resolve_expr_static(mod, u, v)
            if d.kind == 'func':
                out.add(d.unit)
        elif isinstance(v, ast.Attribute) and u is not None:
            owner = program._self_class(u, v.value.id) if isinstance(v.value, ast.Name) else None
            if owner is not None:
                m = owner.find_method(v.attr)
                if m is not None:
                    out.add(m)
    return out


NAME_BASED = {'agg', '_agg', '_fold', '_glomit', '_iterate', '_trace', 'mode', 'get_handler', 'get_type_map',
              '_get_closest_type', '_del_one', 'from_text', 'from_t', 'startswith', 'items', 'values', '__stars__',
              'glom', 'fill', 'verify', 'matches', '_finalize', '_set_wrapped', 'wrap', 'get_message'}


def callees(program, unit, modes, evals):
    out = set()
    for c in program.calls_in(unit):
        kind, payload = program.resolve_callee(unit, c)
        if kind == 'func':
            out.add(payload)
        elif kind == 'method':
            out.update(payload)
        elif kind == 'class':
            for nm in ('__init__', '__new__'):
                m = payload.find_method(nm)
                if m is not None:
                    out.add(m)
        elif kind == 'evaluator':
            out.update(evals)
        elif kind == 'glomit':
            out.update(payload)
        elif kind == 'attr' and payload in NAME_BASED:
            for cl in program.classes.values():
                if cl.module.short != 'tutorial' and payload in cl.methods:
                    out.add(cl.methods[payload])
        if isinstance(c.func, ast.BoolOp):        # mode dispatch
            out.update(modes)
    # nested functions / lambdas defined here may be called later
    out.update(unit.children)
    return out


def reachable_from(program, roots):
    modes = mode_functions(program)
    evals = evaluators(program)
    seen = set()
    stack = list(roots)
    while stack:
        u = stack.pop()
        if u in seen:
            continue
        seen.add(u)
        stack.extend(callees(program, u, modes, evals) - seen)
    return seen, modes, evals
