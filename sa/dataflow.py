"""Origins (a small allocation-site points-to analysis) and effects.

For every function unit: a flow-insensitive map variable -> set of abstract
objects it may denote, a contents map for objects allocated in the unit, and
the list of *effects* (stores, deletes, in-place operators, mutator calls) with
the abstract objects of their base.  Interprocedural part: per-unit summaries
"mutates parameter p", propagated to call sites as synthesised effects
(fixpoint over the resolved call graph; evaluator / glomit dispatch is *not*
followed: the property quantifies over non-mutating specs).

Tokens
  ('param', p)      the object bound to parameter p
  ('reach', p)      an object reachable from parameter p
  ('fresh', site)   an object allocated in this unit at site (line, col, what)
  ('global', q)     the module/class-level object q;  ('greach', q) inside it
  ('frame', key)    the value stored in the scope frame under a static key
  ('const',)        immutable literal / number / string / function object
  ('exc', line)     a caught exception object
"""
import ast

from .program import (AnalysisError, FuncDef, ClassDefn, Builtin, External, ModuleRef,
                      GlobalVar, Local, Unknown, ClassInfo, src)

CONST = ('const',)

MUTATORS = frozenset('append extend insert update pop popitem clear add discard remove '
                     'setdefault sort reverse appendleft extendleft rotate '
                     'difference_update intersection_update symmetric_difference_update '
                     '__setitem__ __delitem__ __setattr__ __delattr__ __iadd__'.split())
READERS = frozenset('get pop items values keys copy setdefault popitem __getitem__ '
                    'most_common elements'.split())
STR_METHODS = frozenset('join format strip lstrip rstrip replace lower upper title capitalize '
                        'startswith endswith count index find rfind encode decode zfill ljust rjust '
                        'center isdigit isalpha isidentifier casefold'.split())
STR_LIST_METHODS = frozenset('split rsplit splitlines partition rpartition'.split())
PURE_BUILTINS = frozenset('len id isinstance issubclass type callable repr str int float bool '
                          'hash hasattr min max sum any all abs ord chr format bytes range '
                          'round divmod print'.split())
CONTAINER_CTORS = frozenset('list dict set frozenset tuple sorted reversed enumerate zip map '
                            'filter iter OrderedDict ChainMap'.split())
EFFECT_FUNCS = {'setattr': 0, 'delattr': 0}
EFFECT_EXTERNALS = {'operator.setitem': 0, 'operator.delitem': 0, 'operator.iadd': 0}


class Effect:
    __slots__ = ('unit', 'node', 'kind', 'base', 'origins', 'detail', 'via')

    def __init__(self, unit, node, kind, base, origins, detail='', via=None):
        self.unit = unit
        self.node = node          # ast node of the effect (stmt / call)
        self.kind = kind          # store-attr store-item del aug call-mutator call-func
        self.base = base          # ast expr of the written object
        self.origins = origins    # frozenset of tokens
        self.detail = detail
        self.via = via            # callee unit for synthesised effects

    def where(self):
        return '%s:%d %s' % (self.unit.module.relpath, getattr(self.node, 'lineno', 0),
                             self.unit.qualname)

    def text(self):
        return src(self.node, 100)


class UnitFlow:
    """origins analysis of one unit"""

    def __init__(self, analysis, unit):
        self.an = analysis
        self.program = analysis.program
        self.unit = unit
        self.var = {}          # name -> set(tokens)
        self.contents = {}     # fresh token -> set(tokens)
        self.fields = {}       # (fresh token, attribute) -> set(tokens): stores seen in this unit
        self.comp_env = {}     # comprehension variable -> tokens (union)
        self.effects = []
        self.returns = set()
        self._self = unit.self_name()
        self._cls_param = unit.params[0] if unit.is_method() and unit.is_classmethod() and unit.params else None
        self._solved = False
        self._at = None
        self._flow_in = None
        self._scope_vars = None

    # -- flow-sensitive evaluation -----------------------------------------
    def cfg(self):
        from .cfg import cfg_of
        return cfg_of(self.program, self.unit)

    def orig_at(self, e, node=None):
        """origins of expression e evaluated at its own program point"""
        if node is None:
            node = self.cfg().node_containing(e)
        saved = self._at
        self._at = node
        try:
            return self.orig(e)
        finally:
            self._at = saved

    def solve_flow(self):
        """forward dataflow over the CFG: IN[node] = {name: tokens}"""
        if self._flow_in is not None:
            return self._flow_in
        from collections import deque
        cfg = self.cfg()
        IN = {n: {} for n in cfg.nodes}
        OUT = {n: None for n in cfg.nodes}
        entry = {}
        u = self.unit
        for pn in u.all_params:
            entry[pn] = frozenset(self._def_value(pn, cfg.entry, ('param', pn)))
        OUT[cfg.entry] = entry
        self._flow_in = IN
        work = deque(s for s, _ in cfg.entry.succ)
        inq = set(work)
        steps = 0
        while work:
            n = work.popleft()
            inq.discard(n)
            steps += 1
            if steps > 200000:
                raise AnalysisError('flow-sensitive origins did not converge in %s' % u.qualname)
            env = {}
            for p, lab in n.pred:
                srcmap = IN[p] if lab == 'exc' and p is not cfg.entry else OUT[p]
                if srcmap is None:
                    continue
                for name, toks in srcmap.items():
                    cur = env.get(name)
                    env[name] = toks if cur is None else (cur | toks)
            IN[n] = env
            defs = cfg.defs_at(n)
            if defs:
                out = dict(env)
                saved = self._at
                self._at = n
                try:
                    newvals = {}
                    for name, val in defs:
                        v = frozenset(self._def_value(name, n, val))
                        newvals[name] = (newvals[name] | v) if name in newvals else v
                finally:
                    self._at = saved
                out.update(newvals)
            else:
                out = env
            if out != OUT[n]:
                OUT[n] = out
                for sn, _ in n.succ:
                    if sn not in inq:
                        inq.add(sn)
                        work.append(sn)
        return IN

    def _flow_sensitive(self, name, node):
        IN = self.solve_flow()
        env = IN.get(node)
        if env is None or name not in env:
            return None
        return set(env[name])

    def _def_value(self, name, dn, val):
        if isinstance(val, ast.AST):
            return self.orig(val)
        tag = val[0]
        if tag == 'param':
            u = self.unit
            if name == u.vararg or name == u.kwarg:
                tok = ('fresh', (u.lineno, 0, '*' + name))
                self.contents.setdefault(tok, set()).add(('reach', name))
                return {tok}
            return self.param_tokens(name)
        if tag == 'iter':
            return self.inner(self.orig(val[1]))
        if tag == 'unpack':
            v = val[1]
            if isinstance(v, tuple):
                return self.inner(self._def_value(name, dn, v))
            return self.inner(self.orig(v))
        if tag == 'aug':
            st = val[1]
            prev = self.name_origins(name)
            rhs = self.orig(st.value)
            if prev <= {CONST} and rhs <= {CONST}:
                return {CONST}
            fr = self.fresh(st, 'aug')
            self.contents[fr] |= self.inner(prev) | self.inner(rhs)
            return prev | {fr}
        if tag == 'exc':
            return {('exc', val[1].lineno)}
        if tag == 'with':
            return self.orig(val[1])
        return {CONST}

    # -- token helpers ---------------------------------------------------
    def fresh(self, node, what):
        tok = ('fresh', (getattr(node, 'lineno', 0), getattr(node, 'col_offset', 0), what))
        self.contents.setdefault(tok, set())
        return tok

    def inner(self, toks):
        out = set()
        for t in toks:
            k = t[0]
            if k == 'param':
                out.add(('reach', t[1]))
            elif k in ('reach', 'greach', 'frame', 'frame-map', 'frame-maps'):
                out.add(t)
            elif k == 'global':
                out.add(('greach', t[1]))
            elif k == 'fresh':
                c = set(self.contents.get(t) or ())
                for (ft, _a), fv in self.fields.items():
                    if ft == t:
                        c |= fv
                if c:
                    out |= c
                else:
                    out.add(CONST)
            elif k == 'exc':
                out.add(t)
            else:
                out.add(CONST)
        return out

    def param_tokens(self, name):
        if name == self._cls_param and self.unit.cls is not None:
            return {('global', self.unit.cls.qualname)}
        return {('param', name)}

    # -- expression origins ----------------------------------------------
    def orig(self, e):
        if e is None:
            return {CONST}
        m = getattr(self, '_o_' + type(e).__name__, None)
        if m is None:
            return {CONST}
        return m(e)

    def _o_Constant(self, e):
        return {CONST}

    _o_JoinedStr = _o_Compare = _o_Lambda = _o_FormattedValue = _o_Constant

    def _o_UnaryOp(self, e):
        if isinstance(e.op, ast.Not):
            return {CONST}
        return {self.fresh(e, 'unary')}

    def _o_Name(self, e):
        return self.name_origins(e.id)

    def name_origins(self, name):
        if name in self.comp_env:
            return set(self.comp_env[name])
        u = self.unit
        if name in u.locals:
            if self._at is not None:
                fs = self._flow_sensitive(name, self._at)
                if fs is not None:
                    return fs
            out = set(self.var.get(name, ()))
            if name in u.all_params:
                out |= self.param_tokens(name)
                if name == u.vararg or name == u.kwarg:
                    out = set(self.var.get(name, ())) | {('fresh', (u.lineno, 0, '*' + name))}
                    self.contents.setdefault(('fresh', (u.lineno, 0, '*' + name)), set()).add(('reach', name))
            return out or {CONST}
        # closure variable: the enclosing unit's origins
        p = u.parent
        while p is not None:
            if name in p.locals:
                pf = self.an.flow(p)
                out = pf.name_origins(name)
                # fresh objects of the parent are opaque here: keep the token
                for t in out:
                    if t[0] == 'fresh' and t not in self.contents:
                        self.contents[t] = pf.contents.get(t, set())
                return out
            p = p.parent
        d = self.program.resolve_global(u.module, name)
        return self.def_origins(d)

    def def_origins(self, d):
        if isinstance(d, GlobalVar):
            if d.values and all(self._is_sentinel_ctor(d, v) for v in d.values):
                return {CONST}
            return {('global', d.qualname)}
        if isinstance(d, (FuncDef, Builtin, External, ModuleRef)):
            return {CONST}
        if isinstance(d, ClassDefn):
            return {('global', d.qualname)}
        return {CONST}

    def _is_sentinel_ctor(self, d, v):
        if isinstance(v, ast.Call) and isinstance(v.func, (ast.Name, ast.Attribute)):
            cd = self.program.resolve_expr_static(d.module, None, v.func)
            return isinstance(cd, External) and cd.qualname.endswith('make_sentinel')
        return False

    def _static_key(self, k):
        return isinstance(k, (ast.Name, ast.Attribute)) and \
            self.program.global_qualname(self.unit, k) is not None

    def _o_Attribute(self, e):
        if e.attr == 'maps':
            return {('frame-maps',)}
        if e.attr == 'parents' and self.is_scope_expr(e.value):
            return {('frame-map',)}
        d = self.program.static(self.unit, e)
        if not isinstance(d, (Unknown, Local)):
            return self.def_origins(d)
        base = self.orig(e.value)
        # class attribute through cls / self.__class__
        out = set()
        for t in base:
            if t[0] == 'global' and t[1] in self.program.classes:
                out.add(('global', t[1] + '.' + e.attr))
            elif t[0] == 'fresh' and (t, e.attr) in self.fields:
                out |= self.fields[(t, e.attr)] or {CONST}
            else:
                out |= self.inner({t})
        return out

    def is_scope_expr(self, e):
        """expression denoting a scope ChainMap: a parameter/closure variable
        named ``scope`` (or something assigned from one)"""
        if self._scope_vars is None:
            from .util import scope_vars
            self._scope_vars = scope_vars(self.program, self.unit)
        return isinstance(e, ast.Name) and e.id in self._scope_vars

    def _o_Subscript(self, e):
        if isinstance(e.slice, ast.Slice):
            f = self.fresh(e, 'slice')
            self.contents[f] |= self.inner(self.orig(e.value))
            return {f}
        if self.is_scope_expr(e.value):
            k = self.program.scope_key(self.unit, e.slice)
            if k is not None:
                return {('frame', k)}
        base = self.orig(e.value)
        if base == {('frame-maps',)}:
            return {('frame-map',)}
        if base == {('frame-map',)}:
            k = self.program.scope_key(self.unit, e.slice)
            return {('frame', k)} if k is not None else {('frame-map',)}
        return self.inner(base)

    def _o_Starred(self, e):
        return self.inner(self.orig(e.value))

    def _o_IfExp(self, e):
        return self.orig(e.body) | self.orig(e.orelse)

    def _o_BoolOp(self, e):
        out = set()
        for v in e.values:
            out |= self.orig(v)
        return out

    def _o_NamedExpr(self, e):
        return self.orig(e.value)

    def _o_Await(self, e):
        return self.orig(e.value)

    def _o_Yield(self, e):
        return {CONST}

    def _display(self, e, what):
        elts = []
        for x in e.elts:
            elts.append(x)
        toks = set()
        for x in elts:
            toks |= self.orig(x)
        if isinstance(e, ast.Tuple) and toks <= {CONST}:
            return {CONST}
        f = self.fresh(e, what)
        self.contents[f] |= toks
        return {f}

    def _o_List(self, e):
        return self._display(e, 'list')

    def _o_Tuple(self, e):
        return self._display(e, 'tuple')

    def _o_Set(self, e):
        return self._display(e, 'set')

    def _o_Dict(self, e):
        f = self.fresh(e, 'dict')
        for k, v in zip(e.keys, e.values):
            if k is None:
                self.contents[f] |= self.inner(self.orig(v))
            else:
                if not self._static_key(k):
                    self.contents[f] |= self.orig(k)
                self.contents[f] |= self.orig(v)
        return {f}

    def _comp(self, e, elts, what):
        saved = dict(self.comp_env)
        for g in e.generators:
            it = self.inner(self.orig(g.iter))
            self._bind_comp(g.target, it)
        f = self.fresh(e, what)
        for x in elts:
            self.contents[f] |= self.orig(x)
        self.comp_env = saved
        return {f}

    def _bind_comp(self, t, toks):
        if isinstance(t, ast.Name):
            self.comp_env[t.id] = set(toks)
        elif isinstance(t, (ast.Tuple, ast.List)):
            for x in t.elts:
                self._bind_comp(x, self.inner(toks) | {tk for tk in toks if tk[0] != 'fresh'})
        elif isinstance(t, ast.Starred):
            self._bind_comp(t.value, toks)

    def _o_ListComp(self, e):
        return self._comp(e, [e.elt], 'listcomp')

    def _o_SetComp(self, e):
        return self._comp(e, [e.elt], 'setcomp')

    def _o_GeneratorExp(self, e):
        return self._comp(e, [e.elt], 'genexp')

    def _o_DictComp(self, e):
        return self._comp(e, [e.key, e.value], 'dictcomp')

    def _o_BinOp(self, e):
        l, r = self.orig(e.left), self.orig(e.right)
        if isinstance(e.op, ast.Mod) and isinstance(e.left, (ast.Constant, ast.JoinedStr)):
            return {CONST}
        if l <= {CONST} and r <= {CONST}:
            return {CONST}
        f = self.fresh(e, 'binop')
        self.contents[f] |= self.inner(l) | self.inner(r)
        return {f}

    def _o_Call(self, e):
        return self.an.call_origins(self, e)

    # -- statements --------------------------------------------------------
    def assign(self, target, toks, value_node=None):
        if isinstance(target, ast.Name):
            if target.id in self.comp_env:
                return
            s = self.var.setdefault(target.id, set())
            s |= toks
        elif isinstance(target, (ast.Tuple, ast.List)):
            if isinstance(value_node, (ast.Tuple, ast.List)) and len(value_node.elts) == len(target.elts):
                for t, v in zip(target.elts, value_node.elts):
                    self.assign(t, self.orig(v), v)
            else:
                inner = self.inner(toks)
                for t in target.elts:
                    self.assign(t.value if isinstance(t, ast.Starred) else t, inner)
        elif isinstance(target, ast.Attribute):
            base = self.orig(target.value)
            for b in base:
                if b[0] == 'fresh':
                    self.fields.setdefault((b, target.attr), set()).update(toks)
        elif isinstance(target, ast.Subscript):
            base = self.orig(target.value)
            for b in base:
                if b[0] == 'fresh':
                    self.contents.setdefault(b, set()).update(toks)

    def solve(self):
        if self._solved:
            return self
        self._solved = True     # set early: recursion through closures
        nodes = self.unit.own_nodes()
        for _ in range(12):
            before = (sum(len(v) for v in self.var.values()),
                      sum(len(v) for v in self.contents.values()) + sum(len(v) for v in self.fields.values()),
                      len(self.returns))
            for n in nodes:
                self._transfer(n)
            after = (sum(len(v) for v in self.var.values()),
                     sum(len(v) for v in self.contents.values()) + sum(len(v) for v in self.fields.values()),
                     len(self.returns))
            if before == after:
                break
        else:
            raise AnalysisError('origins analysis did not converge in %s' % self.unit.qualname)
        return self

    def _transfer(self, n):
        if isinstance(n, ast.Assign):
            toks = self.orig(n.value)
            for t in n.targets:
                self.assign(t, toks, n.value)
        elif isinstance(n, ast.AnnAssign) and n.value is not None:
            self.assign(n.target, self.orig(n.value), n.value)
        elif isinstance(n, ast.AugAssign):
            toks = self.orig(n.value)
            if isinstance(n.target, ast.Name):
                # x += y : for sequences the result holds y's elements
                cur = self.name_origins(n.target.id)
                for b in cur:
                    if b[0] == 'fresh':
                        self.contents.setdefault(b, set()).update(self.inner(toks))
            else:
                base = self.orig(n.target)
                for b in base:
                    if b[0] == 'fresh':
                        self.contents.setdefault(b, set()).update(self.inner(toks))
        elif isinstance(n, (ast.For, ast.AsyncFor)):
            self.assign(n.target, self.inner(self.orig(n.iter)))
        elif isinstance(n, ast.With):
            for it in n.items:
                if it.optional_vars is not None:
                    self.assign(it.optional_vars, self.orig(it.context_expr))
        elif isinstance(n, ast.ExceptHandler):
            if n.name:
                self.var.setdefault(n.name, set()).add(('exc', n.lineno))
        elif isinstance(n, ast.Return):
            self.returns |= self.orig(n.value)
        elif isinstance(n, ast.Expr) and isinstance(n.value, ast.Call):
            self.orig(n.value)
        elif isinstance(n, (ast.FunctionDef, ast.AsyncFunctionDef)):
            self.var.setdefault(n.name, set()).add(CONST)
        elif isinstance(n, ast.NamedExpr):
            self.assign(n.target, self.orig(n.value))

    # -- effects -------------------------------------------------------------
    def collect_effects(self):
        self.solve()
        out = []
        u = self.unit
        cfg = self.cfg()
        for n in u.own_nodes():
            self._at = cfg.node_containing(n)
            if isinstance(n, (ast.Assign, ast.AnnAssign)):
                targets = n.targets if isinstance(n, ast.Assign) else [n.target]
                for t in targets:
                    out += self._store_effects(n, t)
            elif isinstance(n, ast.AugAssign):
                t = n.target
                if isinstance(t, ast.Name):
                    toks = self.name_origins(t.id)
                    immutable_rhs = isinstance(n.value, ast.JoinedStr) or (
                        isinstance(n.value, ast.Constant) and isinstance(n.value.value, (str, bytes, int, float)))
                    if not immutable_rhs and any(
                            k[0] in ('param', 'reach', 'global', 'greach', 'frame') for k in toks):
                        out.append(Effect(u, n, 'aug', t, frozenset(toks)))
                elif isinstance(t, ast.Attribute):
                    out.append(Effect(u, n, 'store-attr', t.value, frozenset(self.orig(t.value)), t.attr))
                    out.append(Effect(u, n, 'aug', t, frozenset(self.orig(t))))
                elif isinstance(t, ast.Subscript):
                    out.append(Effect(u, n, 'store-item', t.value, frozenset(self.orig(t.value))))
                    out.append(Effect(u, n, 'aug', t, frozenset(self.orig(t))))
            elif isinstance(n, ast.Delete):
                for t in n.targets:
                    if isinstance(t, ast.Attribute):
                        out.append(Effect(u, n, 'del', t.value, frozenset(self.orig(t.value)), t.attr))
                    elif isinstance(t, ast.Subscript):
                        out.append(Effect(u, n, 'del', t.value, frozenset(self.orig(t.value))))
            elif isinstance(n, (ast.For, ast.AsyncFor)):
                out += self._store_effects(n, n.target)
            elif isinstance(n, ast.Call):
                out += self._call_effects(n)
        self._at = None
        self.effects = out
        return out

    def _store_effects(self, n, t):
        u = self.unit
        if isinstance(t, ast.Attribute):
            return [Effect(u, n, 'store-attr', t.value, frozenset(self.orig(t.value)), t.attr)]
        if isinstance(t, ast.Subscript):
            return [Effect(u, n, 'store-item', t.value, frozenset(self.orig(t.value)))]
        if isinstance(t, (ast.Tuple, ast.List)):
            out = []
            for x in t.elts:
                out += self._store_effects(n, x.value if isinstance(x, ast.Starred) else x)
            return out
        return []

    def _call_effects(self, call):
        u = self.unit
        f = call.func
        out = []
        if isinstance(f, ast.Attribute) and f.attr in MUTATORS:
            d = self.program.static(u, f)
            if isinstance(d, (Unknown, Local)):
                out.append(Effect(u, call, 'call-mutator', f.value, frozenset(self.orig(f.value)), f.attr))
        kind, payload = self.program.resolve_callee(u, call)
        idx = None
        if kind == 'builtin' and payload in EFFECT_FUNCS:
            idx = EFFECT_FUNCS[payload]
        elif kind == 'external' and payload in EFFECT_EXTERNALS:
            idx = EFFECT_EXTERNALS[payload]
        if idx is not None and len(call.args) > idx:
            a = call.args[idx]
            out.append(Effect(u, call, 'call-func', a, frozenset(self.orig(a)), payload))
        return out


class Analysis:
    """whole-program driver: unit flows, call summaries, synthesised effects"""

    def __init__(self, program, sanctioned=()):
        self.program = program
        self.sanctioned = frozenset(sanctioned)   # qualnames of the mutation API
        self.api_calls = []                        # (unit, call, callee) reaching it
        self._flows = {}
        self._summaries = None
        self._all_effects = None

    def flow(self, unit):
        f = self._flows.get(unit)
        if f is None:
            f = self._flows[unit] = UnitFlow(self, unit)
            f.solve()
        return f

    # -- call result origins ------------------------------------------------
    def call_origins(self, fl, call):
        p = self.program
        u = fl.unit
        kind, payload = p.resolve_callee(u, call)
        args = list(call.args) + [k.value for k in call.keywords]
        arg_toks = [fl.orig(a) for a in args]
        union = set()
        for t in arg_toks:
            union |= t
        f = call.func
        if kind == 'evaluator':
            # may return the target itself, a part of it, a part of the spec, or new
            out = set()
            if len(call.args) >= 1:
                t = fl.orig(call.args[0])
                out |= t | fl.inner(t)
            if len(call.args) >= 2:
                out |= fl.inner(fl.orig(call.args[1]))
            fr = fl.fresh(call, 'eval')
            fl.contents[fr] |= out
            out.add(fr)
            return out
        if kind == 'builtin':
            if payload in PURE_BUILTINS:
                return {CONST}
            if payload in ('getattr', 'next', 'iter', 'vars'):
                out = fl.inner(arg_toks[0]) if arg_toks else {CONST}
                if payload == 'getattr' and len(arg_toks) > 2:
                    out |= arg_toks[2]
                return out
            if payload in CONTAINER_CTORS or payload in ('copy',):
                fr = fl.fresh(call, payload)
                for t in arg_toks:
                    fl.contents[fr] |= fl.inner(t)
                return {fr}
            if payload == 'super':
                return fl.param_tokens(fl._self) if fl._self else {CONST}
            fr = fl.fresh(call, 'builtin:' + str(payload))
            fl.contents[fr] |= union | fl.inner(union)
            return {fr}
        if kind == 'class':
            fr = fl.fresh(call, 'new:' + payload.qualname)
            fl.contents[fr] |= union
            return {fr}
        if kind == 'external':
            if payload in ('copy.copy', 'copy.deepcopy') or payload.split('.')[-1] in CONTAINER_CTORS:
                fr = fl.fresh(call, payload)
                for t in arg_toks:
                    fl.contents[fr] |= fl.inner(t)
                return {fr}
            if payload in ('operator.getitem',):
                return fl.inner(arg_toks[0]) if arg_toks else {CONST}
            fr = fl.fresh(call, 'ext:' + payload)
            fl.contents[fr] |= union | fl.inner(union)
            return {fr}
        if isinstance(f, ast.Attribute) and kind == 'attr':
            if f.attr in STR_METHODS:
                return {CONST}
            if f.attr in STR_LIST_METHODS:
                return {fl.fresh(call, 'strlist')}
        if isinstance(f, ast.Attribute):
            # x.new_child({...}) : a new frame
            if f.attr == 'new_child':
                fr = fl.fresh(call, 'frame')
                fl.contents[fr] |= union | fl.inner(fl.orig(f.value))
                return {fr}
            if f.attr == 'copy' and not call.args:
                fr = fl.fresh(call, 'copy')
                fl.contents[fr] |= fl.inner(fl.orig(f.value))
                return {fr}
            if f.attr in ('get', 'pop', 'setdefault') and isinstance(f.value, ast.Name) \
                    and fl.is_scope_expr(f.value) and call.args:
                k = p.scope_key(u, call.args[0])
                if k is not None:
                    out = {('frame', k)}
                    for t in arg_toks[1:]:
                        out |= t
                    return out
            if f.attr in READERS and kind not in ('func', 'method'):
                out = fl.inner(fl.orig(f.value))
                for t in arg_toks[1:]:
                    out |= t
                return out
        if kind in ('func', 'method'):
            units = [payload] if kind == 'func' else payload
            out = set()
            for cu in units:
                out |= self._apply_return_summary(fl, call, cu)
            return out
        # unknown / user callable / local variable / attribute call
        recv = set()
        if isinstance(f, ast.Attribute):
            recv = fl.orig(f.value)
        fr = fl.fresh(call, 'call')
        fl.contents[fr] |= union | fl.inner(union) | fl.inner(recv)
        # a user callable may return its argument or a part of it
        return {fr} | union | fl.inner(union) | fl.inner(recv)

    def _apply_return_summary(self, fl, call, cu):
        """substitute the callee's return origins with the caller's arguments"""
        if cu is fl.unit:
            return {fl.fresh(call, 'rec')}
        cf = self.flow(cu)
        binding = self.bind_args(fl, call, cu)
        out = set()
        for t in cf.returns:
            if t[0] == 'param':
                out |= binding.get(t[1], {CONST})
            elif t[0] == 'reach':
                out |= fl.inner(binding.get(t[1], {CONST}))
            elif t[0] == 'fresh':
                fr = fl.fresh(call, 'ret:' + cu.qualname)
                for c in cf.contents.get(t, ()):
                    if c[0] == 'param':
                        fl.contents[fr] |= binding.get(c[1], {CONST})
                    elif c[0] == 'reach':
                        fl.contents[fr] |= fl.inner(binding.get(c[1], {CONST}))
                    elif c[0] in ('global', 'greach', 'frame'):
                        fl.contents[fr].add(c)
                out.add(fr)
            else:
                out.add(t)
        return out or {CONST}

    def bind_args(self, fl, call, cu):
        """callee parameter name -> caller tokens"""
        saved = fl._at
        if fl._at is None:
            fl._at = fl.cfg().node_containing(call)
        try:
            return self._bind_args(fl, call, cu)
        finally:
            fl._at = saved

    def _bind_args(self, fl, call, cu):
        params = list(cu.params)
        binding = {}
        offset = 0
        f = call.func
        if cu.is_method() and not cu.is_static():
            # bound call: receiver is params[0]
            if isinstance(f, ast.Attribute):
                recv = fl.orig(f.value)
                if isinstance(f.value, ast.Call) and isinstance(f.value.func, ast.Name) \
                        and f.value.func.id == 'super' and fl._self:
                    recv = fl.param_tokens(fl._self)
                d = self.program.static(fl.unit, f.value) if isinstance(f.value, (ast.Name, ast.Attribute)) else None
                if isinstance(d, ClassDefn) and not cu.is_classmethod():
                    pass     # Class.method(obj, ...) unbound: no receiver shift
                else:
                    binding[params[0]] = recv
                    offset = 1
            elif params:
                # constructor call Class(...): self is fresh
                offset = 1
        pos = params[offset:]
        i = 0
        for a in call.args:
            if isinstance(a, ast.Starred):
                toks = fl.inner(fl.orig(a.value))
                for pn in pos[i:]:
                    binding.setdefault(pn, set()).update(toks)
                if cu.vararg:
                    binding.setdefault(cu.vararg, set()).update(toks)
                i = len(pos)
                continue
            if i < len(pos):
                binding.setdefault(pos[i], set()).update(fl.orig(a))
            elif cu.vararg:
                binding.setdefault(cu.vararg, set()).update(fl.orig(a))
            i += 1
        for k in call.keywords:
            if k.arg is None:
                toks = fl.inner(fl.orig(k.value))
                if cu.kwarg:
                    binding.setdefault(cu.kwarg, set()).update(toks)
                continue
            if k.arg in cu.params or k.arg in cu.kwonly:
                binding.setdefault(k.arg, set()).update(fl.orig(k.value))
            elif cu.kwarg:
                binding.setdefault(cu.kwarg, set()).update(fl.orig(k.value))
        return binding

    # -- effects, summaries ----------------------------------------------------
    def direct_effects(self, unit):
        f = self.flow(unit)
        if not f.effects and not getattr(f, '_eff_done', False):
            f.collect_effects()
            f._eff_done = True
        return f.effects

    def summaries(self):
        """unit -> set of parameter names whose object (or something inside
        it) the unit may mutate, directly or through resolved callees"""
        if self._summaries is not None:
            return self._summaries
        p = self.program
        units = [u for u in p.units.values()]
        mut = {u: set() for u in units}
        synth = {u: [] for u in units}
        for u in units:
            for e in self.direct_effects(u):
                if u.qualname in self.sanctioned:
                    continue
                for t in e.origins:
                    if t[0] in ('param', 'reach'):
                        mut[u].add(t[1])
        api_calls = {}
        changed = True
        rounds = 0
        while changed:
            changed = False
            rounds += 1
            if rounds > 30:
                raise AnalysisError('mutation summaries did not converge')
            for u in units:
                fl = self.flow(u)
                new_synth = []
                for call in p.calls_in(u):
                    kind, payload = p.resolve_callee(u, call)
                    callees = []
                    if kind == 'func':
                        callees = [payload]
                    elif kind == 'method':
                        callees = payload
                    elif kind == 'class':
                        init = payload.find_method('__init__')
                        callees = [init] if init is not None else []
                    elif kind == 'attr':
                        # name-based resolution for methods of repo classes on
                        # receivers of unknown type
                        callees = [c.methods[payload] for c in p.classes.values()
                                   if payload in c.methods and c.module.short != 'tutorial'
                                   and payload not in ('glomit', 'get', 'update', 'pop', 'items',
                                                       'keys', 'values', 'copy', 'format')
                                   and not payload.startswith('__')]
                    for cu in callees:
                        if cu.qualname in self.sanctioned:
                            api_calls[(u.qualname, id(call))] = (u, call, cu)
                            continue
                        if cu is u or not mut.get(cu):
                            continue
                        binding = self.bind_args(fl, call, cu)
                        for pn in mut[cu]:
                            toks = binding.get(pn)
                            if not toks:
                                continue
                            if kind == 'class' and pn == cu.params[0]:
                                continue
                            new_synth.append((call, cu, pn, frozenset(toks)))
                            for t in toks:
                                if t[0] in ('param', 'reach') and t[1] not in mut[u]:
                                    mut[u].add(t[1])
                                    changed = True
                synth[u] = new_synth
        self._summaries = mut
        self._synth = synth
        self.api_calls = list(api_calls.values())
        return mut

    def all_effects(self, include_tutorial=False):
        """direct + synthesised effects of every unit"""
        if self._all_effects is None:
            self.summaries()
            out = []
            for u in self.program.units.values():
                out += self.direct_effects(u)
                for call, cu, pn, toks in self._synth[u]:
                    out.append(Effect(u, call, 'call-summary', call, toks,
                                      '%s mutates its parameter %s' % (cu.qualname, pn), via=cu))
            self._all_effects = out
        if include_tutorial:
            return self._all_effects
        return [e for e in self._all_effects if e.unit.module.short != 'tutorial']
