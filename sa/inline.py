"""Analysis normal form: inline helpers that are not part of the confirmed tree.

Every rule in this package is anchored in a function of the confirmed tree
(``baseline_units.txt``).  A maintainer who extracts a few statements of such a
function into a new private helper (function, method or local closure) leaves
behaviour unchanged but moves the construct a rule looks for out of the
anchor.  Before the program model is built, calls to helpers whose qualified
name is *not* in the baseline inventory are therefore replaced by the helper's
body (parameters substituted, locals renamed on collision), to a fixed point
of depth ``MAX_DEPTH``.  A helper whose call sites were all inlined is dropped
from the tree; one with remaining references (passed as a value, called in an
unsupported context) is kept and analysed as its own unit as before.

The transformation is semantics-preserving for the statement forms it
accepts; everything else is left alone:

  * ``return H(..)``, ``x = H(..)``, ``H(..)`` statement call sites;
  * ``H(..)`` anywhere in an expression when H's body is a single ``return E``;
  * H has only plain positional/keyword parameters with optional defaults, is
    not a generator, not recursive, not decorated (``@staticmethod`` apart),
    has no global/nonlocal;
  * for ``x = H(..)`` / ``H(..)`` sites every ``return`` of H is in tail
    position of an if/else tree (rewritten to assignments).
"""
import ast
import copy
import os

MAX_DEPTH = 3

_HERE = os.path.dirname(os.path.abspath(__file__))


def load_baseline():
    p = os.path.join(_HERE, 'baseline_units.txt')
    with open(p, encoding='utf-8') as f:
        return frozenset(l.strip() for l in f if l.strip())


class NotInlinable(Exception):
    pass


def _as_expression(body, depth=0):
    """the expression a body of nothing but returns and two-way tests evaluates to, or None"""
    if not body or depth > 4:
        return None
    st = body[0]
    if isinstance(st, ast.Return) and st.value is not None and len(body) == 1:
        return st.value
    if isinstance(st, ast.If):
        a = _as_expression(st.body, depth + 1)
        rest = st.orelse if st.orelse else body[1:]
        if st.orelse and body[1:]:
            return None
        b = _as_expression(rest, depth + 1)
        if a is None or b is None:
            return None
        return ast.copy_location(ast.IfExp(test=st.test, body=a, orelse=b), st)
    return None


# ---------------------------------------------------------------------------

def _own_nodes(func):
    """nodes of a function body excluding nested function/class bodies (their
    headers, i.e. the def node itself, are yielded)"""
    stack = list(func.body)
    while stack:
        n = stack.pop()
        yield n
        if isinstance(n, (ast.FunctionDef, ast.AsyncFunctionDef, ast.ClassDef, ast.Lambda)):
            continue
        stack.extend(ast.iter_child_nodes(n))


def _all_nodes(func):
    for st in func.body:
        for n in ast.walk(st):
            yield n


def _strip_doc(body):
    if body and isinstance(body[0], ast.Expr) and isinstance(body[0].value, ast.Constant) \
            and isinstance(body[0].value.value, str):
        return body[1:]
    return body


def _stored_names(func):
    out = set()
    for n in _own_nodes(func):
        if isinstance(n, ast.Name) and isinstance(n.ctx, (ast.Store, ast.Del)):
            out.add(n.id)
        elif isinstance(n, (ast.FunctionDef, ast.AsyncFunctionDef, ast.ClassDef)):
            out.add(n.name)
        elif isinstance(n, ast.ExceptHandler) and n.name:
            out.add(n.name)
        elif isinstance(n, (ast.Import, ast.ImportFrom)):
            for a in n.names:
                out.add((a.asname or a.name).split('.')[0])
    return out


def _names_in(func):
    out = set()
    for n in _all_nodes(func):
        if isinstance(n, ast.Name):
            out.add(n.id)
        elif isinstance(n, ast.arg):
            out.add(n.arg)
        elif isinstance(n, (ast.FunctionDef, ast.AsyncFunctionDef, ast.ClassDef)):
            out.add(n.name)
        elif isinstance(n, ast.ExceptHandler) and n.name:
            out.add(n.name)
    a = func.args
    for x in a.posonlyargs + a.args + a.kwonlyargs + [a.vararg, a.kwarg]:
        if x is not None:
            out.add(x.arg)
    return out


class _Helper:
    def __init__(self, qual, node, cls, parent):
        self.qual = qual
        self.node = node
        self.cls = cls          # ast.ClassDef or None
        self.parent = parent    # enclosing FunctionDef or None
        self.name = node.name
        self.static = any(isinstance(d, ast.Name) and d.id == 'staticmethod' for d in node.decorator_list)
        a = node.args
        params = [x.arg for x in a.posonlyargs + a.args]
        self.receiver = None
        if cls is not None and not self.static:
            if not params:
                raise NotInlinable('method without receiver')
            self.receiver = params[0]
            params = params[1:]
        self.params = params
        nd = len(a.defaults)
        allp = [x.arg for x in a.posonlyargs + a.args]
        self.defaults = dict(zip(allp[len(allp) - nd:], a.defaults)) if nd else {}
        self.body = _strip_doc(node.body)
        self.stored = _stored_names(node)
        self.loads = {n.id for n in _all_nodes(node) if isinstance(n, ast.Name) and isinstance(n.ctx, ast.Load)}
        # a body made of ``if c: return a`` guards and a final ``return b`` is the conditional
        # expression ``a if c else b``
        self.expr = _as_expression(self.body)
        self.single_expr = self.expr is not None
        # names the helper's own closures (lambdas, nested functions, comprehensions aside) capture:
        # each call has its own cell for them, so an inlined copy needs its own variable
        self.captured = set()
        for n in _all_nodes(node):
            if n is not node and isinstance(n, (ast.Lambda, ast.FunctionDef, ast.AsyncFunctionDef, ast.GeneratorExp)):
                self.captured.update(x.id for x in ast.walk(n) if isinstance(x, ast.Name))


def _eligible(node):
    if not isinstance(node, ast.FunctionDef):
        return False
    if node.name.startswith('__') and node.name.endswith('__'):
        return False
    a = node.args
    if a.vararg or a.kwarg or a.kwonlyargs:
        return False
    for d in node.decorator_list:
        if not (isinstance(d, ast.Name) and d.id == 'staticmethod'):
            return False
    for n in _own_nodes(node):
        if isinstance(n, (ast.Yield, ast.YieldFrom, ast.Global, ast.Nonlocal, ast.Await)):
            return False
    # not (directly) recursive
    for n in _all_nodes(node):
        if isinstance(n, ast.Call):
            f = n.func
            if isinstance(f, ast.Name) and f.id == node.name:
                return False
            if isinstance(f, ast.Attribute) and f.attr == node.name:
                return False
    return True


def _collect(tree, short, baseline):
    """-> (helpers, functions) ; functions = list of (FunctionDef, ClassDef|None)"""
    helpers = []
    funcs = []
    method_names = {}

    def visit(body, prefix, cls, parent):
        renamed_only = False
        if parent is not None:
            # nested functions of a baseline function: when there are no more of them than in
            # the baseline, a name that is not in the baseline is a rename, not a new helper
            known = {b for b in baseline if b.startswith(prefix + '.') and '.' not in b[len(prefix) + 1:]}
            here = [st for st in _stmts(body) if isinstance(st, (ast.FunctionDef, ast.AsyncFunctionDef))]
            renamed_only = len(here) <= len(known)
        for st in _stmts(body):
            if isinstance(st, (ast.FunctionDef, ast.AsyncFunctionDef)):
                qual = prefix + '.' + st.name
                funcs.append((st, cls if parent is None else None, qual))
                if cls is not None and parent is None:
                    method_names.setdefault(st.name, []).append(cls.name)
                if qual not in baseline and not renamed_only and _eligible(st):
                    try:
                        helpers.append(_Helper(qual, st, cls if parent is None else None, parent))
                    except NotInlinable:
                        pass
                visit(st.body, qual, None, st)
            elif isinstance(st, ast.ClassDef):
                visit(st.body, prefix + '.' + st.name, st, None)

    visit(tree.body, short, None, None)
    # a method name defined in several classes may dispatch dynamically
    helpers = [h for h in helpers if not (h.cls is not None and len(method_names.get(h.name, ())) > 1)]
    return helpers, funcs


def _stmts(body):
    """statements of a body, descending into compound statements but not into
    function/class bodies"""
    for st in body:
        yield st
        if isinstance(st, (ast.FunctionDef, ast.AsyncFunctionDef, ast.ClassDef)):
            continue
        for fld in ('body', 'orelse', 'finalbody'):
            sub = getattr(st, fld, None)
            if isinstance(sub, list) and sub and isinstance(sub[0], ast.stmt):
                for x in _stmts(sub):
                    yield x
        for h in getattr(st, 'handlers', ()):
            for x in _stmts(h.body):
                yield x
        for c in getattr(st, 'cases', ()):
            for x in _stmts(c.body):
                yield x


# ---------------------------------------------------------------------------

_SIMPLE = (ast.Name, ast.Constant)


def _is_simple(e):
    if isinstance(e, _SIMPLE):
        return True
    if isinstance(e, ast.Attribute):
        return _is_simple(e.value)
    return False


class _Subst(ast.NodeTransformer):
    def __init__(self, mapping, rename):
        self.mapping = mapping   # name -> expr
        self.rename = rename     # name -> new name

    def visit_Name(self, node):
        if node.id in self.mapping and isinstance(node.ctx, ast.Load):
            return copy.deepcopy(self.mapping[node.id])
        if node.id in self.rename:
            return ast.copy_location(ast.Name(id=self.rename[node.id], ctx=node.ctx), node)
        return node

    def visit_ExceptHandler(self, node):
        if node.name in self.rename:
            node.name = self.rename[node.name]
        return self.generic_visit(node)

    def _shadowing(self, node):
        """nested function: parameters shadow the substituted names"""
        a = node.args
        shadow = {x.arg for x in a.posonlyargs + a.args + a.kwonlyargs + [a.vararg, a.kwarg] if x is not None}
        return shadow

    def visit_FunctionDef(self, node):
        if node.name in self.rename:
            node.name = self.rename[node.name]
        shadow = self._shadowing(node)
        inner = _Subst({k: v for k, v in self.mapping.items() if k not in shadow},
                       {k: v for k, v in self.rename.items() if k not in shadow})
        node.args.defaults = [self.visit(d) for d in node.args.defaults]
        node.body = [inner.visit(s) for s in node.body]
        return node

    def visit_Lambda(self, node):
        shadow = self._shadowing(node)
        inner = _Subst({k: v for k, v in self.mapping.items() if k not in shadow},
                       {k: v for k, v in self.rename.items() if k not in shadow})
        node.args.defaults = [self.visit(d) for d in node.args.defaults]
        node.body = inner.visit(node.body)
        return node


def _bind(helper, call, caller_names, uid, pairs=None, arg_uses=None, stable=()):
    """-> (prelude statements, mapping, rename)"""
    if any(isinstance(a, ast.Starred) for a in call.args) or any(k.arg is None for k in call.keywords):
        raise NotInlinable('star args')
    if len(call.args) > len(helper.params):
        raise NotInlinable('arity')
    actual = dict(zip(helper.params, call.args))
    for k in call.keywords:
        if k.arg not in helper.params or k.arg in actual:
            raise NotInlinable('keyword')
        actual[k.arg] = k.value
    for p in helper.params:
        if p not in actual:
            if p not in helper.defaults:
                raise NotInlinable('missing argument')
            actual[p] = helper.defaults[p]
    prelude = []
    mapping = {}
    rename = {}
    sfx = '__' + helper.name.strip('_') + (str(uid) if uid else '')
    uses = {}
    for n in ast.walk(ast.Module(body=helper.body, type_ignores=[])):
        if isinstance(n, ast.Name):
            uses[n.id] = uses.get(n.id, 0) + 1
    for p in helper.params:
        a = actual[p]
        if p in helper.captured and isinstance(a, ast.Name) and a.id in stable and p not in helper.stored:
            # bound once in the caller (a parameter, a single assignment): a closure reading it
            # late sees the same value as one reading the helper's own parameter
            mapping[p] = a
        elif p in helper.captured and not isinstance(a, ast.Constant):
            _FRESH[0] += 1
            new = '%s%s_c%d' % (p, sfx, _FRESH[0])
            rename[p] = new
            prelude.append(ast.copy_location(
                ast.Assign(targets=[ast.Name(id=new, ctx=ast.Store())], value=copy.deepcopy(a), lineno=call.lineno),
                call))
        elif p not in helper.stored and (_is_simple(a) or uses.get(p, 0) == 0):
            mapping[p] = a
        elif p not in helper.stored and uses.get(p, 0) == 1 and helper.single_expr \
                and sum(1 for q in helper.params if not _is_simple(actual[q])) == 1:
            # the only argument that is not a plain name: its place in the evaluation order
            # relative to the other arguments cannot change
            mapping[p] = a
        elif pairs and p in pairs and isinstance(a, ast.Name) and a.id == pairs[p] \
                and (arg_uses or {}).get(a.id) == 1 and a.id not in (helper.stored - {p}):
            # ``x = H(x, ..)`` with H rebinding its parameter: the caller's x is overwritten by
            # the result anyway, so the parameter can be x itself (exact except for the value of
            # x after an exception escapes H, which no rule reads)
            rename[p] = a.id
        else:
            new = p + sfx
            rename[p] = new
            prelude.append(ast.copy_location(
                ast.Assign(targets=[ast.Name(id=new, ctx=ast.Store())], value=copy.deepcopy(a), lineno=call.lineno),
                call))
    if helper.receiver is not None:
        recv = call.func.value
        if helper.receiver in helper.stored:
            raise NotInlinable('receiver rebound')
        mapping[helper.receiver] = recv
    for n in helper.stored:
        if n in helper.params or n == helper.receiver:
            continue
        if n in helper.captured:
            _FRESH[0] += 1
            rename[n] = '%s%s_c%d' % (n, sfx, _FRESH[0])
        elif n in caller_names:
            rename[n] = n + sfx
    return prelude, mapping, rename


_FRESH = [0]


def _stable_names(func):
    """names bound at most once anywhere in ``func`` (nested scopes included, parameters count as
    a binding)"""
    n = {}
    for x in ast.walk(func):
        if isinstance(x, ast.Name) and isinstance(x.ctx, (ast.Store, ast.Del)):
            n[x.id] = n.get(x.id, 0) + 1
        elif isinstance(x, ast.arg):
            n[x.arg] = n.get(x.arg, 0) + 1
        elif isinstance(x, ast.ExceptHandler) and x.name:
            n[x.name] = n.get(x.name, 0) + 1
        elif isinstance(x, (ast.Global, ast.Nonlocal)):
            for nm in x.names:
                n[nm] = n.get(nm, 0) + 2
    return {k for k, v in n.items() if v <= 1}


def _terminates(body):
    if not body:
        return False
    last = body[-1]
    if isinstance(last, (ast.Return, ast.Raise)):
        return True
    if isinstance(last, ast.If):
        return _terminates(last.body) and _terminates(last.orelse)
    if isinstance(last, ast.Try):
        main = last.orelse if last.orelse else last.body
        return _terminates(main) and all(_terminates(h.body) for h in last.handlers)
    if isinstance(last, ast.With):
        return _terminates(last.body)
    return False


def _has_return(stmts):
    for st in _stmts(stmts):
        if isinstance(st, ast.Return):
            return True
    return False


def _tail_convert(stmts, k):
    """rewrite a body whose returns are all in tail position so that each
    ``return e`` becomes ``k(e)`` (a list of statements)"""
    out = []
    for i, st in enumerate(stmts):
        if isinstance(st, ast.Return):
            out.extend(k(st.value, st))
            return out
        if isinstance(st, ast.Raise):
            out.append(st)
            return out
        if isinstance(st, ast.If) and (_has_return(st.body) or _has_return(st.orelse)):
            rest = stmts[i + 1:]
            bt, et = _terminates(st.body), _terminates(st.orelse)
            new = ast.copy_location(ast.If(test=st.test, body=[], orelse=[]), st)
            if bt and et:
                new.body = _tail_convert(st.body, k)
                new.orelse = _tail_convert(st.orelse, k)
            elif bt:
                new.body = _tail_convert(st.body, k)
                new.orelse = _tail_convert(list(st.orelse) + rest, k)
            elif et:
                new.body = _tail_convert(list(st.body) + rest, k)
                new.orelse = _tail_convert(st.orelse, k)
            else:
                raise NotInlinable('return in a branch that falls through')
            if not new.body:
                new.body = [ast.copy_location(ast.Pass(), st)]
            out.append(new)
            return out
        if isinstance(st, ast.Try) and _has_return([st]):
            rest = stmts[i + 1:]
            if _has_return(st.finalbody):
                raise NotInlinable('return in finally')
            if rest and not _terminates([st]):
                # ``try: B / except E: return`` followed by more statements: when every handler
                # leaves and B itself does not return, what follows runs exactly when B completed
                # -- it is the else clause (exceptions of the rest are not caught by the handlers
                # either way)
                if st.finalbody or _has_return(st.body) or not all(_terminates(h.body) for h in st.handlers):
                    raise NotInlinable('return in a try that falls through')
                new = ast.copy_location(ast.Try(body=list(st.body), handlers=[], orelse=[], finalbody=[]), st)
                new.orelse = _tail_convert(list(st.orelse) + rest, k)
                for h in st.handlers:
                    nh = ast.copy_location(ast.ExceptHandler(type=h.type, name=h.name,
                                                             body=_tail_convert(h.body, k) or [ast.copy_location(ast.Pass(), h)]), h)
                    new.handlers.append(nh)
                out.append(new)
                return out
            new = ast.copy_location(ast.Try(body=list(st.body), handlers=[], orelse=[],
                                            finalbody=list(st.finalbody)), st)
            if st.orelse:
                if _has_return(st.body):
                    raise NotInlinable('return in try body with else clause')
                new.orelse = _tail_convert(st.orelse, k)
            else:
                new.body = _tail_convert(st.body, k)
            for h in st.handlers:
                nh = ast.copy_location(ast.ExceptHandler(type=h.type, name=h.name,
                                                         body=_tail_convert(h.body, k)), h)
                new.handlers.append(nh)
            out.append(new)
            return out
        if isinstance(st, ast.With) and _has_return([st]):
            rest = stmts[i + 1:]
            if rest and not _terminates([st]):
                raise NotInlinable('return in a with block that falls through')
            new = ast.copy_location(ast.With(items=st.items, body=_tail_convert(st.body, k)), st)
            out.append(new)
            return out
        if isinstance(st, (ast.For, ast.While)) and _has_return([st]):
            # ``loop: ... return e ...`` followed by a tail: leaving the loop by return skips the
            # tail, which is what break does to an else clause -- each return becomes k(e) + break
            # and the tail becomes the loop's else.  Only when the loop has no else and no break of
            # its own, and the returns are not inside a nested loop / try-finally.
            rest = stmts[i + 1:]
            if st.orelse:
                raise NotInlinable('return inside a loop with an else clause')
            new = copy.deepcopy(st)

            def conv(body):
                out2 = []
                for s2 in body:
                    if isinstance(s2, ast.Return):
                        ks = k(s2.value, s2)
                        out2.extend(ks)
                        if not (ks and isinstance(ks[-1], (ast.Return, ast.Raise))):
                            out2.append(ast.copy_location(ast.Break(), s2))
                        return out2
                    if isinstance(s2, ast.Break):
                        raise NotInlinable('return inside a loop that also breaks')
                    if isinstance(s2, (ast.For, ast.While)):
                        if _has_return([s2]):
                            raise NotInlinable('return inside a nested loop')
                        out2.append(s2)
                        continue
                    if isinstance(s2, (ast.FunctionDef, ast.AsyncFunctionDef, ast.ClassDef)):
                        out2.append(s2)
                        continue
                    if isinstance(s2, ast.If):
                        s2.body = conv(s2.body) or [ast.copy_location(ast.Pass(), s2)]
                        s2.orelse = conv(s2.orelse)
                    elif isinstance(s2, ast.Try):
                        if _has_return([s2]) and s2.finalbody:
                            raise NotInlinable('return inside try-finally inside a loop')
                        s2.body = conv(s2.body)
                        s2.orelse = conv(s2.orelse)
                        for h in s2.handlers:
                            h.body = conv(h.body) or [ast.copy_location(ast.Pass(), h)]
                    elif isinstance(s2, ast.With):
                        s2.body = conv(s2.body)
                    out2.append(s2)
                return out2
            new.body = conv(new.body)
            new.orelse = _tail_convert(rest, k)
            out.append(new)
            return out
        if not isinstance(st, (ast.FunctionDef, ast.AsyncFunctionDef, ast.ClassDef)) and _has_return([st]):
            raise NotInlinable('return inside a loop')
        out.append(st)
    out.extend(k(None, stmts[-1] if stmts else None))
    return out


def _match_call(call, helpers_by_name, func, cls, qual):
    """the helper a Call node refers to in the context of function ``func``"""
    if not isinstance(call, ast.Call):
        return None
    f = call.func
    if isinstance(f, ast.Name):
        for h in helpers_by_name.get(f.id, ()):
            if h.cls is None and h.parent is None:
                return h
            if h.parent is not None and (qual + '.').startswith(h.qual.rsplit('.', 1)[0] + '.'):
                return h
        return None
    if isinstance(f, ast.Attribute) and isinstance(f.value, ast.Name):
        for h in helpers_by_name.get(f.attr, ()):
            if h.cls is None:
                continue
            if h.static:
                return h
            a = func.args
            params = [x.arg for x in a.posonlyargs + a.args]
            if cls is not None and params and f.value.id == params[0]:
                return h
        return None
    return None


class _ExprInliner(ast.NodeTransformer):
    def __init__(self, ctx):
        self.ctx = ctx
        self.count = 0

    def visit_FunctionDef(self, node):
        return node

    visit_AsyncFunctionDef = visit_FunctionDef
    visit_ClassDef = visit_FunctionDef

    def visit_Call(self, node):
        self.generic_visit(node)
        helpers_by_name, func, cls, qual, names = self.ctx
        h = _match_call(node, helpers_by_name, func, cls, qual)
        if h is None or not h.single_expr:
            return node
        try:
            prelude, mapping, rename = _bind(h, node, names, 0, stable=_stable_names(func))
        except NotInlinable:
            return node
        if prelude:
            return node
        e = _Subst(mapping, rename).visit(copy.deepcopy(h.expr))
        self.count += 1
        h.inlined += 1
        return ast.copy_location(e, node)


def _eval_nodes(n):
    """sub-expressions in the order their evaluation completes (approximation used to find the
    first call evaluated in a statement)"""
    if isinstance(n, (ast.Lambda, ast.ListComp, ast.SetComp, ast.DictComp, ast.GeneratorExp, ast.IfExp, ast.BoolOp)):
        yield n
        return
    for c in ast.iter_child_nodes(n):
        if isinstance(c, (ast.expr_context, ast.operator, ast.unaryop, ast.cmpop, ast.boolop)):
            continue
        yield from _eval_nodes(c)
    if isinstance(n, ast.expr):
        yield n


def _inline_in_function(func, cls, qual, helpers_by_name):
    """one pass over the statements of ``func``; returns number of sites inlined"""
    count = 0
    names = _names_in(func)
    uid = [0]

    def expand(st):
        nonlocal count
        call = None
        form = None
        if isinstance(st, ast.Return) and isinstance(st.value, ast.Call):
            call, form = st.value, 'return'
        elif isinstance(st, ast.Assign) and len(st.targets) == 1 and isinstance(st.value, ast.Call):
            call, form = st.value, 'assign'
        elif isinstance(st, ast.Expr) and isinstance(st.value, ast.Call):
            call, form = st.value, 'expr'
        if call is None:
            return None
        h = _match_call(call, helpers_by_name, func, cls, qual)
        if h is None or h.node is func:
            return None
        try:
            uid[0] += 1
            # the helper builds its results in names r.. and the caller stores them in x..:
            # let each r be the corresponding x (the inverse of the extraction) when x is not
            # otherwise live inside the helper
            pairs = {}
            if form == 'assign':
                T = st.targets[0]
                rets = [r for r in _stmts(h.body) if isinstance(r, ast.Return)]
                if isinstance(T, ast.Name) and rets and all(isinstance(r.value, ast.Name) for r in rets) \
                        and len({r.value.id for r in rets}) == 1:
                    pairs = {rets[0].value.id: T.id}
                elif isinstance(T, ast.Tuple) and len(rets) == 1 and isinstance(rets[0].value, ast.Tuple) \
                        and len(T.elts) == len(rets[0].value.elts) \
                        and all(isinstance(e, ast.Name) for e in T.elts + rets[0].value.elts):
                    rn = [e.id for e in rets[0].value.elts]
                    xn = [e.id for e in T.elts]
                    if len(set(rn)) == len(rn) and len(set(xn)) == len(xn):
                        pairs = dict(zip(rn, xn))
            if form == 'assign' and isinstance(st.targets[0], ast.Name):
                # ``x = H(x, ..)`` with H rebinding that parameter: the parameter is the caller's x
                for idx_, prm_ in enumerate(h.params):
                    if idx_ < len(call.args) and isinstance(call.args[idx_], ast.Name) and call.args[idx_].id == st.targets[0].id \
                            and prm_ in h.stored:
                        pairs.setdefault(prm_, st.targets[0].id)
            arg_uses = {}
            for a_ in list(call.args) + [kw.value for kw in call.keywords]:
                for n in ast.walk(a_):
                    if isinstance(n, ast.Name):
                        arg_uses[n.id] = arg_uses.get(n.id, 0) + 1
            prelude, mapping, rename = _bind(h, call, names, uid[0] if uid[0] > 1 else 0, pairs, arg_uses, stable=_stable_names(func))
            free = h.loads - h.stored - set(h.params)
            for r, x in pairs.items():
                if rename.get(r) == x:
                    continue
                if r in h.stored and r not in h.params and r != h.receiver and not arg_uses.get(x) \
                        and x not in (h.stored - {r}) and x not in free and x not in rename.values():
                    rename[r] = x
            body = [_Subst(mapping, rename).visit(copy.deepcopy(s)) for s in h.body]
            if form == 'return':
                new = list(body)
                if not _terminates(new):
                    new.append(ast.copy_location(ast.Return(value=ast.Constant(value=None)), st))
            elif form == 'assign':
                def k(e, at):
                    v = e if e is not None else ast.Constant(value=None)
                    T = st.targets[0]
                    if isinstance(v, ast.Name) and isinstance(T, ast.Name) and v.id == T.id:
                        return []
                    if isinstance(v, ast.Tuple) and isinstance(T, ast.Tuple) and len(v.elts) == len(T.elts) \
                            and all(isinstance(e, ast.Name) for e in v.elts + T.elts):
                        keep = [(t, e) for t, e in zip(T.elts, v.elts) if t.id != e.id]
                        if not keep:
                            return []
                        if len(keep) < len(T.elts) and not ({t.id for t, _ in keep} & {e.id for _, e in keep}):
                            return [ast.copy_location(ast.Assign(targets=[copy.deepcopy(t)], value=e,
                                                                 lineno=st.lineno), at or st) for t, e in keep]
                    return [ast.copy_location(ast.Assign(targets=copy.deepcopy(st.targets), value=v,
                                                         lineno=st.lineno), at or st)]
                new = _tail_convert(body, k)
            else:
                def k(e, at):
                    if e is None or isinstance(e, (ast.Constant, ast.Name)):
                        return []
                    return [ast.copy_location(ast.Expr(value=e), at or st)]
                new = _tail_convert(body, k)
                if not new:
                    new = [ast.copy_location(ast.Pass(), st)]
        except NotInlinable:
            return None
        names.update(rename.values())
        count += 1
        h.inlined += 1
        out = prelude + new
        for s in out:
            ast.fix_missing_locations(s)
        return out

    def hoist(st):
        """a helper call that is the first thing evaluated in st (a loop's iterable, an if test, the
        value of a return / assignment ...) but not the whole statement: name it in a temporary
        placed before st, so that the statement forms above apply"""
        if isinstance(st, ast.For):
            root, field = st.iter, 'iter'
        elif isinstance(st, ast.If):
            root, field = st.test, 'test'
        elif isinstance(st, (ast.Return, ast.Expr)) and st.value is not None:
            root, field = st.value, 'value'
        elif isinstance(st, ast.Assign):
            root, field = st.value, 'value'
        else:
            return None
        target = None
        order = list(_eval_nodes(root))
        for idx, n in enumerate(order):
            if isinstance(n, ast.Call) and _match_call(n, helpers_by_name, func, cls, qual) is not None \
                    and not _match_call(n, helpers_by_name, func, cls, qual).single_expr:
                inside = {id(x) for x in ast.walk(n)}
                if all(id(x) in inside or isinstance(x, (ast.Name, ast.Constant, ast.Attribute, ast.Tuple, ast.List))
                       for x in order[:idx]):
                    target = n
                break
        if target is None or target is root and isinstance(st, (ast.Return, ast.Expr, ast.Assign)):
            return None
        # its own arguments must be plain (they are evaluated before anything else anyway)
        uid[0] += 1
        tmp = '%s__r%d' % (_match_call(target, helpers_by_name, func, cls, qual).name.strip('_'), uid[0])
        names.add(tmp)
        pre = ast.Assign(targets=[ast.Name(id=tmp, ctx=ast.Store())], value=target, lineno=st.lineno)
        ast.copy_location(pre, st)

        class Put(ast.NodeTransformer):
            def visit_Call(self, node):
                if node is target:
                    return ast.copy_location(ast.Name(id=tmp, ctx=ast.Load()), node)
                return self.generic_visit(node)
        setattr(st, field, Put().visit(root))
        ast.fix_missing_locations(pre)
        return pre

    def split_complex_target(st):
        """``obj[k] = H(..)`` / ``obj.a = H(..)`` with H a multi-statement helper: compute into a
        temporary first (each return of H would otherwise become its own store)"""
        if isinstance(st, ast.Assign) and len(st.targets) == 1 and isinstance(st.targets[0], (ast.Subscript, ast.Attribute)) \
                and isinstance(st.value, ast.Call):
            h = _match_call(st.value, helpers_by_name, func, cls, qual)
            if h is not None and not h.single_expr and h.node is not func:
                uid[0] += 1
                tmp = '%s__r%d' % (h.name.strip('_'), uid[0])
                names.add(tmp)
                pre = ast.copy_location(ast.Assign(targets=[ast.Name(id=tmp, ctx=ast.Store())], value=st.value, lineno=st.lineno), st)
                st.value = ast.copy_location(ast.Name(id=tmp, ctx=ast.Load()), st)
                ast.fix_missing_locations(pre)
                return pre
        return None

    def rewrite(body):
        out = []
        for st in body:
            if isinstance(st, (ast.FunctionDef, ast.AsyncFunctionDef, ast.ClassDef)):
                out.append(st)
                continue
            pre = split_complex_target(st) or hoist(st)
            if pre is not None:
                rep0 = expand(pre)
                out.extend(rep0 if rep0 is not None else [pre])
            rep = expand(st)
            if rep is not None:
                out.extend(rep)
                continue
            for fld in ('body', 'orelse', 'finalbody'):
                sub = getattr(st, fld, None)
                if isinstance(sub, list) and sub and isinstance(sub[0], ast.stmt):
                    setattr(st, fld, rewrite(sub))
            for h in getattr(st, 'handlers', ()):
                h.body = rewrite(h.body)
            out.append(st)
        return out

    func.body = rewrite(func.body)
    # expression-level for single-return helpers
    ei = _ExprInliner((helpers_by_name, func, cls, qual, names))
    func.body = [ei.visit(s) for s in func.body]
    return count + ei.count


def _references(tree, helper):
    n = 0
    for node in ast.walk(tree):
        if helper.cls is None:
            if isinstance(node, ast.Name) and node.id == helper.name:
                n += 1
        else:
            if isinstance(node, ast.Attribute) and node.attr == helper.name:
                n += 1
    return n


def _remove_def(tree, helper):
    for node in ast.walk(tree):
        for fld in ('body', 'orelse', 'finalbody'):
            sub = getattr(node, fld, None)
            if isinstance(sub, list) and helper.node in sub:
                sub.remove(helper.node)
                if not sub and fld == 'body':
                    sub.append(ast.copy_location(ast.Pass(), helper.node))
                return True
    return False


def load_baseline_globals():
    p = os.path.join(_HERE, 'baseline_globals.txt')
    with open(p, encoding='utf-8') as f:
        return frozenset(l.strip() for l in f if l.strip())


_MUTATORS = {'append', 'extend', 'insert', 'pop', 'popitem', 'remove', 'clear', 'update', 'setdefault', 'sort', 'reverse',
             'add', 'discard', 'move_to_end', '__setitem__', '__delitem__'}


def inline_new_module_constants(tree, short, baseline=None):
    """a module-level name that is not in the confirmed inventory (``baseline_globals.txt``), is
    bound exactly once to a tuple / dict display of names, dotted names and constants, and is only
    ever read (no store through it, no mutating method, never handed on as a bare value) is a
    hoisted literal: its uses inside functions are replaced by the display, so that the rules see
    the function as it was written before the constant was named.  -> list of inlined names"""
    if baseline is None:
        baseline = load_baseline_globals()
    cands = {}
    for st in tree.body:
        if isinstance(st, ast.Assign) and len(st.targets) == 1 and isinstance(st.targets[0], ast.Name):
            nm, v = st.targets[0].id, st.value
            if '%s.%s' % (short, nm) in baseline:
                continue
            def simple(e, depth=0):
                if isinstance(e, (ast.Name, ast.Constant)) or (isinstance(e, ast.Attribute) and simple(e.value, depth)):
                    return True
                # rows of a table: displays of simple values
                if depth < 2 and isinstance(e, ast.Tuple):
                    return all(simple(x, depth + 1) for x in e.elts)
                if depth < 2 and isinstance(e, ast.Dict):
                    return all(k is not None and simple(k, depth + 1) for k in e.keys) and all(simple(x, depth + 1) for x in e.values)
                return False
            if isinstance(v, ast.Tuple) and v.elts and all(simple(e) for e in v.elts) and len(v.elts) <= 40:
                cands[nm] = v
            elif isinstance(v, ast.Dict) and v.keys and all(k is not None and simple(k) for k in v.keys) \
                    and all(simple(x) for x in v.values) and len(v.keys) <= 40:
                cands[nm] = v
    if not cands:
        return []
    stores, bad = {}, set()
    parents = {}
    for n in ast.walk(tree):
        for c in ast.iter_child_nodes(n):
            parents[c] = n
    for n in ast.walk(tree):
        if isinstance(n, ast.Name) and n.id in cands:
            if not isinstance(n.ctx, ast.Load):
                stores[n.id] = stores.get(n.id, 0) + 1
                continue
            par = parents.get(n)
            if isinstance(par, ast.Attribute) and par.value is n:
                gp = parents.get(par)
                if par.attr in _MUTATORS or par.attr == 'get' or not isinstance(par.ctx, ast.Load) \
                        or not (isinstance(gp, ast.Call) and gp.func is par):
                    bad.add(n.id)
            elif isinstance(par, ast.Subscript) and par.value is n:
                gp = parents.get(par)
                if not isinstance(par.ctx, ast.Load):
                    bad.add(n.id)
                elif isinstance(gp, ast.Call) and gp.func is par:
                    bad.add(n.id)       # a dispatch table: left to the dispatch normal form
            elif isinstance(par, ast.Compare) and n in par.comparators and all(isinstance(o, (ast.In, ast.NotIn)) for o in par.ops):
                pass
            elif isinstance(par, (ast.For, ast.comprehension)) and par.iter is n:
                pass
            else:
                bad.add(n.id)       # handed on as a value: identity may matter
        elif isinstance(n, (ast.Global, ast.Nonlocal)) and set(n.names) & set(cands):
            bad |= set(n.names)
        elif isinstance(n, ast.arg) and n.arg in cands:
            bad.add(n.arg)
    ok = {nm for nm in cands if stores.get(nm, 0) == 1 and nm not in bad}
    # a local of the same name anywhere shadows it: leave those alone
    if not ok:
        return []

    class Put(ast.NodeTransformer):
        def visit_Name(self, n):
            if n.id in ok and isinstance(n.ctx, ast.Load):
                return ast.copy_location(copy.deepcopy(cands[n.id]), n)
            return n
    done = set()
    for st in tree.body:
        if isinstance(st, (ast.FunctionDef, ast.AsyncFunctionDef, ast.ClassDef)):
            before = ast.dump(st)
            Put().visit(st)
            if ast.dump(st) != before:
                done |= {nm for nm in ok}
    ast.fix_missing_locations(tree)
    return sorted(done)


def inline_new_helpers(tree, short, baseline=None):
    """mutates and returns ``tree``; ``tree._inlined`` lists (helper qualname, sites, dropped)"""
    if baseline is None:
        baseline = load_baseline()
    inline_new_module_constants(tree, short)
    log = []
    _FRESH[0] = 0
    for _ in range(MAX_DEPTH):
        helpers, funcs = _collect(tree, short, baseline)
        if not helpers:
            break
        by_name = {}
        for h in helpers:
            h.inlined = 0
            by_name.setdefault(h.name, []).append(h)
        total = 0
        for func, cls, qual in funcs:
            if isinstance(func, ast.FunctionDef):
                total += _inline_in_function(func, cls, qual, by_name)
        for h in helpers:
            if h.inlined:
                dropped = False
                if _references(tree, h) == 0:
                    dropped = _remove_def(tree, h)
                log.append((h.qual, h.inlined, dropped))
        if not total:
            break
    tree._inlined = log
    return tree
