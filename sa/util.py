"""helper queries shared by the rules"""
import ast

from .program import (AnalysisError, ClassInfo, ClassDefn, Builtin, External, FuncDef, GlobalVar,
                      Local, Unknown, src, norm)
from .cfg import CFG


def parent(n):
    return getattr(n, '_parent', None)


def ancestors(n):
    n = parent(n)
    while n is not None:
        yield n
        n = parent(n)


def stmt_of(n):
    """the statement containing expression n"""
    while n is not None and not isinstance(n, ast.stmt):
        n = parent(n)
    return n


def _contains(stmts, node):
    for s in stmts:
        for x in ast.walk(s):
            if x is node:
                return True
    return False


def enclosing_trys(node, stop=None):
    """Try statements whose *body* (not handlers/else) contains node,
    innermost first, not crossing function boundaries"""
    out = []
    child = node
    for a in ancestors(node):
        if isinstance(a, (ast.FunctionDef, ast.AsyncFunctionDef, ast.Lambda)):
            break
        if isinstance(a, ast.Try):
            if any(child is s for s in a.body):
                out.append(a)
        child = a
    return out


def in_handler_of(node):
    """ExceptHandlers whose body contains node, innermost first"""
    out = []
    for a in ancestors(node):
        if isinstance(a, (ast.FunctionDef, ast.AsyncFunctionDef, ast.Lambda)):
            break
        if isinstance(a, ast.ExceptHandler):
            out.append(a)
    return out


def is_name(e, name=None):
    return isinstance(e, ast.Name) and (name is None or e.id == name)


def names_in(e):
    return {n.id for n in ast.walk(e) if isinstance(n, ast.Name)}


def calls_in(node_or_unit):
    if hasattr(node_or_unit, 'own_nodes'):
        return [n for n in node_or_unit.own_nodes() if isinstance(n, ast.Call)]
    return [n for n in ast.walk(node_or_unit) if isinstance(n, ast.Call)]


def callee_qual(program, unit, call):
    """qualified name of the resolved callee, or 'attr:<name>' / 'local:<name>'"""
    kind, payload = program.resolve_callee(unit, call)
    if kind == 'func':
        return payload.qualname
    if kind == 'class':
        return payload.qualname
    if kind == 'builtin':
        return 'builtins.' + payload
    if kind == 'external':
        return payload
    if kind == 'evaluator':
        return '<evaluator>'
    if kind == 'method':
        return payload[0].qualname
    if kind == 'attr':
        return 'attr:' + payload
    if kind == 'local':
        return 'local:' + payload.name
    if kind == 'glomit':
        return 'attr:glomit'
    return '?'


def evaluator_calls(program, unit):
    return [c for c in calls_in(unit) if program.is_evaluator_call(unit, c)]


def handler_body_nodes(cfg, hnode):
    h = hnode.ast
    return [n for n in cfg.nodes if h in n.in_handler and n is not hnode]


def handler_outcomes(cfg, hnode):
    """how control may leave the handler: dict outcome -> list of nodes.
    outcomes: 'raise-bare', 'raise-var', 'raise-new:<Class>', 'raise-other',
    'normal', 'return', 'continue', 'break'.  Exceptions raised incidentally
    by ordinary statements of the handler are not outcomes."""
    h = hnode.ast
    region = set(handler_body_nodes(cfg, hnode)) | {hnode}
    out = {}
    seen = set()
    stack = [hnode]
    while stack:
        n = stack.pop()
        if n in seen:
            continue
        seen.add(n)
        if n.kind == 'stmt' and isinstance(n.ast, ast.Raise) and n is not hnode:
            exc = n.ast.exc
            # only raises whose innermost handler is h re-raise h's exception
            inner = n.in_handler[-1] if n.in_handler else None
            if exc is None and inner is h:
                out.setdefault('raise-bare', []).append(n)
            elif isinstance(exc, ast.Name) and h.name and exc.id == h.name and inner is h:
                out.setdefault('raise-var', []).append(n)
            elif isinstance(exc, ast.Call):
                out.setdefault('raise-new:' + src(exc.func, 60), []).append(n)
            else:
                out.setdefault('raise-other', []).append(n)
            continue
        for s, lab in n.succ:
            if lab == 'exc':
                continue
            if s in region:
                stack.append(s)
                continue
            if lab == 'return' or s is cfg.exit and lab in ('return',):
                out.setdefault('return', []).append(n)
            elif lab == 'break':
                out.setdefault('break', []).append(n)
            elif lab == 'back' and isinstance(n.ast, ast.Continue):
                out.setdefault('continue', []).append(n)
            else:
                out.setdefault('normal', []).append(n)
    return out


def completes_normally(outcomes):
    return any(k in outcomes for k in ('normal', 'return', 'continue', 'break'))


def class_names_of_handler(cfg, hnode):
    out = []
    for c in cfg.handler_classes(hnode):
        if c == '*':
            out.append('*')
        elif isinstance(c, ClassInfo):
            out.append(c.name)
        elif isinstance(c, type):
            out.append(c.__name__)
    return out


def handler_covers(cfg, hnode, clsname, program=None):
    """does the handler catch exceptions of builtin class ``clsname`` (or repo
    class qualname)?"""
    import builtins
    target = getattr(builtins, clsname, None)
    hcs = cfg.handler_classes(hnode)
    if not hcs:
        return False
    if target is None and program is not None:
        target = program.classes.get(clsname)
    if target is None:
        return False
    return any(CFG.class_covers(c, target) for c in hcs)


def const_str_tests(test, var):
    """op-code constants a dispatch test compares ``var`` against:
    ``var == 'c'``, ``var in 'xX'``, ``var in ('a', 'b')`` (also inside and/or)
    -> set of str, or None when the test is not such a comparison"""
    if isinstance(test, ast.BoolOp):
        acc = set()
        hit = False
        for v in test.values:
            r = const_str_tests(v, var)
            if r is not None:
                acc |= r
                hit = True
        return acc if hit else None
    if isinstance(test, ast.Compare) and len(test.ops) == 1 and is_name(test.left, var):
        c = test.comparators[0]
        if isinstance(test.ops[0], ast.Eq) and isinstance(c, ast.Constant) and isinstance(c.value, str):
            return {c.value}
        if isinstance(test.ops[0], ast.In):
            if isinstance(c, ast.Constant) and isinstance(c.value, str):
                return set(c.value)
            if isinstance(c, (ast.Tuple, ast.List, ast.Set)) and all(
                    isinstance(x, ast.Constant) and isinstance(x.value, str) for x in c.elts):
                return {x.value for x in c.elts}
    return None


def single_def_expr(cfg, node, name):
    """if exactly one definition of ``name`` reaches node and it is a plain
    expression, return it"""
    defs = cfg.reaching_defs(node, name, split=False)
    if len(defs) == 1 and isinstance(defs[0][1], ast.AST):
        return defs[0][1]
    return None


def def_exprs(cfg, node, name):
    """all reaching definition values (ast.expr or marker tuples)"""
    return [v for _, v in cfg.reaching_defs(node, name)]


def deref(cfg, node, e, depth=3):
    """follow single-definition local variables: the expression a Name stands
    for at node (one level of 'extract variable' tolerance)"""
    while depth > 0 and isinstance(e, ast.Name):
        defs = cfg.reaching_defs(node, e.id, split=False)
        if len(defs) == 1 and isinstance(defs[0][1], ast.AST):
            node, e = defs[0][0], defs[0][1]
            depth -= 1
        else:
            break
    return e


def clone(e):
    """a copy of an expression / statement subtree without the ``_parent`` back-links (a deepcopy
    would follow them and copy the whole module)"""
    if isinstance(e, list):
        return [clone(x) for x in e]
    if not isinstance(e, ast.AST):
        return e
    if isinstance(e, (ast.expr_context, ast.operator, ast.unaryop, ast.cmpop, ast.boolop)):
        return e
    new = type(e)()
    for f in e._fields:
        if hasattr(e, f):
            setattr(new, f, clone(getattr(e, f)))
    for a in ('lineno', 'col_offset', 'end_lineno', 'end_col_offset'):
        if hasattr(e, a):
            setattr(new, a, getattr(e, a))
    return new


def expand_locals(cfg, node, e, depth=4):
    """``e`` with every local that has a single reaching definition replaced by that definition
    (recursively): the expression written without 'extract variable' temporaries"""

    class _Sub(ast.NodeTransformer):
        def __init__(self, at, d):
            self.at, self.d = at, d

        def visit_Name(self, n):
            if not isinstance(n.ctx, ast.Load) or self.d <= 0:
                return n
            defs = cfg.reaching_defs(self.at, n.id, split=False)
            if len(defs) == 1 and isinstance(defs[0][1], ast.AST):
                return _Sub(defs[0][0], self.d - 1).visit(clone(defs[0][1]))
            return n
    return _Sub(node, depth).visit(clone(e))


def returns_of(unit):
    return [n for n in unit.own_nodes() if isinstance(n, ast.Return)]


def raises_of(unit):
    return [n for n in unit.own_nodes() if isinstance(n, ast.Raise)]


def raised_class(program, unit, r):
    """ClassInfo / python type raised by a Raise statement, or None (re-raise
    of a variable / bare)"""
    exc = r.exc
    if exc is None:
        return None
    if isinstance(exc, ast.Call):
        exc = exc.func
    if isinstance(exc, (ast.Name, ast.Attribute)):
        d = program.static(unit, exc)
        if isinstance(d, ClassDefn):
            return d.cls
        if isinstance(d, Builtin) and isinstance(d.obj, type):
            return d.obj
    return None


def cls_name(c):
    if isinstance(c, ClassInfo):
        return c.name
    if isinstance(c, type):
        return c.__name__
    return str(c)


def is_subclass(c, name):
    if isinstance(c, ClassInfo):
        return c.is_subclass_of(name)
    if isinstance(c, type):
        return any(b.__name__ == name for b in c.__mro__)
    return False


def kwarg(call, name, pos=None):
    for k in call.keywords:
        if k.arg == name:
            return k.value
    if pos is not None and len(call.args) > pos and not any(isinstance(a, ast.Starred) for a in call.args[:pos + 1]):
        return call.args[pos]
    return None


def self_attr_stores(unit):
    """attributes of self stored in this unit: name -> list of value exprs"""
    out = {}
    s = unit.self_name()
    if not s:
        return out
    for n in unit.own_nodes():
        if isinstance(n, ast.Assign):
            for t in n.targets:
                _collect_self_store(t, n.value, s, out)
        elif isinstance(n, ast.AugAssign):
            _collect_self_store(n.target, n.value, s, out)
    return out


def _collect_self_store(t, value, s, out):
    if isinstance(t, ast.Attribute) and is_name(t.value, s):
        out.setdefault(t.attr, []).append(value)
    elif isinstance(t, (ast.Tuple, ast.List)):
        if isinstance(value, (ast.Tuple, ast.List)) and len(value.elts) == len(t.elts):
            for a, b in zip(t.elts, value.elts):
                _collect_self_store(a, b, s, out)
        else:
            for a in t.elts:
                _collect_self_store(a, value, s, out)


def self_attr_loads(unit, attr=None):
    s = unit.self_name()
    out = []
    if not s:
        # closures of a method: find the method's self through the parent chain
        u = unit.parent
        while u is not None and not s:
            s = u.self_name()
            u = u.parent
        if not s:
            return out
    for n in unit.own_nodes():
        if isinstance(n, ast.Attribute) and isinstance(n.ctx, ast.Load) and is_name(n.value, s):
            if attr is None or n.attr == attr:
                out.append(n)
    return out


def units_of_class(program, cls, with_nested=True):
    out = []
    for u in program.units.values():
        if u.cls is cls:
            out.append(u)
        elif with_nested and u.parent is not None:
            p = u
            while p.parent is not None:
                p = p.parent
            if p.cls is cls:
                out.append(u)
    return out


def fmt_witness(cfg, path):
    return cfg.format_path(path) if path else []


def scope_vars(program, unit):
    """local names that denote scope frames (ChainMaps / their maps) in a unit:
    the ``scope`` parameter (own or enclosing) and everything derived from it by
    copy, new_child(), [UP] / [ROOT] / [LAST_CHILD_SCOPE], chain_child(), .maps[k]"""
    seeds = set()
    u = unit
    while u is not None:
        if 'scope' in u.all_params:
            seeds.add('scope')
        u = u.parent
    out = set(seeds)
    if not out:
        return out

    def root_is_scope(e):
        while True:
            if isinstance(e, ast.Name):
                return e.id in out
            if isinstance(e, ast.Attribute) and e.attr in ('maps', 'parents'):
                e = e.value
            elif isinstance(e, ast.Subscript):
                k = program.scope_key(unit, e.slice)
                if isinstance(e.value, ast.Attribute) and e.value.attr == 'maps':
                    e = e.value
                elif k in ('core.UP', 'core.ROOT', 'core.LAST_CHILD_SCOPE'):
                    e = e.value
                else:
                    return False
            elif isinstance(e, ast.Call):
                if isinstance(e.func, ast.Attribute) and e.func.attr == 'new_child':
                    e = e.func.value
                elif isinstance(e.func, ast.Name) and e.func.id == 'chain_child' and e.args:
                    e = e.args[0]
                else:
                    return False
            else:
                return False
    # greatest fixpoint: a local is scope-like when *every* assignment to it is scope-derived
    assigns = {}
    for n in unit.own_nodes():
        if isinstance(n, ast.Assign):
            for t in n.targets:
                if isinstance(t, ast.Name):
                    assigns.setdefault(t.id, []).append(n.value)
                elif isinstance(t, (ast.Tuple, ast.List)):
                    for e in t.elts:
                        if isinstance(e, ast.Name):
                            assigns.setdefault(e.id, []).append(None)
        elif isinstance(n, (ast.For, ast.AugAssign)):
            tg = n.target
            for e in ast.walk(tg):
                if isinstance(e, ast.Name) and isinstance(e.ctx, ast.Store):
                    assigns.setdefault(e.id, []).append(None)
    out |= {k for k in assigns if k not in unit.all_params}
    changed = True
    while changed:
        changed = False
        for name in list(out):
            if name in seeds and name not in assigns:
                continue
            vals = assigns.get(name, [])
            ok = all(v is not None and root_is_scope(v) for v in vals)
            if name in seeds:
                ok = ok      # a rebound scope parameter must stay scope-derived
            if not ok and not (name in seeds and not vals):
                out.discard(name)
                changed = True
    return out


def flows_into(unit, exprs):
    """names of locals whose value may flow (through local assignments, flow-insensitively,
    including loop targets and augmented assignments) into one of the expressions"""
    defs = {}
    for n in unit.own_nodes():
        if isinstance(n, ast.Assign):
            for t in n.targets:
                for x in ast.walk(t):
                    if isinstance(x, ast.Name):
                        defs.setdefault(x.id, []).append(n.value)
        elif isinstance(n, ast.AugAssign) and isinstance(n.target, ast.Name):
            defs.setdefault(n.target.id, []).append(n.value)
        elif isinstance(n, (ast.For, ast.comprehension)):
            for x in ast.walk(n.target):
                if isinstance(x, ast.Name):
                    defs.setdefault(x.id, []).append(n.iter)
        elif isinstance(n, ast.NamedExpr):
            defs.setdefault(n.target.id, []).append(n.value)
    seen = set()
    work = [x.id for e in exprs for x in ast.walk(e) if isinstance(x, ast.Name)]
    while work:
        nm = work.pop()
        if nm in seen:
            continue
        seen.add(nm)
        for v in defs.get(nm, ()):
            work.extend(x.id for x in ast.walk(v) if isinstance(x, ast.Name))
    return seen


def search_loop_rejects(cfg, inner, outer=None):
    """A search loop (``for alt in alts: try one; on success break``) must reject when no
    alternative matched and must not reject after a match, whatever the spelling
    (for-else, a boolean flag tested after the loop, early exits).  ``inner``/``outer`` are
    loop header nodes (outer None: the function body).  Decided on flag-sensitive paths:
      (A) no path from a break of the loop to a rejecting raise within the same outer iteration;
      (B) no path from the start of the outer iteration to its end that avoids both the breaks
          and the rejecting raises.
    -> (ok, detail, raises)"""
    nonexc = lambda lab: lab != 'exc'
    raises = []
    for n in cfg.nodes:
        if n.kind == 'stmt' and isinstance(n.ast, ast.Raise) and n.ast.exc is not None and inner not in n.loop_stack:
            if cfg.find_path(inner, {n}, avoid={outer} if outer is not None else (), labels=nonexc,
                             start_labels=lambda lab: lab == 'false') is not None:
                raises.append(n)
    if not raises:
        return False, 'no raise is reachable when the loop is exhausted', raises
    wins = [n for n in cfg.nodes if n.kind == 'stmt' and inner in n.loop_stack
            and (isinstance(n.ast, ast.Break) and n.loop_stack[-1] is inner or isinstance(n.ast, ast.Return))]
    if not wins:
        return False, 'the loop has no break', raises
    for b in wins:
        pth = cfg.find_path(b, set(raises), avoid={outer} if outer is not None else (), labels=nonexc)
        if pth is not None:
            return False, 'a match can still be rejected: %s' % fmt_witness(cfg, pth), raises
    if outer is not None:
        start, ends, sl = outer, {outer, cfg.exit}, (lambda lab: lab == 'true')
    else:
        start, ends, sl = cfg.entry, {cfg.exit}, None
    pth = cfg.find_path(start, ends, avoid=set(raises) | set(wins), labels=nonexc, start_labels=sl)
    if pth is not None:
        return False, 'no match goes unrejected: %s' % fmt_witness(cfg, pth), raises
    return True, '', raises


def choice_leaves(e):
    """leaves of a (nested) conditional expression: ``a if c else (b if d else e)`` -> [a, b, e];
    any other expression is its own single leaf"""
    if isinstance(e, ast.IfExp):
        return choice_leaves(e.body) + choice_leaves(e.orelse)
    return [e]


_COMPLEMENT = {ast.In: ast.NotIn, ast.NotIn: ast.In, ast.Is: ast.IsNot, ast.IsNot: ast.Is,
               ast.Eq: ast.NotEq, ast.NotEq: ast.Eq, ast.Lt: ast.GtE, ast.GtE: ast.Lt,
               ast.Gt: ast.LtE, ast.LtE: ast.Gt}


def polarity(test, template):
    """the out-edge of a test node on which ``template`` (source text of a condition, may use
    pattern metavariables) holds: 'true' when the test is the condition, 'false' when it is its
    negation (``not c`` or the complementary comparison), None when it is neither"""
    from .pattern import matches, _compile
    if matches(test, template):
        return 'true'
    if isinstance(test, ast.UnaryOp) and isinstance(test.op, ast.Not):
        inner = polarity(test.operand, template)
        if inner:
            return 'false' if inner == 'true' else 'true'
    t = _compile(template)
    if isinstance(t, ast.Expr):
        t = t.value
    if isinstance(t, ast.Compare) and len(t.ops) == 1 and isinstance(test, ast.Compare) and len(test.ops) == 1 \
            and _COMPLEMENT.get(type(t.ops[0])) is type(test.ops[0]):
        import copy
        flipped = clone(test)
        flipped.ops = [type(t.ops[0])()]
        if matches(flipped, template):
            return 'false'
    return None


def branch_of(ifstmt, node):
    """'true' / 'false': the branch of the If statement that contains ``node``"""
    for s in ifstmt.body:
        if any(x is node for x in ast.walk(s)):
            return 'true'
    for s in ifstmt.orelse:
        if any(x is node for x in ast.walk(s)):
            return 'false'
    return None


def exclusive(cfg, t, edge):
    """nodes reachable (without exception edges) from test node t only by leaving it on ``edge``;
    for a test inside a loop: within the same iteration (paths through the innermost loop header
    are not followed, otherwise both edges reach everything)"""
    nonexc = lambda lab: lab != 'exc'
    other = 'false' if edge == 'true' else 'true'
    hdr = set(getattr(t, 'loop_stack', ())[-1:])
    hdr.discard(t)
    a = cfg.reachable(t, avoid=hdr, labels=nonexc, start_labels=lambda lab: lab == edge)
    b = cfg.reachable(t, avoid=hdr, labels=nonexc, start_labels=lambda lab: lab == other)
    return [n for n in cfg.nodes if n in a and n not in b]


def locals_from_attrs(unit, attrs, recv='self'):
    """{attr: local name} for locals initialised as ``name = <recv>.<attr>`` (or in a tuple
    assignment position-wise); the first such assignment per attribute"""
    out = {}
    for n in unit.own_nodes():
        if not isinstance(n, ast.Assign) or len(n.targets) != 1:
            continue
        pairs = []
        t, v = n.targets[0], n.value
        if isinstance(t, ast.Tuple) and isinstance(v, ast.Tuple) and len(t.elts) == len(v.elts):
            pairs = list(zip(t.elts, v.elts))
        else:
            pairs = [(t, v)]
        for tt, vv in pairs:
            if isinstance(tt, ast.Name) and isinstance(vv, ast.Attribute) and is_name(vv.value, recv) \
                    and vv.attr in attrs and vv.attr not in out:
                out[vv.attr] = tt.id
    return out


def values_on(cfg, at, name, t, edge, entry_only=False):
    """values (ast.expr) the local ``name`` can hold at the entry of node ``at`` when control
    left test node ``t`` on ``edge`` ('true'/'false'): definitions before the test that survive
    that edge, and definitions made after taking it.  entry_only: ``at`` is a loop header and
    only the values on entering the loop are wanted (definitions inside the loop are skipped)"""
    nonexc = lambda lab: lab != 'exc'
    on = lambda lab: lab == edge
    defs = cfg.reaching_defs(at, name)
    def_nodes = {n for n in cfg.nodes if any(nm == name for nm, _ in cfg.defs_at(n))}
    out = []
    after = cfg.reachable(t, labels=nonexc, start_labels=on)
    for dn, v in defs:
        if entry_only and at in dn.loop_stack:
            continue
        others = def_nodes - {dn}
        if dn in after and not cfg.dominates(dn, t):
            ok = cfg.find_path(t, {dn}, labels=nonexc, start_labels=on) is not None and \
                (dn is at or cfg.find_path(dn, {at}, avoid=others, labels=nonexc) is not None)
        else:
            # defined before the test: must reach the test, and survive from there on this edge
            ok = (dn is cfg.entry or cfg.find_path(dn, {t}, avoid=others, labels=nonexc) is not None) and \
                cfg.find_path(t, {at}, avoid=others, labels=nonexc, start_labels=on) is not None
        if ok:
            out.append(v)
    return out


def string_pieces(e):
    """a string-building expression as a list of ('lit', text) and ('val', expr, conv) pieces
    (conv: 's' or 'r'), whatever the spelling: %-format with %s/%r, f-string, str.format with
    positional fields, or concatenation.  None when the expression is something else."""
    import re as _re
    if isinstance(e, ast.Constant) and isinstance(e.value, str):
        return [('lit', e.value)] if e.value else []
    if isinstance(e, ast.BinOp) and isinstance(e.op, ast.Add):
        a, b = string_pieces(e.left), string_pieces(e.right)
        return None if a is None or b is None else _merge(a + b)
    if isinstance(e, ast.JoinedStr):
        out = []
        for v in e.values:
            if isinstance(v, ast.Constant):
                out.append(('lit', v.value))
            elif isinstance(v, ast.FormattedValue) and v.format_spec is None and v.conversion in (-1, 115, 114):
                out.append(('val', v.value, 'r' if v.conversion == 114 else 's'))
            else:
                return None
        return _merge(out)
    if isinstance(e, ast.BinOp) and isinstance(e.op, ast.Mod) and isinstance(e.left, ast.Constant) and isinstance(e.left.value, str):
        fmt = e.left.value
        args = list(e.right.elts) if isinstance(e.right, ast.Tuple) else [e.right]
        chunks = _re.split(r'(%[sr%])', fmt)
        out = []
        for c in chunks:
            if c in ('%s', '%r'):
                if not args:
                    return None
                out.append(('val', args.pop(0), c[1]))
            elif c == '%%':
                out.append(('lit', '%'))
            elif '%' in c:
                return None
            elif c:
                out.append(('lit', c))
        return None if args else _merge(out)
    if isinstance(e, ast.Call) and isinstance(e.func, ast.Attribute) and e.func.attr == 'format' \
            and isinstance(e.func.value, ast.Constant) and isinstance(e.func.value.value, str) and not e.keywords:
        fmt = e.func.value.value
        out = []
        auto = 0
        for c in _re.split(r'(\{\d*(?:![rs])?\})', fmt):
            m = _re.fullmatch(r'\{(\d*)(?:!([rs]))?\}', c)
            if m:
                i = int(m.group(1)) if m.group(1) else auto
                auto += 1
                if i >= len(e.args):
                    return None
                out.append(('val', e.args[i], m.group(2) or 's'))
            elif '{' in c or '}' in c:
                return None
            elif c:
                out.append(('lit', c))
        return _merge(out)
    return None


def _merge(pieces):
    out = []
    for p in pieces:
        if p[0] == 'lit' and out and out[-1][0] == 'lit':
            out[-1] = ('lit', out[-1][1] + p[1])
        else:
            out.append(p)
    return out


def cond_expr(cfg, ifstmt):
    """the condition an ``if`` decides on: its test, or -- when the test is a local holding a
    condition computed just before (``flag = a and b; if flag:``) -- that expression"""
    t = ifstmt.test
    if isinstance(t, ast.Name):
        node = cfg.node_of(ifstmt)
        if node is not None:
            return deref(cfg, node, t)
    return t


class Undecidable(Exception):
    pass


def decision_function(unit):
    """For a loop-free function made of ``if`` tests, simple assignments of locals and returns:
    (atoms, decide) where atoms are the source texts of the atomic conditions (positive form)
    and decide(assignment) evaluates the body under a truth assignment of the atoms and
    returns the source text of the returned expression (locals substituted).  Raises
    Undecidable for anything else."""
    from .program import norm
    from .normal import _positive
    atoms = []

    def atoms_of(t):
        if isinstance(t, ast.BoolOp):
            for v in t.values:
                atoms_of(v)
            return
        pos, _ = _positive(t)
        if isinstance(pos, ast.BoolOp) or (isinstance(pos, ast.UnaryOp) and isinstance(pos.op, ast.Not)):
            atoms_of(pos.operand if isinstance(pos, ast.UnaryOp) else pos)
            return
        k = norm(pos)
        if k not in atoms:
            atoms.append(k)
    for n in unit.own_nodes():
        if isinstance(n, (ast.If, ast.IfExp)):
            atoms_of(n.test)
        elif isinstance(n, (ast.For, ast.While, ast.Try, ast.With)):
            raise Undecidable('loop / try in a decision function')

    def truth(t, asg):
        if isinstance(t, ast.BoolOp):
            vals = [truth(v, asg) for v in t.values]
            return all(vals) if isinstance(t.op, ast.And) else any(vals)
        pos, neg = _positive(t)
        if neg:
            return not truth(pos, asg)
        return asg[norm(pos)]

    def value(e, asg, env):
        if isinstance(e, ast.IfExp):
            return value(e.body if truth(e.test, asg) else e.orelse, asg, env)
        if isinstance(e, ast.Name) and e.id in env:
            return env[e.id]
        if any(isinstance(n, ast.Name) and n.id in env for n in ast.walk(e)):
            import copy

            class Sub(ast.NodeTransformer):
                def visit_Name(self, node):
                    if isinstance(node.ctx, ast.Load) and node.id in env:
                        return ast.parse(env[node.id], mode='eval').body
                    return node
            return norm(Sub().visit(clone(e)))
        return norm(e)

    def run(stmts, asg, env):
        for st in stmts:
            if isinstance(st, ast.Return):
                return ('return', value(st.value, asg, env) if st.value is not None else 'None')
            if isinstance(st, ast.Raise):
                return ('raise', norm(st.exc) if st.exc is not None else '')
            if isinstance(st, ast.If):
                r = run(st.body if truth(st.test, asg) else st.orelse, asg, env)
                if r is not None:
                    return r
                continue
            if isinstance(st, ast.Assign) and len(st.targets) == 1 and isinstance(st.targets[0], ast.Name):
                env = dict(env)
                env[st.targets[0].id] = value(st.value, asg, env)
                continue
            if isinstance(st, (ast.Pass,)) or (isinstance(st, ast.Expr) and isinstance(st.value, ast.Constant)):
                continue
            raise Undecidable('unsupported statement %s' % norm(st))
        return None

    def decide(asg):
        r = run(unit.body() if callable(getattr(unit, 'body', None)) else unit.node.body, asg, {})
        return r if r is not None else ('return', 'None')
    return atoms, decide


def boolean_function(unit):
    """For a predicate written with ``if`` tests, boolean operators and returns (see
    decision_function): (atoms, f) where atoms are the atomic conditions of the tests *and* of
    the returned expressions and f(assignment) is the truth value returned.  Raises Undecidable
    when the function is not of that shape."""
    import itertools
    from .program import norm
    from .normal import _positive
    atoms, decide = decision_function(unit)
    all_atoms = list(atoms)

    def atoms_of(e):
        if isinstance(e, ast.BoolOp):
            for v in e.values:
                atoms_of(v)
            return
        if isinstance(e, ast.Constant) and isinstance(e.value, bool):
            return
        pos, neg = _positive(e)
        if neg or isinstance(pos, ast.BoolOp):
            atoms_of(pos)
            return
        k = norm(pos)
        if k not in all_atoms:
            all_atoms.append(k)

    def truth(e, asg):
        if isinstance(e, ast.Constant) and isinstance(e.value, bool):
            return e.value
        if isinstance(e, ast.BoolOp):
            vals = [truth(v, asg) for v in e.values]
            return all(vals) if isinstance(e.op, ast.And) else any(vals)
        pos, neg = _positive(e)
        if neg:
            return not truth(pos, asg)
        if isinstance(pos, ast.BoolOp):
            return truth(pos, asg)
        return asg[norm(pos)]
    parsed = {}
    for vals in itertools.product((False, True), repeat=len(atoms)):
        kind, text = decide(dict(zip(atoms, vals)))
        if kind != 'return':
            raise Undecidable('the predicate raises')
        if text not in parsed:
            parsed[text] = ast.parse(text, mode='eval').body
            atoms_of(parsed[text])

    def f(asg):
        kind, text = decide({a: asg[a] for a in atoms})
        return truth(parsed[text], asg)
    return all_atoms, f


def choice_values(cfg, at, name, cond_template, entry_only=False):
    """the values local ``name`` holds at node ``at`` when ``cond_template`` holds / does not
    hold, whichever way the two-way choice is written (if/else, default-then-override,
    override-then-default, conditional expression).  -> (holds, not_holds) as lists of
    source texts, or None when no decision on that condition reaches ``at``"""
    from .program import norm
    from .pattern import matches
    from .normal import _positive
    # conditional-expression definitions
    ds = cfg.reaching_defs(at, name, split=False)
    if entry_only:
        ds = [(dn, v) for dn, v in ds if at not in dn.loop_stack]
    if len(ds) == 1 and isinstance(ds[0][1], ast.IfExp):
        e = ds[0][1]
        pol = polarity(e.test, cond_template)
        if pol:
            a, b = (e.body, e.orelse) if pol == 'true' else (e.orelse, e.body)
            return [norm(a)], [norm(b)]
    for t in cfg.nodes:
        if t.kind != 'test' or (entry_only and at in t.loop_stack):
            continue
        pol = polarity(t.ast, cond_template)
        if pol and cfg.find_path(t, {at}, labels=lambda lab: lab != 'exc') is not None:
            other = 'false' if pol == 'true' else 'true'
            return (sorted(norm(v) for v in values_on(cfg, at, name, t, pol, entry_only) if isinstance(v, ast.AST)),
                    sorted(norm(v) for v in values_on(cfg, at, name, t, other, entry_only) if isinstance(v, ast.AST)))
    return None


def _terminates(body):
    if not body:
        return False
    last = body[-1]
    if isinstance(last, (ast.Return, ast.Raise, ast.Continue, ast.Break)):
        return True
    if isinstance(last, ast.If):
        return _terminates(last.body) and _terminates(last.orelse)
    if isinstance(last, ast.Try):
        main = last.orelse if last.orelse else last.body
        return _terminates(main) and all(_terminates(h.body) for h in last.handlers)
    if isinstance(last, ast.With):
        return _terminates(last.body)
    return False


def dispatch_chain(stmts):
    """the dispatch written as ``if a: .. elif b: .. else: ..`` or as a sequence of
    ``if a: <terminating body>`` statements (or a mix): -> (list of If nodes in order, the
    statements of the final else / fall-through)"""
    chain = []
    i = 0
    while i < len(stmts) and not isinstance(stmts[i], ast.If):
        i += 1
    if i == len(stmts):
        return [], list(stmts)
    cont = list(stmts[i:])
    while cont and isinstance(cont[0], ast.If):
        cur = cont[0]
        rest = cont[1:]
        chain.append(cur)
        if cur.orelse:
            cont = list(cur.orelse) + ([] if _terminates(cur.orelse) else rest)
        elif _terminates(cur.body):
            cont = rest
        else:
            return chain, rest
    return chain, cont


def repetition_count(cfg, unit, loop):
    """the number of iterations of a counted repetition, as an expression: ``for _ in range(E)``
    or ``c = E; while c > 0: ..; c -= 1`` (also ``while c: `` / ``c >= 1``).  -> (E, counter name
    or None) or None"""
    if isinstance(loop, ast.For):
        it = loop.iter
        if isinstance(it, ast.Call) and is_name(it.func, 'range') and len(it.args) == 1 and not it.keywords:
            return it.args[0], None
        # ``range(a, b)`` runs b - a times (a constant start): written back as an expression
        if isinstance(it, ast.Call) and is_name(it.func, 'range') and len(it.args) == 2 and not it.keywords \
                and isinstance(it.args[0], ast.Constant) and isinstance(it.args[0].value, int):
            a = it.args[0].value
            if a == 0:
                return it.args[1], None
            return ast.BinOp(left=clone(it.args[1]), op=ast.Sub(), right=ast.Constant(a)), None
        return None
    if isinstance(loop, ast.While):
        t = loop.test
        c = None
        if isinstance(t, ast.Name):
            c = t.id
        elif isinstance(t, ast.Compare) and len(t.ops) == 1 and is_name(t.left) and isinstance(t.comparators[0], ast.Constant):
            k = t.comparators[0].value
            if isinstance(t.ops[0], ast.Gt) and k == 0 or isinstance(t.ops[0], ast.GtE) and k == 1 \
                    or isinstance(t.ops[0], ast.NotEq) and k == 0:
                c = t.left.id
        if c is None:
            return None
        decs = [n for n in ast.walk(loop) if isinstance(n, ast.AugAssign) and is_name(n.target, c)]
        if len(decs) != 1 or not isinstance(decs[0].op, ast.Sub) or not isinstance(decs[0].value, ast.Constant) \
                or decs[0].value.value != 1 or decs[0] not in loop.body:
            return None
        others = [n for n in ast.walk(loop) if isinstance(n, ast.Name) and n.id == c and isinstance(n.ctx, ast.Store)
                  and n is not decs[0].target]
        if others:
            return None
        node = cfg.node_of(loop)
        defs = [(dn, v) for dn, v in cfg.reaching_defs(node, c, split=False) if node not in dn.loop_stack]
        if len(defs) == 1 and isinstance(defs[0][1], ast.AST):
            return defs[0][1], c
    return None


def code_slice(stmts, var, code):
    """the statements of ``stmts`` that run when the local ``var`` (an op code, compared with string
    constants only) equals ``code``: tests on var are decided (three-valued), the dead arm is
    dropped, the live arm is spliced in; anything else is kept whole.  The slice ends at the first
    statement that leaves the block (return / raise / continue / break)."""
    def decide(t):
        if isinstance(t, ast.BoolOp):
            vals = [decide(v) for v in t.values]
            if isinstance(t.op, ast.And):
                return False if False in vals else (True if all(v is True for v in vals) else None)
            return True if True in vals else (False if all(v is False for v in vals) else None)
        if isinstance(t, ast.UnaryOp) and isinstance(t.op, ast.Not):
            v = decide(t.operand)
            return None if v is None else not v
        if isinstance(t, ast.Compare) and len(t.ops) == 1 and is_name(t.left, var):
            c, o = t.comparators[0], t.ops[0]
            if isinstance(c, ast.Constant) and isinstance(c.value, str):
                if isinstance(o, ast.Eq):
                    return code == c.value
                if isinstance(o, ast.NotEq):
                    return code != c.value
                if isinstance(o, ast.In):
                    return code in c.value
                if isinstance(o, ast.NotIn):
                    return code not in c.value
            if isinstance(c, (ast.Tuple, ast.List, ast.Set)) and all(isinstance(x, ast.Constant) for x in c.elts):
                vals = [x.value for x in c.elts]
                if isinstance(o, ast.In):
                    return code in vals
                if isinstance(o, ast.NotIn):
                    return code not in vals
        return None
    out = []
    for st in stmts:
        if isinstance(st, ast.If):
            v = decide(st.test)
            if v is not None:
                out += code_slice(st.body if v else st.orelse, var, code)
                if out and isinstance(out[-1], (ast.Return, ast.Raise, ast.Continue, ast.Break)):
                    break
                continue
        if not isinstance(st, ast.Pass):
            out.append(st)
        if isinstance(st, (ast.Return, ast.Raise, ast.Continue, ast.Break)):
            break
    return out


def case_paths(stmts, decide, stop=None, env=None):
    """follow the straight-line statements of ``stmts`` under a case hypothesis: ``decide(test)``
    answers True / False for the tests the hypothesis settles and None for the others (both arms
    are followed); plain local assignments are substituted into later expressions.  Outcomes:
    ('return', expr, stmt, env) / ('raise', None, stmt, env) / ('stop', None, stmt, env) for the first
    statement ``stop`` accepts (a loop, say) / ('fall', None, None, env) at the end."""
    env = dict(env or {})

    def subst(e, env):
        class Sub(ast.NodeTransformer):
            def visit_Name(self, node):
                if isinstance(node.ctx, ast.Load) and node.id in env:
                    return clone(env[node.id])
                return node
        return Sub().visit(clone(e))

    def run(stmts, env):
        if not stmts:
            return [('fall', None, None, env)]
        st, rest = stmts[0], stmts[1:]
        if stop is not None and stop(st):
            return [('stop', None, st, env)]
        if isinstance(st, ast.Return):
            return [('return', subst(st.value, env) if st.value is not None else ast.Constant(None), st, env)]
        if isinstance(st, ast.Raise):
            return [('raise', None, st, env)]
        if isinstance(st, ast.If):
            v = decide(subst(st.test, env))
            arms = [st.body] if v is True else [st.orelse] if v is False else [st.body, st.orelse]
            out = []
            for arm in arms:
                for o in run(list(arm), env):
                    out += run(rest, o[3]) if o[0] == 'fall' else [o]
            return out
        if isinstance(st, ast.Assign) and len(st.targets) == 1 and not isinstance(st.value, ast.Lambda):
            t = st.targets[0]
            env = dict(env)
            if isinstance(t, ast.Name):
                env[t.id] = subst(st.value, env)
            elif isinstance(t, ast.Tuple) and isinstance(st.value, ast.Tuple) and len(t.elts) == len(st.value.elts) \
                    and all(isinstance(x, ast.Name) for x in t.elts):
                vals = [subst(v, env) for v in st.value.elts]
                for x, v in zip(t.elts, vals):
                    env[x.id] = v
            elif isinstance(t, ast.Attribute) and isinstance(t.value, ast.Name):
                env['%s.%s' % (t.value.id, t.attr)] = subst(st.value, env)
            return run(rest, env)
        return run(rest, env)
    return run(list(stmts), env), subst
