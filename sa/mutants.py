"""firing variants: one instance broken by a small text edit of the current
source.  ``old`` must occur exactly once in the file (else: stale witness).
Every variant still compiles; ``props`` lists the properties whose check must
report it."""

MUTANTS = []
CONTROLS = []      # small edits that do NOT break the property: every check must stay silent


def C(id, props, file, old, new, what):
    CONTROLS.append({'id': id, 'props': props if isinstance(props, (list, tuple)) else [props],
                     'file': 'glom/' + file, 'old': old, 'new': new, 'what': what})


def M(id, props, file, old, new, what):
    MUTANTS.append({'id': id, 'props': props if isinstance(props, (list, tuple)) else [props],
                    'file': 'glom/' + file, 'old': old, 'new': new, 'what': what})


# --------------------------------------------------------------------------- C01
M('c01-idx-plus1', 'C01', 'core.py',
  "            except AttributeError as e:\n                pae = PathAccessError(e, Path(_t), i // 2)",
  "            except AttributeError as e:\n                pae = PathAccessError(e, Path(_t), i // 2 + 1)",
  "part index of a failed attribute access is off by one")
M('c01-idx-halfup', 'C01', 'core.py',
  "            except (KeyError, IndexError, TypeError) as e:\n                pae = PathAccessError(e, Path(_t), i // 2)",
  "            except (KeyError, IndexError, TypeError) as e:\n                pae = PathAccessError(e, Path(_t), (i + 1) // 2)",
  "part index of a failed item access uses (i+1)//2")
M('c01-narrow-P', 'C01', 'core.py',
  "                cur = get(cur, arg)\n            except Exception as e:",
  "                cur = get(cur, arg)\n            except (KeyError, IndexError, AttributeError) as e:",
  "'P' access no longer converts TypeError/ValueError of a handler")
M('c01-fresh-exc', 'C01', 'core.py',
  "            except Exception as e:\n                pae = PathAccessError(e, Path(_t), i // 2)\n        elif op in 'xX':",
  "            except Exception as e:\n                pae = PathAccessError(KeyError(arg), Path(_t), i // 2)\n        elif op in 'xX':",
  "the error carries a new exception instead of the caught one")
M('c01-copy', 'C01', 'core.py',
  "                cur = get(cur, arg)\n",
  "                cur = copy.copy(get(cur, arg))\n",
  "the accessed object is copied")
M('c01-raise-late', 'C01', 'core.py',
  "        if pae:\n            raise pae\n        i += 2\n",
  "        i += 2\n    if pae:\n        raise pae\n",
  "the access error is raised only after the loop (later segments are touched)")
M('c01-bound-minus', 'C01', 'core.py',
  "    while i < fetch_till:\n        op, arg = t_path[i], t_path[i + 1]",
  "    while i < fetch_till - 1:\n        op, arg = t_path[i], t_path[i + 1]",
  "the interpreter loop stops one position early")
M('c01-bound-all-roots', 'C01', 'core.py',
  "    fetch_till = len(t_path)\n    root = t_path[0]",
  "    fetch_till = len(t_path) - 2\n    root = t_path[0]",
  "the last step is swallowed for every root")
M('c01-split-limit', 'C01', 'core.py',
  "            segs = text.split('.')",
  "            segs = text.split('.', 8)",
  "text paths longer than 9 segments keep an unsplit tail")
M('c01-filter-empty', 'C01', 'core.py',
  "                    _T_STARSTAR if seg == '**' else seg\n                    for seg in segs]",
  "                    _T_STARSTAR if seg == '**' else seg\n                    for seg in segs if seg]",
  "empty segments are dropped from text paths")
M('c01-seq-noint', 'C01', 'core.py',
  "def _get_sequence_item(target, index):\n    return target[int(index)]",
  "def _get_sequence_item(target, index):\n    return target[index]",
  "sequence indexes are no longer integer-coerced")
M('c01-hier', ['C01', 'C04'], 'core.py',
  "class PathAccessError(GlomError, AttributeError, KeyError, IndexError):",
  "class PathAccessError(GlomError, AttributeError, KeyError):",
  "PathAccessError is no longer an IndexError")
M('c01-smagic-idx', 'C01', 'core.py',
  "        err = PathAccessError(e, Path(_t), 0)  # always only one level depth, hence 0",
  "        err = PathAccessError(e, Path(_t), 1)  # always only one level depth, hence 0",
  "a missing first S segment is reported as part 1")
C('ctl-len', ['C01', 'C18'], 'core.py',
  "        return (len(self.path_t.__ops__) - 1) // 2",
  "        return len(self.path_t.__ops__) // 2",
  "len(Path) computed as len(ops)//2 (same value today, wrong relation to the layout is tolerated) -- control")
M('c01-values-slice', ['C01'], 'core.py',
  "        cur_t_path = self.path_t.__ops__\n        return cur_t_path[2::2]",
  "        cur_t_path = self.path_t.__ops__\n        return cur_t_path[1::2]",
  "Path.values() returns the op codes")

# --------------------------------------------------------------------------- C02
M('c02-drop-mod', 'C02', 'core.py',
  "                elif op == '%':\n                    cur = cur % arg\n",
  "",
  "the % branch is removed: T % n is silently skipped")
M('c02-swap-sub', 'C02', 'core.py',
  "                    cur = cur - arg",
  "                    cur = arg - cur",
  "operands of - are swapped")
M('c02-pow-mul', 'C02', 'core.py',
  "                    cur = cur ** arg",
  "                    cur = cur * arg",
  "** is replayed as *")
M('c02-arg-cur', 'C02', 'core.py',
  "        arg = arg_val(target, arg, scope)\n        if op == '.':",
  "        arg = arg_val(cur, arg, scope)\n        if op == '.':",
  "nested T arguments are evaluated against the running value")
M('c02-call-cur', 'C02', 'core.py',
  "            cur = scope[glom](\n                target, Call(cur, args, kwargs), scope)",
  "            cur = scope[glom](\n                cur, Call(cur, args, kwargs), scope)",
  "call arguments are evaluated against the running value")
M('c02-arith-nocatch', 'C02', 'core.py',
  "            except (TypeError, ZeroDivisionError) as e:",
  "            except TypeError as e:",
  "ZeroDivisionError escapes unpositioned")
M('c02-argmode-call', ['C02', 'C08'], 'core.py',
  "        if type(spec) in (tuple, set, frozenset):  # cannot contain themselves\n            result = type(spec)([recur(val) for val in spec])",
  "        if type(spec) in (tuple, set, frozenset):  # cannot contain themselves\n            result = type(spec)([recur(val) for val in spec])\n        elif callable(spec):\n            result = spec(target)",
  "argument mode calls callables")
M('c02-invert-neg', 'C02', 'core.py',
  "                elif op == '~':\n                    cur = ~cur",
  "                elif op == '~':\n                    cur = -cur",
  "~ is replayed as unary minus")

# --------------------------------------------------------------------------- C03
M('c03-dict-noskip', 'C03', 'core.py',
  "        val = scope[glom](target, subspec, scope)\n        if val is SKIP:\n            continue\n        if type(field) in (Spec, TType):",
  "        val = scope[glom](target, subspec, scope)\n        if type(field) in (Spec, TType):",
  "SKIP is stored into dict results")
M('c03-list-stop-continue', 'C03', 'core.py',
  "        if val is STOP:\n            break\n        ret.append(val)",
  "        if val is STOP:\n            continue\n        ret.append(val)",
  "STOP no longer ends a list spec")
M('c03-tuple-target', 'C03', 'core.py',
  "        nxt = scope[glom](res, subspec, scope)",
  "        nxt = scope[glom](target, subspec, scope)",
  "tuple steps all receive the original target")
M('c03-dict-sorted', 'C03', 'core.py',
  "    for field, subspec in spec.items():\n        val = scope[glom](target, subspec, scope)",
  "    for field, subspec in sorted(spec.items(), key=repr):\n        val = scope[glom](target, subspec, scope)",
  "dict fields are evaluated in sorted order")
M('c03-eval-twice', 'C03', 'core.py',
  "        val = scope[glom](target, subspec, scope)\n        if val is SKIP:\n            continue\n        if type(field) in (Spec, TType):",
  "        if scope[glom](target, subspec, scope) is SKIP:\n            continue\n        val = scope[glom](target, subspec, scope)\n        if type(field) in (Spec, TType):",
  "dict sub-specs are evaluated twice")
M('c03-coalesce-nobreak', 'C03', 'core.py',
  "                if not self.skip_func(ret):\n                    break\n                skipped.append(ret)",
  "                if not self.skip_func(ret):\n                    pass\n                skipped.append(ret)",
  "Coalesce keeps evaluating after a success")
M('c03-coalesce-exc', 'C03', 'core.py',
  "            except self.skip_exc as e:\n                skipped.append(e)",
  "            except Exception as e:\n                skipped.append(e)",
  "Coalesce swallows every exception, not just skip_exc")
M('c03-dict-plain', 'C03', 'core.py',
  "    ret = type(spec)()  # TODO: works for dict + ordereddict, but sufficient for all?",
  "    ret = {}  # TODO: works for dict + ordereddict, but sufficient for all?",
  "dict specs always build a plain dict")
M('c03-auto-callable-scope', 'C03', 'core.py',
  "    elif callable(spec):\n        return spec(target)\n\n    raise TypeError('expected spec to be dict",
  "    elif callable(spec):\n        return spec(scope[T])\n\n    raise TypeError('expected spec to be dict",
  "callables receive the frame's recorded target instead of the current one")
M('c03-glom-parent-scope', ['C03', 'C07'], 'core.py',
  "            return spec.glomit(target, scope)\n",
  "            return spec.glomit(target, parent)\n",
  "glomit specs run in the parent frame")

# --------------------------------------------------------------------------- C04
M('c04-evaluator-wraps', 'C04', 'core.py',
  "                cur_scope = cur_scope[UP]\n        raise\n",
  "                cur_scope = cur_scope[UP]\n        raise GlomError(str(e))\n",
  "the evaluator replaces the exception")
M('c04-debug-late', 'C04', 'core.py',
  "        if glom_debug:\n            raise\n        if isinstance(e, GlomError):",
  "        if isinstance(e, GlomError) and glom_debug:\n            raise\n        if isinstance(e, GlomError):",
  "glom_debug only applies to GlomErrors")
M('c04-default-argval', 'C04', 'core.py',
  "            ret = default  # should this also be arg_val'd?",
  "            ret = arg_val(target, default, scope)  # should this also be arg_val'd?",
  "the default is evaluated instead of returned as is")
M('c04-skipexc-glomerror', 'C04', 'core.py',
  "    skip_exc = kwargs.pop('skip_exc', () if default is _MISSING else GlomError)",
  "    skip_exc = kwargs.pop('skip_exc', GlomError)",
  "errors are filtered even without a default")
M('c04-typematch-nocopy', 'C04', 'matching.py',
  "    def __copy__(self):\n        # __init__ args = (actual, expected)\n        # self.args = (fmt_str, expected, actual)\n        return type(self)(self.args[2], self.args[1])\n",
  "",
  "TypeMatchError loses its __copy__ (copy.copy re-runs __init__ with the wrong args)")
M('c04-copy-swapped', 'C04', 'matching.py',
  "        return type(self)(self.args[2], self.args[1])",
  "        return type(self)(self.args[1], self.args[2])",
  "TypeMatchError.__copy__ swaps actual and expected")
M('c04-wrap-bases', 'C04', 'core.py',
  "        bases = (GlomError,) if issubclass(GlomError, exc_type) else (GlomError, exc_type)",
  "        bases = (GlomError,) if issubclass(exc_type, Exception) else (GlomError, exc_type)",
  "wrapped exceptions lose their original class")
M('c04-wrap-reraise', 'C04', 'core.py',
  "        except Exception:  # maybe exception can't be re-created\n            return exc",
  "        except TypeError:  # maybe exception can't be re-created\n            return exc",
  "wrap() lets non-TypeError constructor failures escape")
M('c04-copy-unguarded', 'C04', 'core.py',
  "            try:\n                err = copy.copy(e)\n            except Exception:  # maybe exception can't be re-created\n                err = e\n",
  "            err = copy.copy(e)\n",
  "the copy of a GlomError is unguarded again")
M('c04-err-truth', 'C04', 'core.py',
  "    if err is not None:\n        raise err",
  "    if err:\n        raise err",
  "the pending error is tested by truth value")
M('c04-unregistered-kw', 'C04', 'core.py',
  "        self.path = path\n        super().__init__(op, target_type, type_map, path)",
  "        self.path = path\n        super().__init__(op, target_type)",
  "UnregisteredTarget forwards only two of its four arguments to BaseException")

# --------------------------------------------------------------------------- C05
M('c05-link-late', 'C05', 'core.py',
  "    pmap[LAST_CHILD_SCOPE] = scope\n\n    try:\n        if type(spec) is TType:  # must go first, due to callability",
  "    try:\n        if type(spec) is TType:  # must go first, due to callability",
  "the parent no longer records its last child")
M('c05-no-cur-error', 'C05', 'core.py',
  "        scope.maps[1][CHILD_ERRORS].append(scope)\n        scope.maps[0][CUR_ERROR] = e\n",
  "        scope.maps[1][CHILD_ERRORS].append(scope)\n",
  "failing frames no longer record their error")
M('c05-append-own', 'C05', 'core.py',
  "        scope.maps[1][CHILD_ERRORS].append(scope)",
  "        scope.maps[0][CHILD_ERRORS].append(scope)",
  "the failing frame is appended to its own error list")
M('c05-recycle-noclear', 'C05', 'core.py',
  "    del nxt_in_chain.maps[0][CHILD_ERRORS][:]\n",
  "",
  "recycled frames keep their forgiven branches")
M('c05-coalesce-chained', ['C05', 'C07'], 'core.py',
  "                ret = scope[glom](target, subspec, scope)\n                if not self.skip_func(ret):",
  "                ret = scope[glom](target, subspec, chain_child(scope))\n                if not self.skip_func(ret):",
  "Coalesce branches are evaluated in a chained frame")
M('c05-frame-nospec', 'C05', 'core.py',
  "        T: target,\n        Spec: spec,\n        UP: parent,",
  "        T: target,\n        UP: parent,",
  "frames no longer carry their spec")
M('c05-stack-slot', 'C05', 'core.py',
  "        if cur[3] == nxt[3]:\n            cur[3] = None",
  "        if cur[3] == nxt[3]:\n            cur[2] = None",
  "error push-down clears the wrong slot")
M('c05-linear-len', 'C05', 'core.py',
  "        if branches == [child]:",
  "        if len(branches) == 1:",
  "any single recorded branch counts as linear")

# --------------------------------------------------------------------------- C06
M('c06-sort-target', ['C06'], 'core.py',
  "    ret = []\n    base_path = scope[Path]\n    for i, t in enumerate(iterator):",
  "    ret = []\n    target.sort()\n    base_path = scope[Path]\n    for i, t in enumerate(iterator):",
  "list specs sort their target in place")
M('c06-match-setdefault', ['C06', 'C09'], 'matching.py',
  "    for key in set(defaults) - set(result):\n        result[key] = arg_val(target, defaults[key], scope)",
  "    for key in set(defaults) - set(result):\n        result[key] = target.setdefault(key, arg_val(target, defaults[key], scope))",
  "Optional defaults are written into the target")
M('c06-cache-onepart', 'C06', 'core.py',
  "        cache = cls._CACHE[PATH_STAR]  # remove this when PATH_STAR is default",
  "        cache = cls._CACHE[True]  # remove this when PATH_STAR is default",
  "the path memo ignores PATH_STAR")
M('c06-cache-key-strip', 'C06', 'core.py',
  "            cache[text] = create()\n        return cache[text]",
  "            cache[text.strip()] = create()\n        return cache[text.strip()]",
  "the path memo is keyed by a normalised text")
M('c06-mutable-default', ['C06', 'C20'], 'core.py',
  "def _extend_children(children, item, get_handler):",
  "def _extend_children(children, item, get_handler, _seen=[]):",
  "a mutable default argument")
M('c06-spec-memo', ['C06', 'C17'], 'core.py',
  "    def glomit(self, target, scope):\n        subspec = self.subspec\n        scope_key = (Ref, self.name)",
  "    def glomit(self, target, scope):\n        self.last_target = target\n        subspec = self.subspec\n        scope_key = (Ref, self.name)",
  "a spec stores evaluation data on itself")
M('c06-module-valuator', ['C06', 'C02', 'C20'], 'core.py',
  "    scope[MIN_MODE] = _ArgValuator().mode",
  "    scope[MIN_MODE] = _ARGV.mode",
  "a shared argument valuator (free name; compiles)")
M('c06-global-counter', ['C06', 'C20'], 'core.py',
  "def _glom(target, spec, scope):\n    parent = scope",
  "_CALLS = []\n\n\ndef _glom(target, spec, scope):\n    _CALLS.append(spec)\n    parent = scope",
  "the evaluator appends to a module-level list")

# --------------------------------------------------------------------------- C07
M('c07-let-up', 'C07', 'core.py',
  "    def glomit(self, target, scope):\n        scope.update({\n            k: scope[glom](target, v, scope) for k, v in self._binding.items()})\n        return target",
  "    def glomit(self, target, scope):\n        scope[UP].update({\n            k: scope[glom](target, v, scope) for k, v in self._binding.items()})\n        return target",
  "Let binds in the parent frame")
M('c07-scope-adopt', ['C07', 'C20'], 'core.py',
  "    scope.update(kwargs.pop('scope', {}))\n    err = None",
  "    scope = scope.new_child(kwargs.pop('scope', {}))\n    err = None",
  "the caller's scope mapping becomes a frame map")
M('c07-globals-shared', ['C07', 'C20'], 'core.py',
  "        'globals': ScopeVars({}, {}),",
  "        'globals': _GLOBALS,",
  "S.globals is a shared object")
M('c07-vars-retain', 'C07', 'core.py',
  "    def __init__(self, base, defaults):\n        self.__dict__ = dict(base)",
  "    def __init__(self, base, defaults):\n        self.__dict__ = base",
  "ScopeVars adopts the mapping it is given")
M('c07-dict-chained', 'C07', 'core.py',
  "        val = scope[glom](target, subspec, scope)\n        if val is SKIP:\n            continue\n        if type(field) in (Spec, TType):",
  "        val = scope[glom](target, subspec, chain_child(scope))\n        if val is SKIP:\n            continue\n        if type(field) in (Spec, TType):",
  "dict values chain their scopes (bindings leak between siblings)")
M('c07-tuple-nochain', 'C07', 'core.py',
  "    for subspec in spec:\n        scope = chain_child(scope)\n        nxt = scope[glom](res, subspec, scope)",
  "    for subspec in spec:\n        nxt = scope[glom](res, subspec, scope)",
  "tuple steps no longer chain their scopes")
M('c07-ref-after', 'C07', 'core.py',
  "        else:\n            scope[scope_key] = subspec\n        return scope[glom](target, subspec, scope)",
  "        ret = scope[glom](target, subspec, scope)\n        if self.subspec is not _MISSING:\n            scope[scope_key] = subspec\n        return ret",
  "Ref binds after evaluating")
M('c07-s-assign-returns-scope', 'C07', 'core.py',
  "            scope.update({\n                k: arg_val(target, v, scope) for k, v in kwargs.items()})\n            return target",
  "            scope.update({\n                k: arg_val(target, v, scope) for k, v in kwargs.items()})\n            return scope",
  "S(...) returns the scope instead of the target")
M('c07-chain-descend', ['C07', 'C05'], 'core.py',
  "    nxt_in_chain = scope[LAST_CHILD_SCOPE]\n",
  "    nxt_in_chain = scope[LAST_CHILD_SCOPE]\n    while LAST_CHILD_SCOPE in nxt_in_chain.maps[0]:\n        nxt_in_chain = nxt_in_chain[LAST_CHILD_SCOPE]\n",
  "chain_child drills down to the deepest descendant")

# --------------------------------------------------------------------------- C08
M('c08-fill-late', 'C08', 'core.py',
  "    def glomit(self, target, scope):\n        scope[MODE] = FILL\n        return scope[glom](target, self.spec, scope)",
  "    def glomit(self, target, scope):\n        ret = scope[glom](target, self.spec, scope)\n        scope[MODE] = FILL\n        return ret",
  "Fill sets its mode after evaluating")
M('c08-noreset', ['C08', 'C03'], 'core.py',
  "    nxt_in_chain.maps[0][MODE] = scope[MODE]\n",
  "",
  "the recycled frame keeps the previous step's mode")
M('c08-child-mode-lookup', 'C08', 'core.py',
  "        MODE: pmap[MODE],\n        MIN_MODE: pmap[MIN_MODE],",
  "        MODE: pmap[MODE],\n        MIN_MODE: None,",
  "children no longer inherit argument mode")
M('c08-norestore', ['C08', 'C02', 'C03'], 'core.py',
  "        result = scope[glom](target, arg, scope)\n    finally:\n        # also when the argument fails: the frame may live on (e.g. an entry dropped by '*')\n        scope[MIN_MODE] = mode\n",
  "        result = scope[glom](target, arg, scope)\n    finally:\n        pass\n",
  "argument mode is never restored")
M('c08-fill-noset', 'C08', 'core.py',
  "    if type(spec) in (list, tuple, set, frozenset):\n        result = [recurse(val) for val in spec]",
  "    if type(spec) in (list, tuple, set):\n        result = [recurse(val) for val in spec]",
  "Fill no longer rebuilds frozensets")
M('c08-memo-late', ['C08', 'C02'], 'core.py',
  "            result = self.cache[id(spec)] = type(spec)()\n            if type(spec) is dict:\n                result.update({recur(key): recur(val) for key, val in spec.items()})\n            else:\n                result.extend([recur(val) for val in spec])",
  "            result = type(spec)()\n            if type(spec) is dict:\n                result.update({recur(key): recur(val) for key, val in spec.items()})\n            else:\n                result.extend([recur(val) for val in spec])\n            self.cache[id(spec)] = result",
  "the cycle memo is stored after recursing")
M('c08-group-mode-auto', ['C08', 'C16'], 'grouping.py',
  "        scope[MODE] = GROUP\n        scope[CUR_AGG] = None  # reset aggregation tripwire for sub-specs",
  "        scope[UP][MODE] = GROUP\n        scope[CUR_AGG] = None  # reset aggregation tripwire for sub-specs",
  "Group installs its mode in the parent frame")

# --------------------------------------------------------------------------- C09
M('c09-type-matcherror', 'C09', 'matching.py',
  "        if not isinstance(target, spec):\n            raise TypeMatchError(type(target), spec)",
  "        if not isinstance(target, spec):\n            raise MatchError('{0!r} is not a {1!r}', target, spec)",
  "type rules raise plain MatchError")
M('c09-tuple-valueerror', 'C09', 'matching.py',
  "        if len(target) != len(spec):\n            raise MatchError(\"{0!r} does not match {1!r}\", target, spec)",
  "        if len(target) != len(spec):\n            raise ValueError('length mismatch')",
  "tuple length mismatch raises ValueError")
M('c09-matches-exception', 'C09', 'matching.py',
  "        try:\n            glom(target, self)\n        except GlomError:\n            return False\n        return True",
  "        try:\n            glom(target, self)\n        except Exception:\n            return False\n        return True",
  "matches() swallows every exception")
M('c09-default-matcherror-only', 'C09', 'matching.py',
  "            ret = scope[glom](target, self.spec, scope)\n        except GlomError:\n            if self.default is _MISSING:",
  "            ret = scope[glom](target, self.spec, scope)\n        except MatchError:\n            if self.default is _MISSING:",
  "Match(default=) only catches MatchError")
M('c09-dict-nobreak', 'C09', 'matching.py',
  "                required.discard(maybe_spec_key)\n                break\n",
  "                required.discard(maybe_spec_key)\n",
  "dict matching keeps trying spec keys after a match")
C('ctl-required-early', 'C09', 'matching.py',
  "                result[key] = scope[glom](val, spec[maybe_spec_key], chain_child(scope))\n                required.discard(maybe_spec_key)",
  "                required.discard(maybe_spec_key)\n                result[key] = scope[glom](val, spec[maybe_spec_key], chain_child(scope))",
  "(benign reorder inside the success path) -- control, must stay silent")
M('c09-zip-swap', 'C09', 'matching.py',
  "        for sub_target, sub_spec in zip(target, spec):\n            result.append(scope[glom](sub_target, sub_spec, scope))",
  "        for sub_target, sub_spec in zip(spec, target):\n            result.append(scope[glom](sub_target, sub_spec, scope))",
  "tuple matching swaps items and patterns")
M('c09-optional-required', 'C09', 'matching.py',
  "        if _precedence(key) == 0 and type(key) is not Optional\n        or type(key) is Required}",
  "        if _precedence(key) == 0\n        or type(key) is Required}",
  "Optional keys become required")
M('c09-return-spec', 'C09', 'matching.py',
  "    elif target != spec:\n        raise MatchError(\"{0!r} does not match {1!r}\", target, spec)\n    return target",
  "    elif target != spec:\n        raise MatchError(\"{0!r} does not match {1!r}\", target, spec)\n    return spec",
  "an equality match returns the pattern instead of the target")

# --------------------------------------------------------------------------- C10
M('c10-ge-gt', 'C10', 'matching.py',
  "            (op == 'g' and lhs >= rhs) or",
  "            (op == 'g' and lhs > rhs) or",
  ">= is decided by >")
M('c10-le-code', 'C10', 'matching.py',
  "    def __le__(self, other):\n        return _MExpr(self, 'l', other)\n\n    def __repr__(self):\n        return f'M({bbrepr(self.spec)})'",
  "    def __le__(self, other):\n        return _MExpr(self, '<', other)\n\n    def __repr__(self):\n        return f'M({bbrepr(self.spec)})'",
  "M(...) <= records the code of <")
M('c10-operands-swapped', 'C10', 'matching.py',
  "            (op == '<' and lhs < rhs) or",
  "            (op == '<' and rhs < lhs) or",
  "< compares rhs with lhs")
M('c10-and-first', 'C10', 'matching.py',
  "        for child in self.children:\n            result = scope[glom](target, child, scope)\n        return result",
  "        for child in self.children:\n            result = scope[glom](target, child, scope)\n            break\n        return result",
  "And stops after its first child")
M('c10-or-continue', 'C10', 'matching.py',
  "            try:  # one child must match without exception\n                return scope[glom](target, child, scope)\n            except GlomError:\n                pass",
  "            try:  # one child must match without exception\n                ret = scope[glom](target, child, scope)\n            except GlomError:\n                pass",
  "Or evaluates later children after a success")
M('c10-not-glomerror', 'C10', 'matching.py',
  "            raise MatchError(\"child shouldn't have passed: {0!r}\", self.child)",
  "            raise GlomError(\"child shouldn't have passed\", self.child)",
  "Not rejects with a bare GlomError again")
M('c10-switch-default-first', 'C10', 'matching.py',
  "    def glomit(self, target, scope):\n        for keyspec, valspec in self.cases:",
  "    def glomit(self, target, scope):\n        if self.default is not _MISSING and not self.cases[0]:\n            return arg_val(target, self.default, scope)\n        for keyspec, valspec in self.cases:",
  "Switch consults its default before trying the cases")
M('c10-check-instance-dropped', 'C10', 'matching.py',
  "        if self.instance_of and not isinstance(target, self.instance_of):",
  "        if False and self.instance_of and not isinstance(target, self.instance_of):",
  "Check ignores instance_of")
M('c10-bool-default-any', 'C10', 'matching.py',
  "            return self._glomit(target, scope)\n        except GlomError:\n            if self.default is not _MISSING:",
  "            return self._glomit(target, scope)\n        except Exception:\n            if self.default is not _MISSING:",
  "And/Or defaults swallow every exception")
M('c10-invert-and', 'C10', 'matching.py',
  "    def __invert__(self):\n        return Not(self)\n\n    def glomit(self, target, scope):\n        lhs, op, rhs = self.lhs, self.op, self.rhs",
  "    def __invert__(self):\n        return And(self)\n\n    def glomit(self, target, scope):\n        lhs, op, rhs = self.lhs, self.op, self.rhs",
  "~(M == x) builds And instead of Not")

# --------------------------------------------------------------------------- C11
M('c11-write-first', 'C11', 'mutation.py',
  "            remaining_path = self._orig_path[pae.part_idx + 1:].from_t()\n            val = scope[glom](self.missing(), Assign(remaining_path, Val(val), missing=self.missing), scope)\n\n            op, arg = self._orig_path.items()[pae.part_idx]\n            path = self._orig_path[:pae.part_idx]\n            dest = scope[glom](dest_target, path, scope)",
  "            op, arg = self._orig_path.items()[pae.part_idx]\n            path = self._orig_path[:pae.part_idx]\n            dest = scope[glom](dest_target, path, scope)\n            _assign_op(dest=dest, op=op, arg=arg, val=self.missing(), path=path, scope=scope)\n            remaining_path = self._orig_path[pae.part_idx + 1:].from_t()\n            val = scope[glom](self.missing(), Assign(remaining_path, Val(val), missing=self.missing), scope)",
  "the missing container is attached before its tail is built")
M('c11-tail-in-target', 'C11', 'mutation.py',
  "            val = scope[glom](self.missing(), Assign(remaining_path, Val(val), missing=self.missing), scope)",
  "            val = scope[glom](dest_target, Assign(remaining_path, Val(val), missing=self.missing), scope)",
  "the tail is assigned into the target instead of a fresh factory object")
M('c11-tail-off', 'C11', 'mutation.py',
  "            remaining_path = self._orig_path[pae.part_idx + 1:]",
  "            remaining_path = self._orig_path[pae.part_idx:]",
  "the tail repeats the failing segment")
M('c11-return-dest', 'C11', 'mutation.py',
  "        _apply_for_each(_apply, path, dest)\n\n        return target",
  "        _apply_for_each(_apply, path, dest)\n\n        return dest",
  "Assign returns the parent container")
M('c11-swallow', 'C11', 'mutation.py',
  "        _apply_for_each(_apply, path, dest)\n\n        return target",
  "        try:\n            _apply_for_each(_apply, path, dest)\n        except PathAssignError:\n            pass\n\n        return target",
  "assignment failures are swallowed")
M('c11-p-nocatch', 'C11', 'core.py',
  "            _assign(dest, arg, val)\n        except Exception as e:\n            raise PathAssignError(e, path, arg)",
  "            _assign(dest, arg, val)\n        except (KeyError, IndexError) as e:\n            raise PathAssignError(e, path, arg)",
  "handler failures other than lookup errors escape unconverted")
M('c11-setattr-item', 'C11', 'core.py',
  "    elif op == '.':\n        setattr(dest, arg, val)",
  "    elif op == '.':\n        dest[arg] = val",
  "attribute assignment stores an item")
M('c11-flatten-all', ['C11', 'C14'], 'mutation.py',
  "        for i in range(layers - 1):\n            val = sum(val, [])  # flatten out the extra layers",
  "        for i in range(layers):\n            val = sum(val, [])  # flatten out the extra layers",
  "wildcard broadcast flattens one level too many")
M('c11-val-late', 'C11', 'mutation.py',
  "        _apply = lambda dest: _assign_op(\n            dest=dest, op=op, arg=arg, val=val, path=path, scope=scope)",
  "        _apply = lambda dest: _assign_op(\n            dest=dest, op=op, arg=arg, val=arg_val(target, self.val, scope), path=path, scope=scope)",
  "the value is evaluated inside the write (per destination, after partial writes)")

# --------------------------------------------------------------------------- C12
M('c12-index-only', 'C12', 'mutation.py',
  "            except (KeyError, IndexError) as e:",
  "            except IndexError as e:",
  "T[key] deletion leaks KeyError again")
M('c12-attr-ignore', 'C12', 'mutation.py',
  "            except AttributeError as e:\n                if not self.ignore_missing:\n                    raise PathDeleteError(e, self.path, arg)",
  "            except AttributeError as e:\n                raise PathDeleteError(e, self.path, arg)",
  "attribute deletion ignores ignore_missing")
M('c12-parent-always-ignored', 'C12', 'mutation.py',
  "        except PathAccessError as pae:\n            if not self.ignore_missing:\n                raise\n        else:",
  "        except PathAccessError as pae:\n            pass\n        else:",
  "a missing parent is always ignored")
M('c12-delete-in-finally-path', 'C12', 'mutation.py',
  "        else:\n            _apply_for_each(lambda dest: self._del_one(dest, op, arg, scope), path, dest)\n\n        return target",
  "        else:\n            _apply_for_each(lambda dest: self._del_one(dest, op, arg, scope), path, dest)\n\n        return dest_target",
  "Delete returns the fetch root (the scope for S paths)")
M('c12-wrong-error', 'C12', 'mutation.py',
  "            except Exception as e:\n                if not self.ignore_missing:\n                    raise PathDeleteError(e, self.path, arg)",
  "            except Exception as e:\n                if not self.ignore_missing:\n                    raise PathAssignError(e, self.path, arg)",
  "'P' deletion failures raise PathAssignError")
M('c12-seq-noint', 'C12', 'mutation.py',
  "def _del_sequence_item(target, idx):\n    del target[int(idx)]",
  "def _del_sequence_item(target, idx):\n    del target[idx]",
  "sequence deletion does not coerce the index")

# --------------------------------------------------------------------------- C13
M('c13-noreset', ['C13', 'C06'], 'core.py',
  "        self._type_cache = {}  # reset type cache\n\n        return\n",
  "        return\n",
  "register() no longer resets the lookup memo")
C('ctl-reset-early', ['C13', 'C06'], 'core.py',
  "        new_op_map = dict(kwargs)\n\n        for op_name in sorted(set(self._op_auto_map.keys()) | set(new_op_map.keys())):",
  "        new_op_map = dict(kwargs)\n        self._type_cache = {}\n\n        for op_name in sorted(set(self._op_auto_map.keys()) | set(new_op_map.keys())):",
  "(additional early reset) -- control, must stay silent")
M('c13-key-noop', ['C13', 'C06'], 'core.py',
  "        cache_key = (obj_type, op)",
  "        cache_key = (obj_type, 'get')",
  "the memo key forgets the op")
M('c13-fuzzy-first', 'C13', 'core.py',
  "                try:\n                    ret = type_map[obj_type]\n                except KeyError:\n                    type_tree = self._op_type_tree.get(op, {})\n                    closest = self._get_closest_type(obj, type_tree=type_tree)\n                    if closest is None:\n                        ret = False\n                    else:\n                        ret = type_map[closest]",
  "                type_tree = self._op_type_tree.get(op, {})\n                closest = self._get_closest_type(obj, type_tree=type_tree)\n                if closest is None:\n                    ret = type_map.get(obj_type, False)\n                else:\n                    ret = type_map[closest]",
  "the tree walk comes before the exact lookup")
M('c13-glommer-shared-registry', ['C13', 'C20'], 'core.py',
  "        self.scope[TargetRegistry] = TargetRegistry(register_default_types=register_default_types)",
  "        self.scope[TargetRegistry] = scope[TargetRegistry]",
  "Glommer shares the registry of the scope it was given")
M('c13-glommer-noscopecopy', 'C13', 'core.py',
  "        self.scope = ChainMap(dict(scope))",
  "        self.scope = scope",
  "Glommer binds its registry in the default scope itself")
M('c13-ancestor-wins', 'C13', 'core.py',
  "                ret = cur_type if sub_type is None else sub_type\n                return ret",
  "                ret = cur_type\n                return ret",
  "a matching ancestor wins over a more specific registered type")
M('c13-class-level-maps', ['C13', 'C06'], 'core.py',
  "    def __init__(self, register_default_types=True):\n        self._op_type_map = {}",
  "    _op_type_map = {}\n\n    def __init__(self, register_default_types=True):",
  "the handler map is shared by all registries (class attribute)")
M('c13-exact-in-tree', 'C13', 'core.py',
  "        if not exact:\n            for op_name in new_op_map:\n                self._register_fuzzy_type(op_name, target_type)",
  "        for op_name in new_op_map:\n            self._register_fuzzy_type(op_name, target_type)",
  "exact registrations also cover subclasses")

# --------------------------------------------------------------------------- C14
M('c14-noseed', 'C14', 'core.py',
  "                sofar = {id(cur)}",
  "                sofar = set()",
  "the ** root is not recorded as visited")
M('c14-noguard', 'C14', 'core.py',
  "                    if id(item) not in sofar:\n                        sofar.add(id(item))\n                        _extend_children(nxt, item, get_handler)",
  "                    sofar.add(id(item))\n                    _extend_children(nxt, item, get_handler)",
  "** expands every item regardless of the visited set")
M('c14-reraise', 'C14', 'core.py',
  "                    cur.append(_t_eval(child, todo, scope))\n                except PathAccessError:\n                    pass",
  "                    cur.append(_t_eval(child, todo, scope))\n                except PathAccessError:\n                    raise",
  "a failing entry aborts the wildcard")
M('c14-stars-x-only', 'C14', 'core.py',
  "        return t_ops.count('x') + t_ops.count('X')",
  "        return t_ops.count('x')",
  "__stars__ does not count **")
M('c14-nobreak', 'C14', 'core.py',
  "                except PathAccessError:\n                    pass\n            break  # we handled the rest in recursive call, break loop",
  "                except PathAccessError:\n                    pass\n            # we handled the rest in recursive call",
  "the interpreter keeps going after delegating the remaining steps")
M('c14-dfs', 'C14', 'core.py',
  "                nxt.insert(0, cur)",
  "                nxt.append(cur)",
  "** lists the value itself last")
M('c14-children-raise', 'C14', 'core.py',
  "                try:\n                    children.append(get(item, key))\n                except Exception:\n                    pass",
  "                children.append(get(item, key))",
  "a failing child access is no longer skipped per key")

# --------------------------------------------------------------------------- C15
M('c15-init-cached', ['C15', 'C06'], 'reduction.py',
  "        ret, op = self.init(), self.op\n\n        for v in iterator:\n            ret = op(ret, v)",
  "        ret, op = self._init_val, self.op\n\n        for v in iterator:\n            ret = op(ret, v)",
  "Fold starts from a value cached on the spec")
M('c15-first-elem', 'C15', 'reduction.py',
  "        ret, op = self.init(), self.op\n\n        for v in iterator:\n            ret = op(ret, v)",
  "        ret, op = next(iterator, None), self.op\n\n        for v in iterator:\n            ret = op(ret, v)",
  "Fold uses the first element as accumulator (iadd mutates it)")
M('c15-folderror', 'C15', 'reduction.py',
  "        except UnregisteredTarget as ut:\n            raise FoldError(",
  "        except UnregisteredTarget as ut:\n            raise TypeError(",
  "a non-iterable target raises TypeError")
M('c15-lazy-list', 'C15', 'reduction.py',
  "            return itertools.chain.from_iterable(iterator)",
  "            return list(itertools.chain.from_iterable(iterator))",
  "lazy Flatten materialises")
M('c15-levels', 'C15', 'reduction.py',
  "    spec += (Flatten(init=\"lazy\"),) * (levels - 1)",
  "    spec += (Flatten(init=\"lazy\"),) * levels",
  "flatten(levels=n) flattens n+1 levels")
M('c15-agg-shared', ['C15', 'C16'], 'reduction.py',
  "        if self not in tree:\n            tree[self] = self.init()\n        tree[self] = self.op(tree[self], target)\n        return tree[self]",
  "        if self not in tree:\n            tree[self] = self.init()\n        tree[self] = self.op(tree[self], target)\n        self.last = tree[self]\n        return tree[self]",
  "an aggregating Fold keeps state on the spec")

# --------------------------------------------------------------------------- C16
M('c16-tree-ctor', ['C16', 'C06'], 'grouping.py',
  "    def __init__(self, spec):\n        self.spec = spec\n\n    def glomit(self, target, scope):\n        scope[MODE] = GROUP\n        scope[CUR_AGG] = None  # reset aggregation tripwire for sub-specs\n        scope[ACC_TREE] = {}",
  "    def __init__(self, spec):\n        self.spec = spec\n        self._tree = {}\n\n    def glomit(self, target, scope):\n        scope[MODE] = GROUP\n        scope[CUR_AGG] = None  # reset aggregation tripwire for sub-specs\n        scope[ACC_TREE] = self._tree",
  "the accumulator tree lives on the Group spec")
M('c16-skip-stored', 'C16', 'grouping.py',
  "            if result is not SKIP:\n                acc[key] = result",
  "            acc[key] = result",
  "SKIP results are stored in buckets")
M('c16-list-skip', 'C16', 'grouping.py',
  "            if result is not SKIP:\n                acc.append(result)",
  "            acc.append(result)",
  "SKIP results are appended to leaf lists")
M('c16-max-min', 'C16', 'grouping.py',
  "        if self not in tree or target > tree[self]:\n            tree[self] = target\n        return tree[self]",
  "        if self not in tree or target < tree[self]:\n            tree[self] = target\n        return tree[self]",
  "Max keeps the smaller item")
M('c16-first-self', ['C16', 'C06'], 'grouping.py',
  "        if self not in tree:\n            tree[self] = STOP\n            return target\n        return STOP",
  "        if not getattr(self, '_seen', False):\n            self._seen = True\n            return target\n        return STOP",
  "First keeps its state on the spec (needs a slot; compiles)")
M('c16-key-truthy', 'C16', 'grouping.py',
  "            if key not in acc:",
  "            if not acc.get(key):",
  "bucket sub-trees are recreated whenever the aggregate is falsy")
M('c16-limit-ge', 'C16', 'grouping.py',
  "        if tree[self][0] > self.n:",
  "        if tree[self][0] >= self.n:",
  "Limit(n) stops one item early")

# --------------------------------------------------------------------------- C17
M('c17-nosentinel', 'C17', 'streaming.py',
  "        return type(self)(subspec=self.subspec, sentinel=self.sentinel,\n                          _iter_stack=",
  "        return type(self)(subspec=self.subspec,\n                          _iter_stack=",
  "chained Iter methods drop the sentinel again")
M('c17-append-inplace', ['C17', 'C06'], 'streaming.py',
  "        return type(self)(subspec=self.subspec, sentinel=self.sentinel,\n                          _iter_stack=[(opname, args, callback)] + self._iter_stack)",
  "        self._iter_stack.insert(0, (opname, args, callback))\n        return type(self)(subspec=self.subspec, sentinel=self.sentinel,\n                          _iter_stack=self._iter_stack)",
  "chaining mutates the stage list of the original Iter")
M('c17-forward-fold', 'C17', 'streaming.py',
  "        for _, _, callback in reversed(self._iter_stack):\n            iterator = callback(iterator, scope)",
  "        for _, _, callback in self._iter_stack:\n            iterator = callback(iterator, scope)",
  "stages are applied in reverse chaining order")
M('c17-map-list', 'C17', 'streaming.py',
  "            lambda iterable, scope: imap(\n                lambda t: scope[glom](t, subspec, scope), iterable))",
  "            lambda iterable, scope: list(imap(\n                lambda t: scope[glom](t, subspec, scope), iterable)))",
  "map materialises the stream")
M('c17-takewhile-drop', 'C17', 'streaming.py',
  "            lambda it, scope: takewhile(\n                lambda t: scope[glom](t, key, scope), it))",
  "            lambda it, scope: dropwhile(\n                lambda t: scope[glom](t, key, scope), it))",
  "takewhile is implemented with dropwhile")
M('c17-sentinel-ignored', 'C17', 'streaming.py',
  "            elif yld is self.sentinel or yld is STOP:",
  "            elif yld is STOP:",
  "the configured sentinel is ignored")
M('c17-iterate-eager', 'C17', 'streaming.py',
  "        base_path = scope[Path]\n        for i, t in enumerate(iterator):\n            scope[Path] = base_path + [i]\n            yld =",
  "        base_path = scope[Path]\n        for i, t in enumerate(list(iterator)):\n            scope[Path] = base_path + [i]\n            yld =",
  "the base iteration materialises its source")
M('c17-invoke-alias', ['C17', 'C03', 'C06'], 'core.py',
  "        ret._args = self._args + ('S', a, kw)\n        ret._cur_kwargs = dict(self._cur_kwargs)",
  "        ret._args = self._args + ('S', a, kw)\n        ret._cur_kwargs = self._cur_kwargs",
  "Invoke.specs aliases the parent's keyword registry")
M('c17-all-list', 'C17', 'streaming.py',
  "        return Pipe(self, list)",
  "        return Pipe(self, tuple)",
  "all() builds a tuple")

# --------------------------------------------------------------------------- C18
M('c18-guard-gt', 'C18', 'core.py',
  "            if start < 0 or start >= len(cur_t_path):",
  "            if start < 0 or start > len(cur_t_path):",
  "Path[len] is accepted again")
M('c18-guard-lower', 'C18', 'core.py',
  "            if start < 0 or start >= len(cur_t_path):",
  "            if start < -1 or start >= len(cur_t_path):",
  "Path[-len-1] is accepted")
M('c18-root-table', 'C18', 'core.py',
  "        self.__ops__ = ({'T': T, 'S': S, 'A': A}[state[0]],) + state[1:]",
  "        self.__ops__ = ({'T': T, 'S': S, 'A': S}[state[0]],) + state[1:]",
  "unpickling maps A to S")
M('c18-getstate-drop', 'C18', 'core.py',
  "        return tuple(({T: 'T', S: 'S', A: 'A'}[t_path[0]],) + t_path[1:])",
  "        return tuple(({T: 'T', S: 'S', A: 'A'}[t_path[0]],) + t_path[3:])",
  "pickling drops the first step")
M('c18-inplace-ops', 'C18', 'core.py',
  "    def startswith(self, other):\n        if isinstance(other, basestring):\n            other = Path(other)",
  "    def startswith(self, other):\n        if isinstance(other, basestring):\n            other = Path(other)\n            self.path_t.__ops__ = self.path_t.__ops__ + ()",
  "a method rebinds the op tuple of an existing T")
M('c18-format-star', ['C18', 'C14'], 'core.py',
  "        elif op == 'X':\n            prepr.append(\".__starstar__()\")",
  "        elif op == 'X':\n            prepr.append(\".__star__()\")",
  "** is rendered as *")
M('c18-slice-none', 'C18', 'core.py',
  "    fmt = lambda v: \"\" if v is None else bbrepr(v)",
  "    fmt = lambda v: bbrepr(v) if v else \"\"",
  "a 0 slice bound vanishes from the repr")
M('c18-eq-len', 'C18', 'core.py',
  "        if type(other) is Path:\n            return self.path_t.__ops__ == other.path_t.__ops__",
  "        if type(other) is Path:\n            return len(self.path_t.__ops__) == len(other.path_t.__ops__)",
  "Paths of equal length compare equal")
M('c18-from-t-drop', 'C18', 'core.py',
  "            new_t.__ops__ = (T,) + t_path[1:]",
  "            new_t.__ops__ = (T,) + t_path[3:]",
  "from_t drops the first step")
M('c18-stop-scale', 'C18', 'core.py',
  "                stop = (stop * 2) + 1 if stop >= 0 else (stop * 2) + len(cur_t_path)",
  "                stop = (stop * 2) if stop >= 0 else (stop * 2) + len(cur_t_path)",
  "slice stops are scaled without the root offset")

# --------------------------------------------------------------------------- C19
M('c19-eval', 'C19', 'cli.py',
  "        spec = ast.literal_eval(spec_text)",
  "        spec = eval(spec_text)",
  "default-format specs are evaluated")
M('c19-fallback-full', 'C19', 'cli.py',
  "    else:\n        raise UsageError('expected spec-format to be one of json, python, or python-full')",
  "    else:\n        spec = _eval_python_full_spec(spec_text)",
  "unknown spec formats fall back to python-full")
M('c19-nosort', 'C19', 'cli.py',
  "        print(json.dumps(result, indent=indent, sort_keys=True))",
  "        print(json.dumps(result, indent=indent))",
  "output keys are not sorted")
M('c19-print-target', 'C19', 'cli.py',
  "        print(json.dumps(result, indent=indent, sort_keys=True))",
  "        print(json.dumps(target, indent=indent, sort_keys=True))",
  "the CLI prints the target instead of the result")
M('c19-exit0', 'C19', 'cli.py',
  "        print(f'{ge.__class__.__name__}: {ge}')\n        return 1",
  "        print(f'{ge.__class__.__name__}: {ge}')\n        return 0",
  "GlomErrors exit with status 0")
M('c19-yaml-load', 'C19', 'cli.py',
  "            load_func = yaml.safe_load",
  "            load_func = yaml.load",
  "YAML targets are loaded unsafely")
M('c19-loader-passthrough', 'C19', 'cli.py',
  "    except Exception as e:\n        raise UsageError('could not load target data, got: %s: %s'\n                         % (e.__class__.__name__, e))",
  "    except Exception as e:\n        target = {}",
  "malformed targets become an empty object")
M('c19-target-or', 'C19', 'cli.py',
  "    return target\n\n\n@face_middleware",
  "    return target or {}\n\n\n@face_middleware",
  "falsy targets are replaced by {}")

# --------------------------------------------------------------------------- C20
M('c20-current-call', ['C20', 'C06'], 'core.py',
  "    scope[T] = target\n    scope.update(kwargs.pop('scope', {}))",
  "    scope[T] = target\n    _DEFAULT_SCOPE['current_target'] = target\n    scope.update(kwargs.pop('scope', {}))",
  "glom() records the current target in the default scope")
M('c20-cache-evict', ['C20', 'C06'], 'core.py',
  "            if len(cache) > cls._MAX_CACHE:\n                return create()",
  "            if len(cache) > cls._MAX_CACHE:\n                cache.clear()",
  "the path memo is cleared on overflow")
M('c20-register-on-lookup', ['C20', 'C13'], 'core.py',
  "                    closest = self._get_closest_type(obj, type_tree=type_tree)\n                    if closest is None:\n                        ret = False",
  "                    closest = self._get_closest_type(obj, type_tree=type_tree)\n                    if closest is None:\n                        self.register(obj_type)\n                        ret = False",
  "a failed lookup registers the type (rebinding the memo during evaluation)")
M('c20-root-shared', ['C20', 'C07'], 'core.py',
  "        CHILD_ERRORS: [],\n        'globals': ScopeVars({}, {}),",
  "        CHILD_ERRORS: _ROOT_ERRORS,\n        'globals': ScopeVars({}, {}),",
  "all calls share one root error list")
M('c20-finalize-global', ['C20'], 'core.py',
  "        self._scope = scope\n        # a copy of an error",
  "        self._scope = scope\n        GlomError._last_scope = scope\n        # a copy of an error",
  "finalisation records the failing frame on the class")


# --------------------------------------------------------------------------- more controls
C('ctl-idx-minus1', ['C01', 'C02'], 'core.py',
  "            except AttributeError as e:\n                pae = PathAccessError(e, Path(_t), i // 2)",
  "            except AttributeError as e:\n                pae = PathAccessError(e, Path(_t), (i - 1) // 2)",
  "(i-1)//2 is the same segment index")
C('ctl-idx-shift', ['C01', 'C02'], 'core.py',
  "            except (KeyError, IndexError, TypeError) as e:\n                pae = PathAccessError(e, Path(_t), i // 2)",
  "            except (KeyError, IndexError, TypeError) as e:\n                pae = PathAccessError(e, Path(_t), i >> 1)",
  "i >> 1 is the same segment index")
C('ctl-raise-direct', ['C01', 'C02'], 'core.py',
  "            except AttributeError as e:\n                pae = PathAccessError(e, Path(_t), i // 2)",
  "            except AttributeError as e:\n                raise PathAccessError(e, Path(_t), i // 2)",
  "raising directly in the handler")
C('ctl-broader-handler', ['C01'], 'core.py',
  "            except AttributeError as e:\n                pae = PathAccessError(e, Path(_t), i // 2)",
  "            except (AttributeError, TypeError) as e:\n                pae = PathAccessError(e, Path(_t), i // 2)",
  "catching more than the miss class")
C('ctl-hoist-path', ['C01', 'C02'], 'core.py',
  "    pae = None\n    while i < fetch_till:",
  "    pae = None\n    _here = Path\n    while i < fetch_till:",
  "an unrelated alias")
C('ctl-message', ['C04', 'C09', 'C10'], 'matching.py',
  "        raise MatchError(\"{0!r} not truthy\", target)",
  "        raise MatchError(\"{0!r} is not a truthy value\", target)",
  "a reworded message")
C('ctl-guard-ge-plus', ['C18'], 'core.py',
  "            if start < 0 or start >= len(cur_t_path):",
  "            if start < 0 or start > len(cur_t_path) - 1:",
  "an equivalent upper guard")
C('ctl-guard-lower-1', ['C18'], 'core.py',
  "            if start < 0 or start >= len(cur_t_path):",
  "            if start < 1 or start >= len(cur_t_path):",
  "an equivalent lower guard (start is odd)")
C('ctl-isnot-none', ['C04'], 'core.py',
  "    if err is not None:\n        raise err",
  "    if not (err is None):\n        raise err",
  "equivalent identity test -- tolerated only if recognised")

# --------------------------------------------------------------------------- reverted repairs (round 4)
M('c05-revert-memo-reset', ['C05'], 'core.py',
  "        self._scope = scope\n        # a copy of an error that was already rendered must not keep the old text\n        self._finalized_str = None\n",
  "        self._scope = scope\n",
  "revert of the repair: _finalize keeps the memoised message of the copied error")
M('c05-revert-path-rewrap', ['C05'], 'core.py',
  "        path = self.path if isinstance(self.path, Path) else Path(self.path)\n        path_part = path.values()[self.part_idx]",
  "        path_part = Path(self.path).values()[self.part_idx]",
  "revert of the repair: the access error re-wraps its S/A-rooted path")

# --------------------------------------------------------------------------- from the generic-mutant survey
M('c13-placed-flag-lost', ['C13'], 'core.py',
  "                    _type_tree[new_type] = OrderedDict({cur_type: sub_tree})\n                registered = True",
  "                    _type_tree[new_type] = OrderedDict({cur_type: sub_tree})\n                registered = False",
  "after re-parenting a subclass the new type is filed again as an empty sibling (its subtree is lost)")
M('c14-iterate-narrow', ['C14'], 'core.py',
  "                children.extend(iterate(item))\n            except Exception:",
  "                children.extend(iterate(item))\n            except ValueError:",
  "a container whose iteration fails with another class aborts the wildcard")
M('c01-first-op-index', ['C01'], 'core.py',
  "        if fetch_till > 1 and t_path[1] in ('.', 'P'):",
  "        if fetch_till > 1 and t_path[2] in ('.', 'P'):",
  "the S / A prelude reads the first step's argument where its op code is")
M('c18-stop-sign-test', ['C18'], 'core.py',
  "                stop = (stop * 2) + 1 if stop >= 0 else (stop * 2) + len(cur_t_path)",
  "                stop = (stop * 2) + 1 if stop >= 1 else (stop * 2) + len(cur_t_path)",
  "a slice stop of 0 is scaled from the end")
M('c04-debug-option-swapped', ['C04'], 'core.py',
  "    glom_debug = kwargs.pop('glom_debug', GLOM_DEBUG)",
  "    glom_debug = kwargs.pop(GLOM_DEBUG, 'glom_debug')",
  "debug mode is always on: errors are never translated or traced")

M('c14-revert-s-root-recursion', ['C14'], 'core.py',
  "            todo.__ops__ = (T if root is S else root,) + t_path[i+2:]",
  "            todo.__ops__ = (root,) + t_path[i+2:]",
  "revert of the repair: S-rooted expressions restart from the scope after a wildcard")

M('c13-revert-ordered-known-types', ['C13'], 'core.py',
  "        known_types = list(OrderedDict.fromkeys(\n            sum([list(m.keys()) for m in self._op_type_map.values()], [])))",
  "        known_types = set(sum([list(m.keys()) for m in self._op_type_map.values()], []))",
  "revert of the repair: known types are inserted into the type tree in set (address) order")

M('c08-revert-argmode-finally', ['C08'], 'core.py',
  "    try:\n        result = scope[glom](target, arg, scope)\n    finally:\n        # also when the argument fails: the frame may live on (e.g. an entry dropped by '*')\n        scope[MIN_MODE] = mode\n    return result",
  "    result = scope[glom](target, arg, scope)\n    scope[MIN_MODE] = mode\n    return result",
  "revert of the repair: argument mode stays installed when the argument raises")

# reverts of the repairs made after seed round 6 (5.1 o-t)
M('c05-revert-wrap-bases-order', ['C05'], 'core.py',
  "        bases = (GlomError,) if issubclass(GlomError, exc_type) else (GlomError, exc_type)",
  "        bases = (GlomError,) if issubclass(GlomError, exc_type) else (exc_type, GlomError)",
  "revert of the repair: a wrapped class with its own __str__ prints without the trace")
M('c13-revert-miss-after-memo', ['C13'], 'core.py',
  "            self._type_cache[cache_key] = ret\n        ret = self._type_cache[cache_key]\n        if ret is False and raise_exc:\n            # also when the miss was memoised by an earlier raise_exc=False lookup\n            raise UnregisteredTarget(op, obj_type, type_map=self.get_type_map(op), path=path)\n        return ret",
  "            if ret is False and raise_exc:\n                raise UnregisteredTarget(op, obj_type, type_map=type_map, path=path)\n\n            self._type_cache[cache_key] = ret\n        return self._type_cache[cache_key]",
  "revert of the repair: a memoised False is returned to a caller that asked for an exception")
M('c11-revert-backfill-literal', ['C11'], 'mutation.py',
  "Assign(remaining_path, Val(val), missing=self.missing)",
  "Assign(remaining_path, val, missing=self.missing)",
  "revert of the repair: the back-fill evaluates the value a second time")
M('c11-revert-backfill-s-rooted-tail', ['C11'], 'mutation.py',
  "remaining_path = self._orig_path[pae.part_idx + 1:].from_t()",
  "remaining_path = self._orig_path[pae.part_idx + 1:]",
  "revert of the repair: the tail of an S-rooted destination is written into the scope, the new container stays empty")
M('c07-vars-base-defaults-swapped', ['C07'], 'core.py',
  "return ScopeVars(self.base, self.defaults)",
  "return ScopeVars(self.defaults, self.base)",
  "the base mapping is applied on top of the explicit defaults")
M('c15-revert-flatten-zero-levels', ['C15'], 'reduction.py',
  "    if levels == 0:\n        return glom(target, subspec)",
  "    if levels == 0:\n        return target",
  "revert of the repair: flatten(levels=0) ignores its spec")
M('c19-spec-second-character', ['C19'], 'cli.py',
  "if spec_text[0] not in ('\"', \"'\", \"[\", \"{\", \"(\"):",
  "if spec_text[1] not in ('\"', \"'\", \"[\", \"{\", \"(\"):",
  "the literal-or-path decision looks at the second character of the spec text")
M('c19-python-full-spec-dropped', ['C19'], 'cli.py',
  "    spec = _compile_code(code_str, name=name, env=env)\n    return spec",
  "    spec = _compile_code(code_str, name=name, env=env)\n    return None",
  "the value of a python-full spec expression is dropped")
M('c04-revert-iterate-message-path', ['C04'], 'core.py',
  "% (target.__class__.__name__, scope[Path], e))",
  "% (target.__class__.__name__, Path(*scope[Path]), e))",
  "revert of the repair: the 'failed to iterate' message splices the recorded steps through Path(), which raises for S-/A-rooted ones")
M('c10-revert-check-default-raw', ['C10'], 'matching.py',
  "                        if self.default is not RAISE:\n                            return arg_val(target, self.default, scope)",
  "                        if self.default is not RAISE:\n                            return self.default",
  "revert of the repair: the validate branch returns the stored default object")
M('c10-revert-rand-alias', ['C10'], 'matching.py',
  "    def __rand__(self, other):\n        return And(other, self)\n\n    def __or__(self, other):\n        return Or(self, other)\n\n    def __invert__(self):\n        return Not(self)\n\n    def glomit(self, target, scope):\n        lhs, op, rhs = self.lhs, self.op, self.rhs",
  "    __rand__ = __and__\n\n    def __or__(self, other):\n        return Or(self, other)\n\n    def __invert__(self):\n        return Not(self)\n\n    def glomit(self, target, scope):\n        lhs, op, rhs = self.lhs, self.op, self.rhs",
  "revert of the repair: the reflected & swaps its operands")
M('c02-revert-call-operand-twice', ['C02'], 'core.py',
  "        if op != '(':  # call arguments are evaluated (once) by the Call spec below\n            arg = arg_val(target, arg, scope)",
  "        arg = arg_val(target, arg, scope)",
  "revert of the repair: the operand of a call step is evaluated before Call evaluates it again")
M('c19-revert-undecodable-target', ['C19'], 'cli.py',
  "            target_text = open(target_file).read()\n        except (OSError, UnicodeDecodeError) as ose:",
  "            target_text = open(target_file).read()\n        except OSError as ose:",
  "revert of the repair: an undecodable target file escapes as a traceback")
M('c13-revert-register-op-reset', ['C13'], 'core.py',
  "        self._op_auto_map[op_name] = auto_func\n        # a lookup made before the op was declared may have memoised a miss\n        self._type_cache = {}\n",
  "        self._op_auto_map[op_name] = auto_func\n",
  "revert of the repair: register_op leaves memoised misses in place")

# reverts of the repairs made after seed round 7 (5.1 w-z)
M('c10-revert-flatten-default', ['C10'], 'matching.py',
  "    def __and__(self, other):\n        if self.default is not _MISSING:\n            return And(self, other)  # flattening would drop the default\n",
  "    def __and__(self, other):\n",
  "revert of the repair: And(.., default=D) & x drops the default")
M('c09-revert-callable-name', ['C09', 'C04'], 'matching.py',
  "        spec_name = getattr(spec, '__name__', None) or bbrepr(spec)\n",
  "        spec_name = spec.__name__\n",
  "revert of the repair: a rejecting callable without __name__ raises AttributeError")
M('c04-revert-copy-class', ['C04'], 'matching.py',
  "        return type(self)(self.args[2], self.args[1])",
  "        return TypeMatchError(self.args[2], self.args[1])",
  "revert of the repair: a TypeMatchError subclass is copied as its base class")
M('c04-revert-wrap-type-in-try', ['C04'], 'core.py',
  "        try:\n            exc_wrapper_type = type(f\"GlomError.wrap({exc_type.__name__})\", bases, {})\n            wrapper = exc_wrapper_type(*exc.args)",
  "        exc_wrapper_type = type(f\"GlomError.wrap({exc_type.__name__})\", bases, {})\n        try:\n            wrapper = exc_wrapper_type(*exc.args)",
  "revert of the repair: building the wrapper class is outside the fallback")
