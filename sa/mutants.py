"""firing variants: one instance broken by a small text edit of the current
source.  old must occur exactly once in the file (else: stale witness)."""

MUTANTS = []


def M(id, props, file, old, new, what):
    MUTANTS.append({'id': id, 'props': props if isinstance(props, (list, tuple)) else [props],
                    'file': 'glom/' + file, 'old': old, 'new': new, 'what': what})
