"""Language / library semantics tables (facts of Python, not of this repo) and
a few repo role tables discovered from the code."""
import ast

from .program import AnalysisError

# dunder <-> AST operator
BINARY_DUNDERS = {
    '__add__': ast.Add, '__sub__': ast.Sub, '__mul__': ast.Mult, '__floordiv__': ast.FloorDiv,
    '__truediv__': ast.Div, '__mod__': ast.Mod, '__pow__': ast.Pow, '__and__': ast.BitAnd,
    '__or__': ast.BitOr, '__xor__': ast.BitXor, '__lshift__': ast.LShift, '__rshift__': ast.RShift,
    '__matmul__': ast.MatMult,
}
UNARY_DUNDERS = {'__invert__': ast.Invert, '__neg__': ast.USub, '__pos__': ast.UAdd}
COMPARE_DUNDERS = {'__eq__': ast.Eq, '__ne__': ast.NotEq, '__gt__': ast.Gt, '__lt__': ast.Lt,
                   '__ge__': ast.GtE, '__le__': ast.LtE}

# miss classes of the primitive operations (names of builtin exception classes)
MISS = {
    'getattr': ('AttributeError',),
    'getitem': ('KeyError', 'IndexError'),
    'delitem': ('KeyError', 'IndexError'),
    'delattr': ('AttributeError',),
    'arith': ('TypeError', 'ZeroDivisionError'),
    # union over the default 'get' handlers: operator.getitem (KeyError, IndexError,
    # TypeError), _get_sequence_item (int(): ValueError/TypeError, IndexError), getattr
    # ... and, the handler being whatever was registered for the type, any other Exception
    'get-handler': ('KeyError', 'IndexError', 'AttributeError', 'TypeError', 'ValueError', 'Exception'),
    'delete-handler': ('KeyError', 'IndexError', 'AttributeError', 'TypeError', 'ValueError'),
    'assign-handler': ('KeyError', 'IndexError', 'AttributeError', 'TypeError', 'ValueError'),
}

# dynamic-code sinks and safe loaders
SINK_BUILTINS = {'eval', 'exec', 'compile', '__import__'}
SINK_EXTERNALS = {
    'pickle.load', 'pickle.loads', 'marshal.loads', 'marshal.load', 'yaml.load', 'yaml.unsafe_load',
    'yaml.full_load', 'yaml.load_all', 'os.system', 'os.popen', 'importlib.import_module',
    'runpy.run_path', 'runpy.run_module', 'code.interact', 'builtins.eval', 'builtins.exec',
}
SINK_EXTERNAL_PREFIXES = ('subprocess.', 'importlib.', 'os.exec', 'os.spawn')
SAFE_LOADERS = {'json.loads', 'yaml.safe_load', 'tomllib.loads', 'tomli.loads', 'ast.literal_eval',
                'json.load'}

# lazy stream combinators / eager consumers
LAZY_COMBINATORS = {'map', 'filter', 'imap', 'ifilter', 'islice', 'takewhile', 'dropwhile',
                    'itertools.islice', 'itertools.takewhile', 'itertools.dropwhile',
                    'itertools.chain.from_iterable', 'chain.from_iterable', 'iter', 'enumerate', 'zip'}
EAGER_CONSUMERS = {'list', 'tuple', 'sorted', 'set', 'frozenset', 'dict', 'sum', 'max', 'min', 'len',
                   'reversed', 'any', 'all'}

MUTATION_API_CANDIDATES = ('core._assign_op', 'mutation._set_sequence_item',
                           'mutation.Delete._del_one', 'mutation._del_sequence_item')


def mutation_api(program):
    """the functions that are *meant* to write into targets: verified by role
    (each contains a store / delete / setattr-like call on one of its own
    parameters) -- qualnames"""
    out = set()
    for q in MUTATION_API_CANDIDATES:
        u = program.find_unit(q)
        if u is None:
            continue
        ok = False
        for n in u.own_nodes():
            if isinstance(n, (ast.Assign, ast.Delete)):
                tg = n.targets
                for t in tg:
                    if isinstance(t, (ast.Subscript, ast.Attribute)) and isinstance(t.value, ast.Name) \
                            and t.value.id in u.all_params:
                        ok = True
            if isinstance(n, ast.Call) and isinstance(n.func, ast.Name) and n.func.id in ('setattr', 'delattr'):
                ok = True
        if ok:
            out.add(q)
    if not out:
        raise AnalysisError('mutation API not found (none of %s has the writer role)'
                            % (MUTATION_API_CANDIDATES,))
    return out
