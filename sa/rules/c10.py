"""C10 -- M, And, Or, Not, Switch and Check decide like the boolean expressions denoted."""
import ast

from . import rule, info
from ..program import AnalysisError, src, norm, ClassInfo
from ..tables import COMPARE_DUNDERS
from ..util import (polarity, exclusive, locals_from_attrs, flows_into, is_name, calls_in, callee_qual, deref, ancestors, evaluator_calls, stmt_of, parent,
                    handler_outcomes, completes_normally, handler_covers, in_handler_of, raised_class, is_subclass, cls_name)
from ..pattern import match, matches
from .common import option_usage, raise_discipline

info('C10',
     explanation='Static decision of: every rejection raised by the combinators themselves is a MatchError '
                 '(CheckError for Check); the comparison-code table (both M writers map each rich-comparison '
                 'dunder to the same code and the evaluator pairs each code with the operator the dunder '
                 'denotes, operands lhs op rhs); who is returned (target / last child / first passing child '
                 'immediately / exactly one Switch value after the first non-raising key); defaults only on '
                 'the rejection path; Check reads every option it was given and every rejection path appends '
                 'an error or returns the default.',
     decided=['C10.1 rejections are MatchErrors', 'C10.2 comparison table', 'C10.3 who is returned',
              'C10.4 defaults', 'C10.5 Check enforces its options', 'C10.6 operator overloads build the named combinator'],
     not_decided=['the truth table itself for arbitrary trees',
                  'whether a child\'s non-Match GlomError propagating through And/Or counts as a rejection by the combinator'])

COMBINATOR_UNITS = ['matching.And._glomit', 'matching.Or._glomit', 'matching.Not.glomit', 'matching._Bool.glomit',
                    'matching._MExpr.glomit', 'matching._MSubspec.glomit', 'matching._MType.glomit',
                    'matching.Switch.glomit']


@rule('C10.1')
def rejections(ctx):
    n = raise_discipline(ctx, COMBINATOR_UNITS, 'MatchError')
    n += raise_discipline(ctx, ['matching.Check.glomit'], 'CheckError', also_ok=('_ValidationError',))
    if n < 8:
        raise AnalysisError('C10.1 matched %d raise sites, floor 8' % n)
    ctx.floor(8)


@rule('C10.2')
def comparison_table(ctx):
    p = ctx.program
    tables = {}
    for q in ('matching._MType', 'matching._MSubspec'):
        c = ctx.cls(q)
        t = {}
        for d in COMPARE_DUNDERS:
            m = c.methods.get(d)
            ctx.ob(m is not None, c, '%s defines %s' % (c.name, d))
            if m is None:
                continue
            rets = [n for n in m.own_nodes() if isinstance(n, ast.Return)]
            ok = len(rets) == 1 and isinstance(rets[0].value, ast.Call) and callee_qual(p, m, rets[0].value) == 'matching._MExpr' \
                and len(rets[0].value.args) == 3 and isinstance(rets[0].value.args[1], ast.Constant)
            if ok:
                a = rets[0].value.args
                ok = is_name(a[0], m.params[0]) and is_name(a[2], m.params[1])
                t[d] = a[1].value
            ctx.ob(ok, m, '%s.%s records _MExpr(self, <code>, other): %s' % (c.name, d, [norm(r) for r in rets]))
        tables[q] = t
    a, b = tables['matching._MType'], tables['matching._MSubspec']
    for d in COMPARE_DUNDERS:
        ctx.ob(a.get(d) is not None and a.get(d) == b.get(d), 'matching', 'M and M(...) use the same code for %s: %r / %r' % (d, a.get(d), b.get(d)))
    ctx.ob(len(set(a.values())) == len(a), 'matching', 'comparison codes are distinct: %s' % sorted(a.values()))
    # evaluator
    u = ctx.unit('matching._MExpr.glomit')
    code2op = {}
    lhs = rhs = opv = None
    got = locals_from_attrs(u, ('lhs', 'op', 'rhs'))
    if len(got) == 3:
        lhs, opv, rhs = got['lhs'], got['op'], got['rhs']
    ctx.require(lhs is not None, '_MExpr.glomit: `lhs, op, rhs = self.lhs, self.op, self.rhs` not found')
    terms = [n for n in u.own_nodes() if isinstance(n, ast.BoolOp) and isinstance(n.op, ast.And) and len(n.values) == 2
             and isinstance(n.values[0], ast.Compare) and is_name(n.values[0].left, opv)
             and isinstance(n.values[0].comparators[0], ast.Constant)]
    for t in terms:
        code = t.values[0].comparators[0].value
        cmpn = t.values[1]
        ok = isinstance(cmpn, ast.Compare) and len(cmpn.ops) == 1 and is_name(cmpn.left, lhs) and is_name(cmpn.comparators[0], rhs)
        if ok:
            code2op[code] = type(cmpn.ops[0])
        ctx.ob(ok, u, 'code %r compares lhs with rhs in that order: %s' % (code, norm(cmpn)), node=t)
    for d, code in a.items():
        want = COMPARE_DUNDERS[d]
        got = code2op.get(code)
        ctx.ob(got is want, u, '%s (code %r) is decided by the %s comparison' % (d, code, want.__name__),
               'evaluated with %s' % (got.__name__ if got else 'nothing: code not handled'))
    # the disjunction of the terms decides acceptance
    disj = [n for n in u.own_nodes() if isinstance(n, ast.BoolOp) and isinstance(n.op, ast.Or) and all(v in terms for v in n.values)]
    ctx.ob(len(disj) == 1 and len(disj[0].values) == len(terms) == 6, u, 'acceptance is the disjunction of the six code cases')
    if disj:
        st = stmt_of(disj[0])
        mv = st.targets[0].id if isinstance(st, ast.Assign) and is_name(st.targets[0]) else None
        gate = [n for n in u.own_nodes() if isinstance(n, ast.If) and (n.test is disj[0] or mv and is_name(n.test, mv))]
        ok = len(gate) == 1 and isinstance(gate[0].body[0], ast.Return) and is_name(gate[0].body[0].value, u.params[1])
        ctx.ob(ok, u, 'a true comparison returns the target; otherwise a MatchError follows')
    # M / M(T-expr) operand substitution
    subs = [n for n in u.own_nodes() if isinstance(n, ast.If) and isinstance(n.test, ast.Compare) and isinstance(n.test.ops[0], ast.Is)]
    kinds = {}
    for s in subs:
        left = s.test.left
        a0 = s.body[0]
        if is_name(left) and isinstance(a0, ast.Assign) and is_name(a0.targets[0], left.id):
            if is_name(a0.value, u.params[1]) and p.global_qualname(u, s.test.comparators[0]) == 'matching.M':
                kinds[(left.id, 'M')] = True
        if isinstance(left, ast.Call) and is_name(left.func, 'type') and isinstance(a0, ast.Assign):
            v = a0.value
            nm = left.args[0].id if is_name(left.args[0]) else None
            if isinstance(v, ast.Call) and p.is_evaluator_call(u, v) and is_name(v.args[0], u.params[1]) \
                    and isinstance(v.args[1], ast.Attribute) and v.args[1].attr == 'spec' and is_name(v.args[1].value, nm) \
                    and is_name(a0.targets[0], nm):
                kinds[(nm, 'sub')] = True
    # the same two substitutions written once for the operand pair: a comprehension over
    # ``(lhs, rhs)`` for M, an indexed loop over the resulting list for M(T-expr), then unpacked
    # back into the two operands
    tgt = u.params[1]
    for st in u.node.body:
        if not (isinstance(st, ast.Assign) and is_name(st.targets[0]) and isinstance(st.value, ast.ListComp)):
            continue
        pair, lc = st.targets[0].id, st.value
        g = lc.generators[0] if len(lc.generators) == 1 else None
        if g is None or g.ifs or not is_name(g.target) or not (isinstance(g.iter, ast.Tuple) and [norm(e) for e in g.iter.elts] == [lhs, rhs]):
            continue
        v = g.target.id
        unpack = [n for n in u.node.body if isinstance(n, ast.Assign) and isinstance(n.targets[0], ast.Tuple)
                  and [norm(e) for e in n.targets[0].elts] == [lhs, rhs] and is_name(n.value, pair)]
        if len(unpack) != 1:
            continue
        e = lc.elt
        if isinstance(e, ast.IfExp) and isinstance(e.test, ast.Compare) and is_name(e.test.left, v) and isinstance(e.test.ops[0], ast.Is) \
                and p.global_qualname(u, e.test.comparators[0]) == 'matching.M' and is_name(e.body, tgt) and is_name(e.orelse, v):
            kinds[(lhs, 'M')] = kinds[(rhs, 'M')] = True
        for lp in [n for n in u.node.body if isinstance(n, ast.For)]:
            b = match(lp, 'for $i, $s in enumerate(%s):\n    if type($s) is _MSubspec:\n        %s[$i] = $$ev' % (pair, pair))
            if b and u.node.body.index(st) < u.node.body.index(lp) < u.node.body.index(unpack[0]):
                ev = b['ev']
                if isinstance(ev, ast.Call) and p.is_evaluator_call(u, ev) and is_name(ev.args[0], tgt) \
                        and isinstance(ev.args[1], ast.Attribute) and ev.args[1].attr == 'spec' and is_name(ev.args[1].value, b['s']):
                    kinds[(lhs, 'sub')] = kinds[(rhs, 'sub')] = True
    for side in (lhs, rhs):
        ctx.ob(kinds.get((side, 'M')), u, 'a bare M on the %s side stands for the target' % side)
        ctx.ob(kinds.get((side, 'sub')), u, 'M(T-expr) on the %s side is evaluated on the target' % side)
    ctx.floor(40)


@rule('C10.3')
def who_is_returned(ctx):
    p = ctx.program
    # And: last child's result
    u = ctx.unit('matching.And._glomit')
    cfg = ctx.cfg(u)
    evs = evaluator_calls(p, u)
    rets = [n for n in u.own_nodes() if isinstance(n, ast.Return)]
    ok = len(evs) == 1 and len(rets) == 1 and isinstance(rets[0].value, ast.Name)
    if ok:
        st = stmt_of(evs[0])
        ok = isinstance(st, ast.Assign) and is_name(st.targets[0], rets[0].value.id) and is_name(evs[0].args[0], u.params[1])
    ctx.ob(ok, u, 'And evaluates every child on the target and yields the last result')
    hs = [n for n in cfg.nodes if n.kind == 'handler']
    ctx.ob(not hs, u, 'And lets the first failing child reject (no handler)')
    jumps = [n for n in u.own_nodes() if isinstance(n, (ast.Break, ast.Continue))]
    lps = [n for n in u.own_nodes() if isinstance(n, ast.For)]
    ctx.ob(not jumps and len(lps) == 1 and not [r for r in ast.walk(lps[0]) if isinstance(r, ast.Return)], u,
           'And evaluates every child (no break / continue / return in its loop)', '%s' % [norm(j) for j in jumps])
    inits = [n for n in u.node.body if isinstance(n, ast.Assign) and rets and is_name(n.targets[0], rets[0].value.id)]
    ctx.ob(len(inits) == 1 and is_name(inits[0].value, u.params[1]), u, 'an empty And yields the target')
    # Or: the evaluator call is the returned expression
    u = ctx.unit('matching.Or._glomit')
    cfg = ctx.cfg(u)
    evs = evaluator_calls(p, u)
    ctx.require(len(evs) == 2, 'Or._glomit: expected two evaluation sites (loop + last child)')
    for e in evs:
        st = stmt_of(e)
        ctx.ob(isinstance(st, ast.Return) and st.value is e and is_name(e.args[0], u.params[1]), u,
               'Or returns a passing child\'s result immediately: %s' % norm(st), node=e)
    loop_ev = [e for e in evs if cfg.node_containing(e).loop_stack]
    ctx.ob(len(loop_ev) == 1, u, 'all but the last child are tried in a loop')
    if loop_ev:
        hs = cfg.handlers_reached_from(cfg.node_containing(loop_ev[0]))
        ok = len(hs) == 1 and p.global_qualname(u, hs[0].ast.type) == 'core.GlomError' \
            and set(handler_outcomes(cfg, hs[0])) <= {'normal', 'continue'}
        ctx.ob(ok, u, 'a failing child moves on to the next one')
    last = [e for e in evs if not cfg.node_containing(e).loop_stack]
    if last:
        ctx.ob(not cfg.handlers_reached_from(cfg.node_containing(last[0])), u, 'the last child\'s failure is the Or\'s failure')
    # Not
    u = ctx.unit('matching.Not.glomit')
    cfg = ctx.cfg(u)
    evs = evaluator_calls(p, u)
    ctx.ob(len(evs) == 1, u, 'Not evaluates its child once and inverts the outcome (no rewritten / shortcut evaluation)',
           '' if len(evs) == 1 else 'found %d evaluator calls: %s' % (len(evs), [norm(e)[:70] for e in evs]))
    if len(evs) != 1:
        return
    hs = cfg.handlers_reached_from(cfg.node_containing(evs[0]))
    ok = len(hs) == 1 and p.global_qualname(u, hs[0].ast.type) == 'core.GlomError'
    ctx.ob(ok, u, 'Not inverts GlomError rejections')
    if hs:
        rr = [s for s in ast.walk(hs[0].ast) if isinstance(s, ast.Return)]
        ctx.ob(len(rr) == 1 and is_name(rr[0].value, u.params[1]), u, 'a rejected child makes Not yield the target')
    evn = cfg.node_containing(evs[0])
    nonexc = lambda lab: lab != 'exc'
    rets = {n for n in cfg.nodes if n.kind == 'stmt' and isinstance(n.ast, ast.Return)}
    rej = {n for n in cfg.nodes if n.kind == 'stmt' and isinstance(n.ast, ast.Raise) and n.ast.exc is not None
           and is_subclass(raised_class(p, u, n.ast), 'MatchError')}
    ok = cfg.find_path(evn, rets | {cfg.exit}, avoid=rej, labels=nonexc) is None \
        and cfg.find_path(evn, rej, labels=nonexc) is not None
    ctx.ob(ok, u, 'a passing child makes Not reject: after a normal evaluation every path raises MatchError')
    ctx.ob(is_name(evs[0].args[0], u.params[1]) and isinstance(evs[0].args[1], ast.Attribute) and evs[0].args[1].attr == 'child', u,
           'Not evaluates its child on the target')
    # M, M(...)
    u = ctx.unit('matching._MType.glomit')
    ifs = [n for n in u.node.body if isinstance(n, ast.If)]
    ctx.ob(len(ifs) == 1 and is_name(ifs[0].test, u.params[1]) and isinstance(ifs[0].body[0], ast.Return), u, 'bare M passes on a truthy target')
    u = ctx.unit('matching._MSubspec.glomit')
    evs = evaluator_calls(p, u)
    ok = len(evs) == 1 and is_name(evs[0].args[0], u.params[1]) and isinstance(evs[0].args[1], ast.Attribute) and evs[0].args[1].attr == 'spec'
    ctx.ob(ok, u, 'M(T-expr) evaluates the expression on the target')
    # Switch: exactly one value spec, after the first key that did not raise
    u = ctx.unit('matching.Switch.glomit')
    cfg = ctx.cfg(u)
    loops = [n for n in u.own_nodes() if isinstance(n, ast.For)]
    ctx.require(len(loops) == 1 and isinstance(loops[0].target, ast.Tuple), 'Switch.glomit: case loop not found')
    kv, vv = [e.id for e in loops[0].target.elts]
    evs = evaluator_calls(p, u)
    kev = [e for e in evs if is_name(e.args[1], kv)]
    vev = [e for e in evs if is_name(e.args[1], vv)]
    ctx.ob(len(kev) == 1 and len(vev) == 1, u, 'one key evaluation and one value evaluation per case')
    if len(kev) == 1 and len(vev) == 1:
        kn, vn = cfg.node_containing(kev[0]), cfg.node_containing(vev[0])
        hs = cfg.handlers_reached_from(kn)
        hdr = cfg.node_of(loops[0])
        ok = len(hs) == 1 and p.global_qualname(u, hs[0].ast.type) == 'core.GlomError' \
            and set(handler_outcomes(cfg, hs[0])) <= {'continue', 'normal'} \
            and cfg.find_path(hs[0], {vn}, avoid={hdr}) is None \
            and cfg.find_path(hs[0], {hdr}, labels=lambda lab: lab != 'exc') is not None
        ctx.ob(ok, u, 'a case whose key rejects is skipped (its value spec is not evaluated, the next case is tried)')
        st = stmt_of(vev[0])
        ctx.ob(isinstance(st, ast.Return) and st.value is vev[0] and cfg.dominates(kn, vn), u,
               'the first passing key\'s value spec is evaluated and returned at once: %s' % norm(st))
        ctx.ob(not cfg.handlers_reached_from(vn), u, 'a failing value spec is not retried with later cases')
        ctx.ob(is_name(kev[0].args[0], u.params[1]) and is_name(vev[0].args[0], u.params[1]), u, 'key and value see the Switch\'s own target')
    ctx.floor(19)


def matches_default(st, unit):
    v = st.value
    return isinstance(v, ast.Call) and isinstance(v.func, ast.Attribute) and v.func.attr == 'pop' and is_name(v.func.value, unit.kwarg) \
        and v.args and isinstance(v.args[0], ast.Constant) and v.args[0].value == 'default'


@rule('C10.4')
def defaults(ctx):
    p = ctx.program
    u = ctx.unit('matching._Bool.glomit')
    cfg = ctx.cfg(u)
    cs = [c for c in calls_in(u) if isinstance(c.func, ast.Attribute) and c.func.attr == '_glomit']
    ctx.require(len(cs) == 1, '_Bool.glomit: delegation to _glomit not found')
    node = cfg.node_containing(cs[0])
    ctx.ob(isinstance(node.ast, ast.Return) and node.ast.value is cs[0] and
           [a.id if isinstance(a, ast.Name) else None for a in cs[0].args] == u.params[1:3], u,
           'a passing combinator returns its own result: %s' % norm(node.ast))
    hs = cfg.handlers_reached_from(node)
    ok = len(hs) == 1 and p.global_qualname(u, hs[0].ast.type) == 'core.GlomError'
    ctx.ob(ok, u, 'the default applies to GlomError rejections only')
    if hs:
        out = handler_outcomes(cfg, hs[0])
        ctx.ob(set(out) == {'raise-bare', 'return'}, u, 'the rejection path yields the default or re-raises', 'outcomes %s' % sorted(out))
        rets = [s for s in ast.walk(hs[0].ast) if isinstance(s, ast.Return)]
        ok = len(rets) == 1 and isinstance(rets[0].value, ast.Call) and callee_qual(p, u, rets[0].value) == 'core.arg_val' \
            and isinstance(rets[0].value.args[1], ast.Attribute) and rets[0].value.args[1].attr == 'default'
        ctx.ob(ok, u, 'the default is evaluated as an argument: %s' % [norm(r) for r in rets])
        ok = False
        shown = None
        for t in cfg.nodes:
            if t.kind != 'test':
                continue
            e = polarity(t.ast, 'self.default is _MISSING')
            if e and rets:
                shown = norm(t.ast)
                given = 'false' if e == 'true' else 'true'
                rn = cfg.node_of(rets[0])
                ok = rn in exclusive(cfg, t, given) and cfg.dominates(t, rn)
        ctx.ob(ok, u, 'the default is used only when one was given: %s' % shown)
    bi = ctx.unit('matching._Bool.__init__')
    st_ = [n for n in bi.own_nodes() if isinstance(n, ast.Assign) and isinstance(n.targets[0], ast.Attribute) and n.targets[0].attr == 'children']
    ctx.ob(len(st_) == 1 and is_name(st_[0].value, bi.vararg), bi,
           'And / Or keep their operands exactly as given (nested combinators keep their own default): %s' % [norm(x) for x in st_],
           '' if len(st_) == 1 and is_name(st_[0].value, bi.vararg) else 'children are rewritten at construction')
    ds = [n for n in bi.own_nodes() if isinstance(n, ast.Assign) and isinstance(n.targets[0], ast.Attribute) and n.targets[0].attr == 'default']
    ctx.ob(len(ds) == 1 and matches_default(ds[0], bi), bi, 'the default is the caller\'s keyword: %s' % [norm(x) for x in ds])
    # Not bypasses _Bool.glomit: it accepts no default
    nu = ctx.unit('matching.Not.__init__')
    ctx.ob(nu.params == ['self', 'child'] and nu.kwarg is None, nu, 'Not takes no default')
    # Switch: default only after every case was tried
    u = ctx.unit('matching.Switch.glomit')
    loops = [n for n in u.own_nodes() if isinstance(n, ast.For)]
    dflt = [n for n in u.own_nodes() if isinstance(n, ast.Attribute) and n.attr == 'default']
    body = set(ast.walk(loops[0])) if loops else set()
    after = set()
    if loops:
        for st in u.node.body[u.node.body.index(loops[0]) + 1:]:
            after |= set(ast.walk(st))
    ctx.ob(bool(dflt) and all(d in after for d in dflt), u, 'Switch consults its default only after the case loop',
           '' if dflt and all(d in after for d in dflt) else 'self.default is read before / inside the loop')
    ok = False
    why = 'no `self.default is [not] _MISSING` test after the case loop'
    if loops:
        scfg = ctx.cfg(u)
        hdr = scfg.node_of(loops[0])
        nonexc = lambda lab: lab != 'exc'
        for t in scfg.nodes:
            if t.kind != 'test' or hdr in t.loop_stack:
                continue
            given = 'true' if matches(t.ast, 'self.default is not _MISSING') else \
                'false' if matches(t.ast, 'self.default is _MISSING') else None
            if given is None:
                continue
            missing = 'false' if given == 'true' else 'true'
            rets = {n for n in scfg.nodes if n.kind == 'stmt' and isinstance(n.ast, ast.Return)
                    and hdr not in n.loop_stack}
            dret = {n for n in rets if any(isinstance(x, ast.Attribute) and x.attr == 'default' for x in ast.walk(n.ast))}
            raises = {n for n in scfg.nodes if n.kind == 'stmt' and isinstance(n.ast, ast.Raise)
                      and is_subclass(raised_class(p, u, n.ast), 'MatchError')}
            on = lambda e: (lambda lab: lab == e)
            ok = scfg.find_path(hdr, {scfg.exit, scfg.raise_exit}, avoid={t}, labels=nonexc, start_labels=on('false')) is None \
                and scfg.find_path(t, dret, labels=nonexc, start_labels=on(given)) is not None \
                and scfg.find_path(t, (rets - dret) | raises, labels=nonexc, start_labels=on(given)) is None \
                and scfg.find_path(t, raises, labels=nonexc, start_labels=on(missing)) is not None \
                and scfg.find_path(t, rets, labels=nonexc, start_labels=on(missing)) is None
            why = '' if ok else 'after `%s` the outcomes are not (default returned | MatchError raised)' % norm(t.ast)
    ctx.ob(ok, u, 'no case passed: the default if given, else a MatchError', why)
    # Check: default is returned only on a rejection path
    u = ctx.unit('matching.Check.glomit')
    rets = [n for n in u.own_nodes() if isinstance(n, ast.Return)]
    nd = 0
    for r in rets:
        uses_default = any(isinstance(x, ast.Attribute) and x.attr == 'default' for x in ast.walk(r))
        if uses_default:
            nd += 1
            g = [a for a in ancestors(r) if isinstance(a, ast.If)]
            ok = bool(g) and norm(g[0].test) == 'self.default is not RAISE' and len(g) >= 2
            ctx.ob(ok, u, 'Check yields its default only inside a failed condition: %s' % norm(r), node=r)
    ctx.require(nd >= 4, 'Check.glomit: default returns not found')
    ctx.floor(14)


@rule('C10.5')
def check_enforces(ctx):
    p = ctx.program
    option_usage(ctx, ['matching.Check'])
    u = ctx.unit('matching.Check.glomit')
    cfg = ctx.cfg(u)
    # each condition block rejects by appending to errs (or returning the default)
    conds = {
        'types': 'self.types and type(target) not in self.types',
        'vals': 'self.vals and target not in self.vals',
        'instance_of': 'self.instance_of and (not isinstance(target, self.instance_of))',
    }
    tops = [n for n in u.node.body if isinstance(n, ast.If)]
    texts = {norm(t.test): t for t in tops}
    errvar = None
    for n in u.node.body:
        if isinstance(n, ast.Assign) and isinstance(n.value, ast.List) and not n.value.elts and is_name(n.targets[0]):
            errvar = n.targets[0].id
    ctx.require(errvar, 'Check.glomit: error list not found')
    for name, txt in conds.items():
        t = texts.get(txt)
        ctx.ob(t is not None, u, 'Check tests its %s option: `%s`' % (name, txt), 'top-level tests: %s' % sorted(texts)[:6])
        if t is not None:
            apps = [c for c in ast.walk(t) if isinstance(c, ast.Call) and isinstance(c.func, ast.Attribute)
                    and c.func.attr == 'append' and is_name(c.func.value, errvar)]
            ctx.ob(len(apps) >= 1 and all(any(a in ast.walk(s) for s in t.body) for a in apps), u, 'a failed %s condition records an error' % name)
    # validators: each called on the target; False or exception -> error
    vt = [t for t in tops if norm(t.test) == 'self.validators']
    ctx.ob(len(vt) == 1, u, 'Check runs its validators')
    if vt:
        loop = [n for n in ast.walk(vt[0]) if isinstance(n, ast.For)]
        ok = len(loop) == 1 and 'self.validators' in norm(loop[0].iter)
        ctx.ob(ok, u, 'every validator is run, in order')
        vname = None
        if loop:
            tg = loop[0].target
            vname = tg.elts[-1].id if isinstance(tg, ast.Tuple) and is_name(tg.elts[-1]) else (tg.id if is_name(tg) else None)
        vcalls = [c for c in ast.walk(vt[0]) if isinstance(c, ast.Call) and isinstance(c.func, ast.Name) and c.func.id == vname]
        ctx.ob(len(vcalls) == 1 and is_name(vcalls[0].args[0], u.params[1]), u, 'validators receive the checked value')
        if vcalls:
            vn = cfg.node_containing(vcalls[0])
            hs = cfg.handlers_reached_from(vn)
            ctx.ob(len(hs) >= 1 and handler_covers(cfg, hs[0], 'Exception'), u, 'a raising validator is a failed check, not a crash')
            apps = [c for h in hs for c in ast.walk(h.ast) if isinstance(c, ast.Call) and isinstance(c.func, ast.Attribute)
                    and c.func.attr == 'append' and is_name(c.func.value, errvar)]
            ctx.ob(len(apps) == 1, u, 'a failed validator records an error')
    # errs non-empty => CheckError
    tail = [t for t in tops if is_name(t.test, errvar)]
    ok = len(tail) == 1 and isinstance(tail[0].body[0], ast.Raise) and \
        is_subclass(raised_class(p, u, tail[0].body[0]), 'CheckError')
    ctx.ob(ok, u, 'recorded errors raise CheckError')
    if tail:
        idx = u.node.body.index(tail[0])
        ctx.ob(all(u.node.body.index(t) < idx for t in tops if t is not tail[0]), u, 'the verdict comes after every condition')
    # the value checked: target, or the spec's value when spec is not T; the original target is returned
    rets = [n for n in u.node.body if isinstance(n, ast.Return)]
    saved = [n for n in u.node.body if isinstance(n, ast.Assign) and is_name(n.value, u.params[1]) and is_name(n.targets[0])]
    first = saved[0] if saved else None
    evs0 = evaluator_calls(p, u)
    ok = first is not None and len(rets) == 1 and is_name(rets[0].value, first.targets[0].id) and \
        (not evs0 or u.node.body.index(first) < min(u.node.body.index(s_) for s_ in u.node.body if any(e in ast.walk(s_) for e in evs0)))
    ctx.ob(ok, u, 'a passing Check returns the original target: %s' % [norm(r) for r in rets])
    evs = evaluator_calls(p, u)
    ok = len(evs) == 1 and is_name(evs[0].args[0], u.params[1]) and isinstance(evs[0].args[1], ast.Attribute) and evs[0].args[1].attr == 'spec'
    ctx.ob(ok, u, 'Check(spec, ...) checks the value of spec on the target')
    # constructor: equal_to -> vals=(x,), one_of -> vals=iterable; type/instance_of validated as types
    iu = ctx.unit('matching.Check.__init__')
    pops = {}
    for c in calls_in(iu):
        if isinstance(c.func, ast.Attribute) and c.func.attr == 'pop' and c.args and isinstance(c.args[0], ast.Constant):
            st = stmt_of(c)
            if isinstance(st, ast.Assign) and is_name(st.targets[0]):
                pops[c.args[0].value] = st.targets[0].id
    ctx.ob(set(pops) >= {'default', 'validate', 'type', 'instance_of', 'equal_to', 'one_of'} or
           set(pops) >= {'validate', 'type', 'instance_of', 'equal_to', 'one_of'}, iu,
           'Check accepts validate, type, instance_of, equal_to, one_of (and default): %s' % sorted(pops))
    stores = {}
    for n in iu.own_nodes():
        if isinstance(n, ast.Assign) and isinstance(n.targets[0], ast.Attribute) and is_name(n.targets[0].value, 'self'):
            stores.setdefault(n.targets[0].attr, []).append(n.value)
    others = {k: v for k, v in pops.items()}

    def from_kw(attr, kwname, pos):
        # the stored value derives from this option's local and from no other option's
        vals = stores.get(attr, [])
        flow = flows_into(iu, vals)
        mine = pops.get(kwname)
        return bool(vals) and mine in flow and not any(v in flow for k, v in others.items()
                                                      if k not in (kwname, 'default') and v != mine)
    ctx.ob(from_kw('validators', 'validate', 3), iu, 'validate= feeds the validators')
    ctx.ob(from_kw('types', 'type', 3), iu, 'type= feeds the exact-type condition')
    ctx.ob(from_kw('instance_of', 'instance_of', 3), iu, 'instance_of= feeds the isinstance condition')
    vv = stores.get('vals', [])
    ok = any(isinstance(v, ast.Tuple) and len(v.elts) == 1 and is_name(v.elts[0], pops.get('equal_to')) for v in vv) \
        and any(is_name(v, pops.get('one_of')) for v in vv)
    ctx.ob(ok, iu, 'equal_to= / one_of= feed the membership condition: %s' % [norm(v) for v in vv])
    ctx.floor(24)


@rule('C10.6')
def overloads(ctx):
    p = ctx.program
    want = {'__and__': 'matching.And', '__or__': 'matching.Or', '__invert__': 'matching.Not'}
    n = 0
    # every class of the matching module that overloads & | ~ (found, not listed: a new overload
    # on e.g. Not is held to the same rule)
    for q in sorted(k for k in p.classes if k.startswith('matching.')):
        c = ctx.cls(q)
        for d, cls in want.items():
            m = c.methods.get(d)
            if m is None:
                continue
            n += 1
            rets = [x for x in m.own_nodes() if isinstance(x, ast.Return)]
            ok = len(rets) >= 1
            for r in rets:
                okr = isinstance(r.value, ast.Call) and callee_qual(p, m, r.value) == cls
                if okr:
                    call = r.value
                    names = [x.id for a in call.args for x in ast.walk(a) if isinstance(x, ast.Name)]
                    # operands in order: self first, then other
                    okr = names[:1] == [m.params[0]] and (len(m.params) == 1 or names[-1] == m.params[1])
                ok = ok and okr
            ctx.ob(ok, m, '%s.%s builds %s(self, other) in that order: %s' % (c.name, d, cls.split('.')[1], [norm(r) for r in rets]))
    if n < 11:
        raise AnalysisError('C10.6 matched %d operator overloads, floor 11' % n)


@rule('C10.11')
def validator_verdict(ctx):
    """a Check validator rejects by raising or by returning the object False -- nothing else: the
    verdict test is ``validator(target) is False``.  A truth test would reject every falsy result
    of a converting / measuring validator (int('0'), len(''), 0.0)"""
    u = ctx.unit('matching.Check.glomit')
    cfg = ctx.cfg(u)
    raises = [n for n in cfg.nodes if n.kind == 'stmt' and isinstance(n.ast, ast.Raise) and n.ast.exc is not None
              and isinstance(n.ast.exc, ast.Attribute) and n.ast.exc.attr == '_ValidationError']
    ctx.require(len(raises) >= 1, 'Check.glomit: the validation-failure raise not found')
    loops = [n for n in u.own_nodes() if isinstance(n, ast.For)]
    vvars = set()
    for lp in loops:
        vvars.update(x.id for x in ast.walk(lp.target) if isinstance(x, ast.Name))
    for r in raises:
        hdr = r.loop_stack[-1] if r.loop_stack else None
        ctl = [t for t in cfg.nodes if t.kind == 'test' and t is not hdr and hdr in t.loop_stack
               and (r in exclusive(cfg, t, 'true') or r in exclusive(cfg, t, 'false'))]
        ok = len(ctl) == 1
        shown = [norm(t.ast) for t in ctl]
        if ok:
            t = ctl[0]
            c = t.ast
            ok = isinstance(c, ast.Compare) and len(c.ops) == 1 and isinstance(c.ops[0], ast.Is) \
                and isinstance(c.comparators[0], ast.Constant) and c.comparators[0].value is False \
                and r in exclusive(cfg, t, 'true')
            if ok:
                v = deref(cfg, t, c.left)
                ok = isinstance(v, ast.Call) and is_name(v.func) and v.func.id in vvars and len(v.args) == 1 \
                    and is_name(v.args[0], u.params[1])
        ctx.ob(ok, u, 'a validator rejects only by returning False itself: %s' % shown,
               '' if ok else 'any other falsy result (0, \'\', [], 0.0) of a validator is taken for a rejection', node=r.ast)
    ctx.floor(1)


@rule('C10.12')
def check_default_is_an_argument(ctx):
    """every way Check hands out its default evaluates it as an argument (arg_val: containers
    rebuilt, nested specs replaced by their values) -- the validate= branch included: returning
    the stored object itself gives the caller the spec's own list / an unevaluated T"""
    u = ctx.unit('matching.Check.glomit')
    rets = [r for r in u.own_nodes() if isinstance(r, ast.Return) and r.value is not None
            and any(isinstance(x, ast.Attribute) and x.attr == 'default' and is_name(x.value, u.params[0]) for x in ast.walk(r.value))]
    ctx.require(len(rets) >= 3, 'Check.glomit: default returns not found (%d)' % len(rets))
    for r in rets:
        ok = matches(r.value, 'arg_val(%s, %s.default, %s)' % (u.params[1], u.params[0], u.params[2]))
        ctx.ob(ok, u, 'the default is evaluated as an argument: %s' % norm(r),
               '' if ok else 'the stored default object itself is returned (shared between evaluations, nested specs unevaluated)', node=r)
    ctx.floor(3)


@rule('C10.13')
def reflected_operators_keep_operand_order(ctx):
    """``x & m`` with x not supporting & reaches ``m.__rand__(x)``: the result must be And(x, m)
    (children are evaluated left to right and the last result is the value).  An alias
    ``__rand__ = __and__`` builds And(m, x)"""
    p = ctx.program
    n = 0
    for cq in ('matching._MExpr', 'matching._MType', 'matching._Bool', 'matching.And', 'matching.Or', 'matching.Not'):
        c = ctx.cls(cq)
        for rname, fwd, comb in (('__rand__', '__and__', 'matching.And'), ('__ror__', '__or__', 'matching.Or')):
            if not c.defines(rname):
                continue
            n += 1
            m = c.methods.get(rname)
            ok = False
            detail = '%s is an alias of %s: the operands are swapped' % (rname, fwd)
            if m is not None and m.name == rname and len(m.params) == 2:
                rets = [r for r in m.own_nodes() if isinstance(r, ast.Return)]
                ok = len(rets) == 1 and isinstance(rets[0].value, ast.Call) and callee_qual(p, m, rets[0].value) == comb \
                    and len(rets[0].value.args) == 2 and is_name(rets[0].value.args[0], m.params[1]) and is_name(rets[0].value.args[1], m.params[0])
                detail = '' if ok else 'does not build %s(other, self)' % comb.split('.')[1]
            ctx.ob(ok, c, '%s.%s builds the combinator with the left operand first' % (c.name, rname), detail)
    ctx.require(n >= 2, 'reflected operators of M expressions not found (%d)' % n)
    ctx.floor(2)


@rule('C10.15')
def flattening_keeps_defaults(ctx):
    """``a & b`` on an And, ``a | b`` on an Or flatten into one combinator to save a layer.  That
    is the same pattern only when the left operand has no default of its own: And(x, default=D) & y
    means And(And(x, default=D), y) -- D stands in for a failing x and y is still tried -- while
    the flattened And(x, y) just fails"""
    p = ctx.program
    n = 0
    for cq, m in (('matching.And', '__and__'), ('matching.Or', '__or__')):
        c = ctx.cls(cq)
        u = c.methods.get(m)
        ctx.require(u is not None, '%s.%s not found' % (cq, m))
        cfg = ctx.cfg(u)
        flat = [nd for nd in cfg.nodes if nd.kind == 'stmt' and isinstance(nd.ast, ast.Return) and isinstance(nd.ast.value, ast.Call)
                and any(isinstance(a, ast.Starred) for a in nd.ast.value.args)]
        ctx.require(len(flat) >= 1, '%s.%s: flattening construction not found' % (cq, m))
        for nd in flat:
            n += 1
            ok = False
            for t in cfg.nodes:
                if t.kind == 'test':
                    pol = polarity(t.ast, '%s.default is _MISSING' % u.params[0])
                    if pol and nd in exclusive(cfg, t, pol):
                        ok = True
            ctx.ob(ok, u, '%s.%s flattens only an operand without a default of its own: %s' % (c.name, m, norm(nd.ast)[:60]),
                   '' if ok else 'the left operand\'s default= is dropped by the flattening', node=nd.ast)
    ctx.floor(2)


@rule('C10.21')
def defaults_are_evaluated_in_the_combinators_own_frame(ctx):
    """a default= of Switch / And / Or / Not / Check is evaluated as an argument in the frame of the
    combinator itself: ``arg_val(target, self.default, scope)`` with the method's own scope.  In a
    chained child of that frame the default would be nested under the last failed key / operand
    (its failure is rendered as that branch's error, and the key's own failure disappears)"""
    p = ctx.program
    n = 0
    for u in p.package_units():
        if u.module.short != 'matching' or u.cls is None or u.name not in ('glomit', '_glomit') or len(u.params) < 3:
            continue
        for c in calls_in(u):
            if callee_qual(p, u, c) != 'core.arg_val' or len(c.args) < 3:
                continue
            if not (isinstance(c.args[1], ast.Attribute) and c.args[1].attr == 'default'):
                continue
            n += 1
            ok = is_name(c.args[2], u.params[2]) and is_name(c.args[0], u.params[1])
            ctx.ob(ok, u, '%s evaluates its default on its own target, in its own frame: %s' % (u.cls.name, norm(c)),
                   '' if ok else 'the default runs in %s: a different frame (or target) than the combinator\'s' % norm(c.args[2])[:40], node=c)
    ctx.require(n >= 4, 'default evaluations of the matching combinators not found (%d)' % n)
    ctx.floor(4)
