"""C15 -- Fold, Sum, Flatten, Merge equal plain-Python reductions and mutate no input."""
import ast

from . import rule, info
from ..program import AnalysisError, src, norm, ClassInfo
from ..affine import linear, NotAffine
from ..tables import EAGER_CONSUMERS
from ..util import (polarity, branch_of, exclusive, is_name, calls_in, callee_qual, deref, ancestors, stmt_of, parent, handler_outcomes,
                    handler_covers, evaluator_calls, raised_class, is_subclass)
from .common import option_usage
from ..pattern import match, matches

info('C15',
     explanation='Static decision of: accumulator provenance (the first argument of every op(...) call in the '
                 'fold / aggregate methods is the result of self.init() evaluated in that method, the previous '
                 'op result, or the accumulator-tree slot holding one of these -- never an element of the input); '
                 'init is stored as a factory and called per evaluation; no effect in reduction.py has an '
                 'input-reachable base; a non-iterable target is converted to FoldError; the lazy Flatten path '
                 'returns a lazy combinator with no eager consumer; constructor options are consulted; '
                 'flatten(levels=n) builds exactly n Flatten steps; Sum/Count/Merge pass the documented init/op.',
     decided=['C15.1 accumulator provenance', 'C15.2 inputs never written', 'C15.3 FoldError', 'C15.4 lazy stays lazy',
              'C15.5 options honoured', 'C15.6 helper construction', 'C15.7 fold wiring'],
     not_decided=['equality with functools.reduce / sum / chain / dict.update'])

FOLD_UNITS = ['reduction.Fold._fold', 'reduction.Merge._fold']
AGG_UNITS = ['reduction.Fold._agg', 'reduction.Merge._agg']


def _is_init_call(e):
    return isinstance(e, ast.Call) and isinstance(e.func, ast.Attribute) and e.func.attr == 'init' \
        and is_name(e.func.value, 'self') and not e.args and not e.keywords


def _op_calls(u):
    """calls of the fold operator: self.op(...) or a local bound to self.op"""
    opnames = set()
    for n in u.own_nodes():
        if isinstance(n, ast.Assign):
            tg, v = n.targets[0], n.value
            if isinstance(tg, ast.Tuple) and isinstance(v, ast.Tuple):
                for a, b in zip(tg.elts, v.elts):
                    if isinstance(b, ast.Attribute) and b.attr == 'op' and is_name(a):
                        opnames.add(a.id)
            elif isinstance(v, ast.Attribute) and v.attr == 'op' and is_name(tg):
                opnames.add(tg.id)
    out = []
    for c in calls_in(u):
        if (isinstance(c.func, ast.Attribute) and c.func.attr == 'op' and is_name(c.func.value, 'self')) or \
                (isinstance(c.func, ast.Name) and c.func.id in opnames):
            out.append(c)
    return out


@rule('C15.1')
def accumulator_provenance(ctx):
    p = ctx.program
    fold_cls = ctx.cls('reduction.Fold')
    fold_units, agg_units = [], []
    for c_ in p.subclasses(fold_cls):
        if '_fold' in c_.methods:
            fold_units.append(c_.methods['_fold'].qualname)
        if '_agg' in c_.methods:
            agg_units.append(c_.methods['_agg'].qualname)
    ctx.require('reduction.Fold._fold' in fold_units and 'reduction.Fold._agg' in agg_units, 'fold / aggregate methods not found')
    for q in fold_units:
        u = ctx.unit(q)
        cfg = ctx.cfg(u)
        ops = _op_calls(u)
        if q == 'reduction.Flatten._fold' and not ops:
            continue      # delegates to Fold._fold / a lazy combinator (C15.4)
        ctx.require(len(ops) == 1, '%s: fold operator call not found' % q)
        c = ops[0]
        cn = cfg.node_containing(c)
        a0 = c.args[0]
        ctx.require(isinstance(a0, ast.Name), '%s: accumulator argument is not a variable' % q)
        acc = a0.id
        kinds = set()
        for dn, v in cfg.reaching_defs(cn, acc):
            if isinstance(v, ast.AST) and (_is_init_call(v)):
                kinds.add('init')
            elif isinstance(v, tuple) and v[0] == 'unpack':
                # ret, op = self.init(), self.op  is split element-wise by the CFG; a true unpack is opaque
                kinds.add('other:unpack')
            elif isinstance(v, ast.AST) and v is c:
                kinds.add('previous')
            else:
                kinds.add('other:' + (norm(v) if isinstance(v, ast.AST) else str(v[0])))
        allowed = {'init', 'previous'}
        ctx.ob(bool(kinds) and kinds <= allowed and 'init' in kinds, u,
               'the accumulator of `%s` is self.init() or the previous result' % norm(c),
               'reaching definitions of %s: %s' % (acc, sorted(kinds)), node=c)
        # the item folded in is the loop variable
        lp = [a for a in ancestors(c) if isinstance(a, ast.For)]
        ok = bool(lp) and is_name(c.args[1], lp[0].target.id if is_name(lp[0].target) else None) and is_name(lp[0].iter, u.params[1])
        ctx.ob(ok, u, 'every item of the iterator is folded in, in order: %s' % norm(c), node=c)
        rets = [n for n in u.node.body if isinstance(n, ast.Return)]
        ctx.ob(len(rets) == 1 and is_name(rets[0].value, acc), u, 'the accumulator is the result: %s' % [norm(r) for r in rets])
        # self.init() is evaluated in this method, once, outside the loop
        inits = [x for x in calls_in(u) if _is_init_call(x)]
        ctx.ob(len(inits) == 1 and not cfg.node_containing(inits[0]).loop_stack, u, 'init() is called once per evaluation, in the method')
    for q in agg_units:
        u = ctx.unit(q)
        cfg = ctx.cfg(u)
        ops = _op_calls(u)
        # anything stored into the spec's tree slot is init() or an operator result
        slot_stores = [n for n in u.own_nodes() if isinstance(n, ast.Assign) and any(
            isinstance(t, ast.Subscript) and is_name(t.value, u.params[2]) and is_name(t.slice, 'self') for t in n.targets)]
        for st_ in slot_stores:
            v = deref(cfg, cfg.node_of(st_), st_.value)
            okv = _is_init_call(v) or (isinstance(v, ast.Call) and v in ops)
            ctx.ob(okv, u, 'the accumulator slot only ever holds init() or an operator result: %s' % norm(st_),
                   '' if okv else 'an input item is adopted as the accumulator (later items are folded into the caller\'s own object)', node=st_)
        ctx.require(len(ops) == 1, '%s: aggregate operator call not found' % q)
        c = ops[0]
        a0 = deref(cfg, cfg.node_containing(c), c.args[0])
        tree = u.params[2]
        ok = False
        if isinstance(a0, ast.Subscript) and is_name(a0.value, tree) and is_name(a0.slice, 'self'):
            ok = True
        elif isinstance(c.args[0], ast.Name):
            ds = cfg.reaching_defs(cfg.node_containing(c), c.args[0].id)
            ok = bool(ds) and all(isinstance(v, ast.AST) and (_is_init_call(v) or
                                  (isinstance(v, ast.Subscript) and is_name(v.value, tree) and is_name(v.slice, 'self')))
                                  for _, v in ds)
        ctx.ob(ok, u, 'the accumulator of `%s` is this spec\'s slot of the accumulator tree' % norm(c), node=c)
        ctx.ob(is_name(c.args[1], u.params[1]), u, 'the incoming item is folded in: %s' % norm(c))
        st = [n for n in u.own_nodes() if isinstance(n, ast.Assign) and any(
            isinstance(t, ast.Subscript) and is_name(t.value, tree) and is_name(t.slice, 'self') for t in n.targets)]
        init_st = [s for s in st if _is_init_call(deref(cfg, cfg.node_of(s), s.value))]
        ok = len(init_st) == 1
        if ok:
            g = [a for a in ancestors(init_st[0]) if isinstance(a, ast.If)]
            pol = polarity(g[0].test, 'self in %s' % tree) if g else None
            # initialised in the branch taken when the slot is absent
            ok = pol is not None and branch_of(g[0], init_st[0]) == ('false' if pol == 'true' else 'true')
        ctx.ob(ok, u, 'the slot is initialised with init() exactly when absent: %s' % [norm(s) for s in init_st])
    # init is stored as a factory, never called at construction (except Merge's probe, which is discarded)
    iu = ctx.unit('reduction.Fold.__init__')
    st = [n for n in iu.own_nodes() if isinstance(n, ast.Assign) and isinstance(n.targets[0], ast.Attribute) and n.targets[0].attr == 'init']
    ctx.ob(len(st) == 1 and is_name(st[0].value, 'init'), iu, 'init is kept as a factory: %s' % [norm(s) for s in st])
    # the caller's subspec / init / op are stored as given (a substituted operator changes what the fold computes)
    for prm in ('subspec', 'init', 'op'):
        sts = [n for n in iu.own_nodes() if isinstance(n, ast.Assign) and isinstance(n.targets[0], ast.Attribute)
               and n.targets[0].attr == prm and is_name(n.targets[0].value, iu.params[0])]
        rebound = [n for n in iu.own_nodes() if isinstance(n, ast.Name) and n.id == prm and isinstance(n.ctx, ast.Store)]
        ok = len(sts) == 1 and is_name(sts[0].value, prm) and not rebound and prm in iu.params
        ctx.ob(ok, iu, 'Fold keeps the %s it was given: %s' % (prm, [norm(x) for x in sts]),
               '' if ok else ('the parameter is rebound at line(s) %s' % [n.lineno for n in rebound] if rebound else ''))
    mu = ctx.unit('reduction.Merge.__init__')
    probes = [c for c in calls_in(mu) if is_name(c.func, 'init')]
    for c in probes:
        st = stmt_of(c)
        if isinstance(parent(c), ast.Call) and is_name(parent(c).func, 'type') and len(parent(c).args) == 1:
            ok = True       # type(init()) directly
        else:
            v = st.targets[0].id if isinstance(st, ast.Assign) and st.value is c and is_name(st.targets[0]) else None
            uses = [n for n in mu.own_nodes() if isinstance(n, ast.Name) and n.id == v and isinstance(n.ctx, ast.Load)]
            ok = v is not None and all(isinstance(parent(x), ast.Call) and is_name(parent(x).func, 'type') for x in uses)
        ctx.ob(ok, mu, 'Merge\'s constructor probe of init() is only used for its type: %s' % norm(st))
    ctx.floor(14)


@rule('C15.2')
def inputs_untouched(ctx):
    an = ctx.analysis
    effs = [e for e in an.all_effects() if e.unit.module.short == 'reduction']
    data = ('target', 'iterator', 'v', 'val')
    bad = 0
    for e in effs:
        hit = [t for t in e.origins if t[0] in ('param', 'reach') and t[1] in data]
        if hit:
            bad += 1
            ctx.ob(False, e.unit, 'reductions never write into their input: %s' % e.text(),
                   '%s on %s reaching %s' % (e.kind, src(e.base), sorted(hit)[:3]), node=e.node)
    ctx.ob(bad == 0, 'glom/reduction.py', '%d effect sites in reduction.py, none with an input-reachable base' % len(effs))
    ctx.require(len(effs) >= 8, 'only %d effect sites in reduction.py' % len(effs))
    ctx.floor(1)


@rule('C15.3')
def fold_error(ctx):
    p = ctx.program
    u = ctx.unit('reduction.Fold.glomit')
    cfg = ctx.cfg(u)
    folds = [c for c in calls_in(u) if isinstance(c.func, ast.Attribute) and c.func.attr == '_fold']
    ctx.require(len(folds) == 1, 'Fold.glomit: _fold call not found')
    fn = cfg.node_containing(folds[0])
    hs = cfg.handlers_reached_from(fn)
    ok = len(hs) == 1 and p.global_qualname(u, hs[0].ast.type) == 'core.UnregisteredTarget'
    ctx.ob(ok, u, 'a target without an iterate handler is caught: except %s' % [src(h.ast.type) for h in hs if h.ast.type is not None])
    for h in hs:
        rs = [r for r in ast.walk(h.ast) if isinstance(r, ast.Raise)]
        ok = len(rs) == 1 and is_subclass(raised_class(p, u, rs[0]), 'FoldError') and \
            all(k.startswith('raise-new') for k in handler_outcomes(cfg, h))
        ctx.ob(ok, u, 'and converted to FoldError: %s' % [src(r, 60) for r in rs])
    it = folds[0].args[0]
    ok = isinstance(it, ast.Call) and callee_qual(p, u, it) == 'grouping.target_iter' and is_name(it.args[0], u.params[1]) \
        and is_name(it.args[1], u.params[2])
    ctx.ob(ok, u, 'the fold runs over the registered iteration of the (sub)target: %s' % norm(it))
    okret = isinstance(fn.ast, ast.Return) and fn.ast.value is folds[0]
    if not okret and isinstance(fn.ast, ast.Assign) and is_name(fn.ast.targets[0]) and fn.ast.value is folds[0]:
        # ``ret = self._fold(..)`` inside the try, ``return ret`` after it
        rv_ = fn.ast.targets[0].id
        after = [n for n in cfg.nodes if n.kind == 'stmt' and isinstance(n.ast, ast.Return) and is_name(n.ast.value, rv_)]
        okret = bool(after) and all([d for d, _ in cfg.reaching_defs(n, rv_)] == [fn] for n in after) \
            and cfg.find_path(fn, {cfg.exit}, avoid=set(after), labels=lambda l: l != 'exc') is None
    ctx.ob(okret, u, 'the fold result is returned unchanged')
    c = ctx.cls('reduction.FoldError')
    ctx.ob(c.is_subclass_of('GlomError'), c, 'FoldError is a GlomError')
    ctx.floor(5)


@rule('C15.4')
def lazy(ctx):
    p = ctx.program
    u = ctx.unit('reduction.Flatten._fold')
    cfg = ctx.cfg(u)
    tests = [(n, polarity(n.ast, 'self.lazy')) for n in cfg.nodes if n.kind == 'test']
    tests = [(n, e) for n, e in tests if e]
    ok = len(tests) == 1
    ctx.ob(ok, u, 'the lazy option selects the lazy path')
    if ok:
        t, lazy_edge = tests[0]
        lz = [n for n in exclusive(cfg, t, lazy_edge) if n.kind == 'stmt']
        ok = len(lz) == 1 and isinstance(lz[0].ast, ast.Return)
        ctx.ob(ok, u, 'the lazy path is a single return: %s' % [norm(n.ast) for n in lz])
        if ok:
            v = lz[0].ast.value
            q = callee_qual(p, u, v) if isinstance(v, ast.Call) else None
            ctx.ob(q == 'itertools.chain.from_iterable' and len(v.args) == 1 and is_name(v.args[0], u.params[1]), u,
                   'lazy flattening is chain.from_iterable over the iterator itself: %s' % norm(v))
            eager = [c for c in ast.walk(lz[0].ast) if isinstance(c, ast.Call) and isinstance(c.func, ast.Name) and c.func.id in EAGER_CONSUMERS]
            ctx.ob(not eager, u, 'no eager consumer on the lazy path', '%s' % [norm(e) for e in eager])
        rest = [n.ast for n in exclusive(cfg, t, 'false' if lazy_edge == 'true' else 'true') if n.kind == 'stmt']
        ok = len(rest) == 1 and isinstance(rest[0], ast.Return) and isinstance(rest[0].value, ast.Call) \
            and norm(rest[0].value) == 'super()._fold(%s)' % u.params[1]
        ctx.ob(ok, u, 'otherwise the generic fold is used: %s' % [norm(r) for r in rest])
    iu = ctx.unit('reduction.Flatten.__init__')
    # what self.lazy holds at the end of the constructor, with the test on init decided either way
    from ..util import case_paths
    prm = 'init'
    stored = {}
    for case in (True, False):
        outs, _ = case_paths(iu.node.body, lambda t, case=case: case if norm(t) in ("%s == 'lazy'" % prm, "'lazy' == %s" % prm) else
                             (not case if norm(t) in ("%s != 'lazy'" % prm,) else None))
        vals = set()
        for kind, e, st, env in outs:
            v = env.get('%s.lazy' % iu.params[0])
            vals.add(norm(v) if v is not None else None)
        stored[case] = vals
    ok = stored[True] == {'True'} and stored[False] == {'False'}
    ctx.ob(ok, iu, "init='lazy' turns the lazy path on, anything else off")
    ctx.floor(5)


@rule('C15.5')
def options(ctx):
    option_usage(ctx, ['reduction.Fold', 'reduction.Flatten', 'reduction.Merge'])
    ctx.floor(4)


def _kw_pops(u):
    """local name -> (keyword, default expr) for ``x = kwargs.pop('k', d)``"""
    out = {}
    for n in u.own_nodes():
        if isinstance(n, ast.Assign) and is_name(n.targets[0]):
            b = match(n.value, "%s.pop($$k, $$d)" % u.kwarg) if u.kwarg else None
            if b and isinstance(b['k'], ast.Constant):
                out[b['k'].value] = (n.targets[0].id, b['d'])
    return out


@rule('C15.6')
def helpers(ctx):
    p = ctx.program
    u = ctx.unit('reduction.flatten')
    kw = _kw_pops(u)
    ctx.require({'spec', 'init', 'levels'} <= set(kw), 'flatten(): keyword options not found: %s' % sorted(kw))
    subv, initv, levv = kw['spec'][0], kw['init'][0], kw['levels'][0]
    ctx.ob(norm(kw['levels'][1]) == '1' and norm(kw['init'][1]) == 'list' and norm(kw['spec'][1]) == 'T', u,
           'defaults: spec=T, init=list, levels=1')
    z = [n for n in u.node.body if isinstance(n, ast.If) and matches(n.test, '%s == 0' % levv)]
    # zero levels: the 0-fold chain over glom(target, spec) is glom(target, spec) -- the spec still applies
    okz = len(z) == 1 and isinstance(z[0].body[0], ast.Return)
    rz = z[0].body[0].value if okz else None
    okz = okz and isinstance(rz, ast.Call) and callee_qual(ctx.program, u, rz) == 'core.glom' and len(rz.args) == 2 and not rz.keywords \
        and is_name(rz.args[0], u.params[0]) and is_name(rz.args[1], subv)
    ctx.ob(okz, u, 'levels=0 is the value of the spec on the target, unflattened: %s' % (norm(z[0].body[0]) if z else None),
           '' if okz else 'the spec= option is ignored when levels == 0: flatten(t, spec=s, levels=0) must equal glom(t, s)')
    neg = [n for n in u.node.body if isinstance(n, ast.If) and matches(n.test, '%s < 0' % levv)]
    ctx.ob(len(neg) == 1 and isinstance(neg[0].body[0], ast.Raise), u, 'negative levels are refused')
    # spec = (subspec,) + (Flatten(init='lazy'),) * (levels - 1) + (Flatten(init=init),)
    r = [n for n in u.node.body if isinstance(n, ast.Return) and isinstance(n.value, ast.Call) and callee_qual(p, u, n.value) == 'core.glom']
    ctx.require(len(r) == 1 and len(r[0].value.args) > 1, 'flatten(): final glom(target, spec) not found')

    def terms(e, skip=None):
        if isinstance(e, ast.BinOp) and isinstance(e.op, ast.Add):
            return terms(e.left, skip) + terms(e.right, skip)
        return [] if skip and is_name(e, skip) else [e]
    sa_ = r[0].value.args[1]
    parts = []
    if is_name(sa_):
        for n in u.node.body:
            if isinstance(n, (ast.Assign, ast.AugAssign)) and is_name(n.targets[0] if isinstance(n, ast.Assign) else n.target, sa_.id):
                parts += terms(n.value, sa_.id)
    else:
        parts = terms(sa_)
    try:
        cnt = (0, 0)
        for v in parts:
            if isinstance(v, ast.BinOp) and isinstance(v.op, ast.Mult) and isinstance(v.left, ast.Tuple):
                k = linear(v.right, {levv: (1, 0)})
                f = sum(1 for e in v.left.elts if isinstance(e, ast.Call) and callee_qual(p, u, e) == 'reduction.Flatten')
                cnt = (cnt[0] + k[0] * f, cnt[1] + k[1] * f)
            elif isinstance(v, ast.Tuple):
                f = sum(1 for e in v.elts if isinstance(e, ast.Call) and callee_qual(p, u, e) == 'reduction.Flatten')
                cnt = (cnt[0], cnt[1] + f)
        n_flat = cnt
    except NotAffine:
        n_flat = None
    ctx.ob(n_flat == (1, 0), u, 'flatten(levels=n) chains exactly n Flatten steps', 'counted %s*levels + %s' % (n_flat or ('?', '?')))
    ok = len(parts) >= 1 and isinstance(parts[0], ast.Tuple) and len(parts[0].elts) == 1 and is_name(parts[0].elts[0], subv)
    ctx.ob(ok, u, "the chain starts with the caller's spec")
    fl = [c for c in calls_in(u) if callee_qual(p, u, c) == 'reduction.Flatten']
    inits = sorted(norm(k.value) for c in fl for k in c.keywords if k.arg == 'init')
    ctx.ob(inits == sorted(["'lazy'", initv]), u, "inner levels are lazy, the last level builds the caller's init type: %s" % inits)
    last = parts[-1] if parts else None
    ok = isinstance(last, ast.Tuple) and len(last.elts) == 1 and isinstance(last.elts[0], ast.Call) and \
        any(k.arg == 'init' and is_name(k.value, initv) for k in last.elts[0].keywords)
    ctx.ob(ok, u, 'the eager level comes last')
    ctx.ob(is_name(r[0].value.args[0], u.params[0]), u, 'and is evaluated on the target: %s' % [norm(x) for x in r])
    # merge()
    u = ctx.unit('reduction.merge')
    kw = _kw_pops(u)
    r = [n for n in u.node.body if isinstance(n, ast.Return)]
    ok = {'spec', 'init', 'op'} <= set(kw) and len(r) == 1 and isinstance(r[0].value, ast.Call) and callee_qual(p, u, r[0].value) == 'core.glom'
    if ok:
        sp = deref(ctx.cfg(u), ctx.cfg(u).node_of(r[0]), r[0].value.args[1])
        ok = is_name(r[0].value.args[0], u.params[0]) and isinstance(sp, ast.Call) and callee_qual(p, u, sp) == 'reduction.Merge' \
            and [a.id if isinstance(a, ast.Name) else None for a in sp.args] == [kw['spec'][0], kw['init'][0], kw['op'][0]]
    ctx.ob(ok, u, 'merge() is glom(target, Merge(spec, init, op))')
    # Sum / Count / Merge constructor arguments
    su = ctx.unit('reduction.Sum.__init__')
    c = [x for x in calls_in(su) if isinstance(x.func, ast.Attribute) and x.func.attr == '__init__']
    kw = {k.arg: norm(k.value) for k in c[0].keywords} if c else {}
    ctx.ob(kw == {'subspec': 'subspec', 'init': 'init', 'op': 'operator.iadd'} and su.node.args.defaults and
           norm(su.node.args.defaults[-1]) == 'int', su, 'Sum folds with += from init() (default int): %s' % kw)
    cu = ctx.unit('reduction.Count.__init__')
    lam = [x for x in cu.own_nodes() if isinstance(x, ast.Lambda)]
    ok = len(lam) == 1 and norm(lam[0].body) == '%s + 1' % lam[0].args.args[0].arg
    ctx.ob(ok, cu, 'Count adds one per item: %s' % [norm(l) for l in lam])
    fu = ctx.unit('reduction.Flatten.__init__')
    c = [x for x in calls_in(fu) if isinstance(x.func, ast.Attribute) and x.func.attr == '__init__']
    kw = {k.arg: norm(k.value) for k in c[0].keywords} if c else {}
    ctx.ob(kw == {'subspec': 'subspec', 'init': 'init', 'op': 'operator.iadd'}, fu, 'Flatten folds with += : %s' % kw)
    mu = ctx.unit('reduction.Merge.__init__')
    ga = [x for x in calls_in(mu) if is_name(x.func, 'getattr')]
    ok = len(ga) == 1 and matches(ga[0], 'getattr(type($$t), op, None)')
    if ok:
        tv = match(ga[0], 'getattr(type($$t), op, None)')['t']
        mcfg = ctx.cfg(mu)
        tv = deref(mcfg, mcfg.node_containing(ga[0]), tv)
        ok = matches(tv, 'init()')
    ctx.ob(ok, mu, 'a named op is looked up on the type of init(): %s' % [norm(g) for g in ga])
    d = [n for n in mu.own_nodes() if isinstance(n, ast.If) and norm(n.test) == 'op is None']
    ok = len(d) == 1 and norm(d[0].body[0]) == "op = 'update'"
    ctx.ob(ok, mu, 'the default op is update')
    ctx.floor(13)


@rule('C15.7')
def wiring(ctx):
    p = ctx.program
    u = ctx.unit('reduction.Fold.glomit')
    cfg = ctx.cfg(u)
    evs = evaluator_calls(p, u)
    from ..util import polarity, exclusive
    nonexc = lambda lab: lab != 'exc'
    ens = [cfg.node_containing(e) for e in evs]
    ok = len(evs) >= 1 and all(is_name(e.args[0], u.params[1]) and norm(e.args[1]) == 'self.subspec' for e in evs) \
        and not any(a is not b and cfg.find_path(a, {b}, labels=nonexc) is not None for a in ens for b in ens)
    ctx.ob(ok, u, 'the subspec is evaluated on the target first, once: %s' % [norm(e) for e in evs])
    guards = [(t, polarity(t.ast, 'self.subspec is not T')) for t in cfg.nodes if t.kind == 'test']
    guards = [(t, e) for t, e in guards if e]
    for e, en in zip(evs, ens):
        st = stmt_of(e)
        ctx.ob(isinstance(st, ast.Assign) and is_name(st.targets[0], u.params[1]), u, 'its value is what gets folded', node=e)
        g = [t for t, edge in guards if en in exclusive(cfg, t, edge)]
        ctx.ob(bool(g), u, 'T means the target itself', node=e)
    # every consumer of the target comes after that decision
    cons = [c for c in calls_in(u) if isinstance(c.func, ast.Attribute) and c.func.attr in ('_fold', '_agg') and is_name(c.func.value, u.params[0])]
    for c in cons:
        cn = cfg.node_containing(c)
        okc = False
        for t, edge in guards:
            if cfg.dominates(t, cn):
                evs_here = {n for n in ens if n in exclusive(cfg, t, edge)}
                okp, _ = cfg.must_pass(t, {cn}, evs_here, labels=nonexc, start_labels=lambda l, e_=edge: l == e_)
                okc = okc or (bool(evs_here) and okp)
        ctx.ob(okc, u, 'a subspec other than T is evaluated before %s' % norm(c)[:50], node=c)
    tu = ctx.unit('grouping.target_iter')
    gh = [c for c in calls_in(tu) if isinstance(c.func, ast.Attribute) and c.func.attr == 'get_handler']
    ok = len(gh) == 1 and gh[0].args[0].value == 'iterate' and is_name(gh[0].args[1], tu.params[0])
    ctx.ob(ok, tu, "iteration uses the target's registered 'iterate' handler")
    r = [n for n in tu.own_nodes() if isinstance(n, ast.Return)]
    hv = None
    for n in tu.own_nodes():
        if isinstance(n, ast.Assign) and is_name(n.targets[0]) and gh and n.value is gh[0]:
            hv = n.targets[0].id
    tcfg = ctx.cfg(tu)
    rv = [deref(tcfg, tcfg.node_of(x), x.value) for x in r if x.value is not None]
    ok = len(rv) >= 1 and hv is not None and all(isinstance(v, ast.Call) and is_name(v.func, hv) and len(v.args) == 1
                                                and is_name(v.args[0], tu.params[0]) for v in rv)
    ctx.ob(ok, tu, 'and returns iterate(target) itself (no materialisation)')
    ctx.floor(5)


@rule('C15.9')
def text_is_not_iterable(ctx):
    """the default 'iterate' registration (what Fold / Flatten / Merge reach through target_iter)
    treats exactly str and bytes as scalars; everything else with __iter__ is iterable"""
    import itertools
    from ..util import boolean_function, Undecidable
    u = ctx.unit('core._AbstractIterable.__subclasshook__')
    c = u.params[1]
    try:
        atoms, f = boolean_function(u)
    except Undecidable as e:
        ctx.ob(False, u, 'the iterability test is a decision over the candidate class', str(e))
        return
    TEXT = [a for a in atoms if a in ('%s in (str, bytes)' % c, '%s in (bytes, str)' % c)]
    ITER = "callable(getattr(%s, '__iter__', None))" % c
    ok = len(TEXT) == 1 and set(atoms) == {TEXT[0], ITER}
    ctx.ob(ok, u, 'text scalars are excluded by identity with str / bytes: %s' % atoms,
           '' if ok else 'expected the conditions `%s in (str, bytes)` and `%s` only' % (c, ITER))
    if ok:
        table = {vals: f(dict(zip((TEXT[0], ITER), vals))) for vals in itertools.product((False, True), repeat=2)}
        ctx.ob(not table[(True, False)] and not table[(True, True)], u, 'str and bytes are not iterable targets')
        ctx.ob(table[(False, True)] and not table[(False, False)], u,
               'any other class with a callable __iter__ is (and only those): %s' % sorted(table.items()))
    ctx.floor(2)
