"""cross-registrations: a structural clause that several properties depend on is
decided under each of them (same rule function, the property's own rule id)"""
from . import rule
from . import c01, c02, c03, c04, c05, c06, c07, c08, c09, c10, c11, c12, c13, c14, c15, c16, c17, c20

# C02: arguments are evaluated by a per-call valuator in a bracketed argument mode
rule('C02.6')(c06.per_evaluation_state)
rule('C02.7')(c08.arg_mode_bracketed)
rule('C02.8')(c08.cycle_memo)

# C03: composition of tuple steps / Coalesce defaults / Call+Invoke arguments relies on the same machinery
rule('C03.10')(c08.arg_mode_bracketed)
rule('C03.11')(c17.builders_pure)
rule('C03.12')(c17.copy_on_write)
rule('C03.13')(c08.mode_reset_on_recycle)
rule('C03.14')(c02.call_parts)                  # Call combines its parts once each, left to right

# C04: the translation keeps no state between calls
rule('C04.10')(c20.finalisation)

# C06: history independence includes the registry memo and the builders
rule('C06.7')(c13.memo_invalidation)
rule('C06.8')(c13.memo_key)
rule('C06.9')(c17.builders_pure)
rule('C06.10')(c15.accumulator_provenance)
rule('C06.11')(c16.per_evaluation_accumulators)
rule('C06.12')(c17.no_state_in_builders)

# C20: per-call frames, roots and evaluation state
rule('C20.5')(c07.per_call_roots)
rule('C20.6')(c07.child_frame)
rule('C20.7')(c06.per_evaluation_state)
rule('C20.8')(c06.closed_inventory)
rule('C20.9')(c16.per_evaluation_accumulators)
rule('C20.10')(c08.arg_mode_bracketed)
rule('C20.11')(c07.caller_scope_copied)
rule('C20.12')(c06.specs_not_written)
rule('C20.13')(c17.no_state_in_builders)

# C16 / C15: accumulators
rule('C16.7')(c15.accumulator_provenance)

# C13: isolation depends on per-instance state only (closed inventory of shared state)
rule('C13.8')(c06.closed_inventory)

# C17: spec immutability in general
rule('C17.8')(c06.specs_not_written)

# C02: the argument valuator's memo must be per call (no class / module level containers)
rule('C02.9')(c06.closed_inventory)


# C08: argument mode never calls what it is given (C02.5)
rule('C08.7')(c02.literal_passthrough)
# C07: the evaluator hands the child frame to every dispatch target; the recycler returns the direct last child
rule('C07.9')(c03.evaluator_dispatch)
rule('C07.10')(c05.recycler)
# C20 / C13: isolation and memo monotonicity
rule('C20.14')(c13.isolation)
rule('C13.9')(c20.memos_monotone)
rule('C06.13')(c20.memos_monotone)
# C15: a reducing spec keeps nothing on itself
rule('C15.8')(c06.specs_not_written)
# C18: wildcard steps are rendered as the methods that produce them
rule('C18.9')(c14.code_agreement)


# round-2 seeds: clauses shared between properties
rule('C01.10')(c13.memo_invalidation)          # the access registered for a type must be the current registration
rule('C01.11')(c13.exact_before_fuzzy)
rule('C04.11')(c15.fold_error)                 # documented subtype at the fold boundary
rule('C06.14')(c07.caller_scope_copied)        # the caller's scope mapping stays unchanged
rule('C07.11')(c09.dict_branch)                # a match-dict key chains into its own value only
rule('C08.8')(c09.dict_branch)                 # Optional defaults are evaluated in argument mode
rule('C09.9')(c10.who_is_returned)             # And / Or / Not inside patterns
rule('C11.9')(c01.layout_agreement)            # wildcard count / step layout used by the broadcast
rule('C14.7')(c01.layout_agreement)
rule('C14.8')(c01.text_paths)                  # '*' / '**' text spelling
rule('C12.6')(c11.broadcast)                   # delete acts on every wildcard match
rule('C20.15')(c13.memo_key)
# matching keeps no process-wide state (compiled patterns, memoised specs)
rule('C09.10')(c06.closed_inventory)
rule('C13.10')(c01.identity_flow)             # the accessor of a path segment always comes from the registry


# round-3 seeds: clauses shared between properties
rule('C01.12')(c13.memo_key)                   # the accessor memo must be keyed by the type itself
rule('C03.15')(c06.per_evaluation_state)       # Call / Invoke / Coalesce defaults: a fresh argument valuator per evaluation
rule('C09.11')(c06.per_evaluation_state)       # Optional / Match defaults
rule('C10.7')(c06.per_evaluation_state)        # And / Or / Switch / Check defaults
rule('C11.10')(c06.per_evaluation_state)       # the assigned value
rule('C12.7')(c01.layout_agreement)            # the wildcard count the broadcast trusts reads ops at the writer's stride
rule('C20.16')(c13.memo_invalidation)          # a registration made by one call is seen by every later / concurrent one
rule('C04.13')(c11.missing_tail)                # an access error of the value spec keeps its class (is not taken for a missing destination)
rule('C18.10')(c05.repr_limits)                 # repr round trip: a string / nesting limit left at its default changes the literal
rule('C08.9')(c16.fold_claims_in_group_mode)      # group mode ends where another mode begins
rule('C09.12')(c02.literal_passthrough)         # Optional / Match defaults: containers are rebuilt per evaluation
rule('C14.10')(c01.conversion_and_index)       # a failing entry after a wildcard is dropped only if its failure became a PathAccessError
rule('C20.17')(c05.message_memo_follows_finalisation)   # a re-entrant call's error keeps its own trace
rule('C06.15')(c05.message_memo_follows_finalisation)   # the rendered error does not depend on an earlier str()


# round-4 seeds: clauses shared between properties
rule('C01.13')(c02.literal_passthrough)         # a path segment (e.g. a namedtuple key) reaches the accessor as it was written
rule('C05.12')(c08.arg_mode_bracketed)          # an argument spec is evaluated through the evaluator (its own frame, its own trace line)
rule('C05.13')(c07.who_chains)                  # every chain step runs in a frame chained from the previous step (trace order)
rule('C06.16')(c07.vars_no_retain)              # scope variables never alias the spec's own defaults
rule('C06.17')(c16.aggregator_shapes)           # aggregators start from fresh state, never from an input item
rule('C07.12')(c01.identity_flow)               # S.name returns the bound object itself (None included)
rule('C08.10')(c11.missing_tail)                # the assigned value is evaluated once, against the real target
rule('C08.11')(c03.chaining)                    # Pipe is a chain, not a mode wrapper
rule('C11.11')(c01.conversion_and_index)        # the part index Assign(missing=) back-fills from is the failing segment's own
rule('C11.12')(c20.memos_monotone)              # a cached wildcard path is the fully translated one
rule('C12.8')(c14.child_enumeration)            # wildcard destinations: one failing child does not hide its siblings
rule('C13.11')(c12.miss_classes)                # the delete handler is looked up per destination object
rule('C14.11')(c12.miss_classes)                # ignore_missing is decided per match, the broadcast goes on
rule('C14.12')(c12.parent_miss)
rule('C14.13')(c15.text_is_not_iterable)        # str / bytes are leaves for '*' and '**'
rule('C20.18')(c09.dict_branch)                 # Optional defaults are rebuilt per evaluation
rule('C02.11')(c03.spec_predicate)               # every other argument is passed through literally: classes included
rule('C07.13')(c02.literal_passthrough)          # S(name={}) binds a fresh container, not the literal inside the spec


# round-5 seeds: clauses shared between properties
rule('C01.14')(c03.spec_predicate)              # a class used as a key / segment is a literal, not a spec
rule('C04.17')(c14.misses_dropped)              # the wildcard loop swallows PathAccessError only (other GlomErrors keep their class)
rule('C05.15')(c10.rejections)                  # every rejection is a fresh error object (the trace tells branch errors apart by identity)
rule('C08.12')(c17.sentinels_and_options)       # Iter applies its subspec in the mode in force (no early conversion)
rule('C09.13')(c10.comparison_table)            # M comparisons are decided by the Python operator alone
rule('C10.8')(c09.dispatcher)                   # atoms are decided by isinstance / call / ==, with no shortcut before the dispatch
rule('C11.13')(c14.child_enumeration)           # wildcard destinations: one unreadable child does not hide its siblings
rule('C12.9')(c02.literal_passthrough)          # a key in the parent path reaches the accessor as written
rule('C16.9')(c15.helpers)                      # Merge looks its op up on the type of init()
rule('C20.19')(c07.vars_no_retain)              # scope variables are per evaluation
rule('C01.15')(c13.tree_structure)              # a subclass of dict / list keeps its base's accessor: adoption keeps every sibling
rule('C12.10')(c20.memos_monotone)              # a cached wildcard path is the fully translated one (delete side)
