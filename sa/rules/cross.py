"""cross-registrations: a structural clause that several properties depend on is
decided under each of them (same rule function, the property's own rule id)"""
from . import rule
from . import c01, c02, c03, c04, c05, c06, c07, c08, c09, c10, c11, c12, c13, c14, c15, c16, c17, c20

# C02: arguments are evaluated by a per-call valuator in a bracketed argument mode
rule('C02.6')(c06.per_evaluation_state)
rule('C02.7')(c08.arg_mode_bracketed)
rule('C02.8')(c08.cycle_memo)

# C03: composition of tuple steps / Coalesce defaults / Call+Invoke arguments relies on the same machinery
rule('C03.10')(c08.arg_mode_bracketed)
rule('C03.11')(c17.builders_pure)
rule('C03.12')(c17.copy_on_write)
rule('C03.13')(c08.mode_reset_on_recycle)
rule('C03.14')(c02.call_parts)                  # Call combines its parts once each, left to right

# C04: the translation keeps no state between calls
rule('C04.10')(c20.finalisation)

# C06: history independence includes the registry memo and the builders
rule('C06.7')(c13.memo_invalidation)
rule('C06.8')(c13.memo_key)
rule('C06.9')(c17.builders_pure)
rule('C06.10')(c15.accumulator_provenance)
rule('C06.11')(c16.per_evaluation_accumulators)
rule('C06.12')(c17.no_state_in_builders)

# C20: per-call frames, roots and evaluation state
rule('C20.5')(c07.per_call_roots)
rule('C20.6')(c07.child_frame)
rule('C20.7')(c06.per_evaluation_state)
rule('C20.8')(c06.closed_inventory)
rule('C20.9')(c16.per_evaluation_accumulators)
rule('C20.10')(c08.arg_mode_bracketed)
rule('C20.11')(c07.caller_scope_copied)
rule('C20.12')(c06.specs_not_written)
rule('C20.13')(c17.no_state_in_builders)

# C16 / C15: accumulators
rule('C16.7')(c15.accumulator_provenance)

# C13: isolation depends on per-instance state only (closed inventory of shared state)
rule('C13.8')(c06.closed_inventory)

# C17: spec immutability in general
rule('C17.8')(c06.specs_not_written)

# C02: the argument valuator's memo must be per call (no class / module level containers)
rule('C02.9')(c06.closed_inventory)


# C08: argument mode never calls what it is given (C02.5)
rule('C08.7')(c02.literal_passthrough)
# C07: the evaluator hands the child frame to every dispatch target; the recycler returns the direct last child
rule('C07.9')(c03.evaluator_dispatch)
rule('C07.10')(c05.recycler)
# C20 / C13: isolation and memo monotonicity
rule('C20.14')(c13.isolation)
rule('C13.9')(c20.memos_monotone)
rule('C06.13')(c20.memos_monotone)
# C15: a reducing spec keeps nothing on itself
rule('C15.8')(c06.specs_not_written)
# C18: wildcard steps are rendered as the methods that produce them
rule('C18.9')(c14.code_agreement)


# round-2 seeds: clauses shared between properties
rule('C01.10')(c13.memo_invalidation)          # the access registered for a type must be the current registration
rule('C01.11')(c13.exact_before_fuzzy)
rule('C04.11')(c15.fold_error)                 # documented subtype at the fold boundary
rule('C06.14')(c07.caller_scope_copied)        # the caller's scope mapping stays unchanged
rule('C07.11')(c09.dict_branch)                # a match-dict key chains into its own value only
rule('C08.8')(c09.dict_branch)                 # Optional defaults are evaluated in argument mode
rule('C09.9')(c10.who_is_returned)             # And / Or / Not inside patterns
rule('C11.9')(c01.layout_agreement)            # wildcard count / step layout used by the broadcast
rule('C14.7')(c01.layout_agreement)
rule('C14.8')(c01.text_paths)                  # '*' / '**' text spelling
rule('C12.6')(c11.broadcast)                   # delete acts on every wildcard match
rule('C20.15')(c13.memo_key)
# matching keeps no process-wide state (compiled patterns, memoised specs)
rule('C09.10')(c06.closed_inventory)
rule('C13.10')(c01.identity_flow)             # the accessor of a path segment always comes from the registry


# round-3 seeds: clauses shared between properties
rule('C01.12')(c13.memo_key)                   # the accessor memo must be keyed by the type itself
rule('C03.15')(c06.per_evaluation_state)       # Call / Invoke / Coalesce defaults: a fresh argument valuator per evaluation
rule('C09.11')(c06.per_evaluation_state)       # Optional / Match defaults
rule('C10.7')(c06.per_evaluation_state)        # And / Or / Switch / Check defaults
rule('C11.10')(c06.per_evaluation_state)       # the assigned value
rule('C12.7')(c01.layout_agreement)            # the wildcard count the broadcast trusts reads ops at the writer's stride
rule('C20.16')(c13.memo_invalidation)          # a registration made by one call is seen by every later / concurrent one
rule('C04.13')(c11.missing_tail)                # an access error of the value spec keeps its class (is not taken for a missing destination)
rule('C18.10')(c05.repr_limits)                 # repr round trip: a string / nesting limit left at its default changes the literal
rule('C08.9')(c16.fold_claims_in_group_mode)      # group mode ends where another mode begins
rule('C09.12')(c02.literal_passthrough)         # Optional / Match defaults: containers are rebuilt per evaluation
rule('C14.10')(c01.conversion_and_index)       # a failing entry after a wildcard is dropped only if its failure became a PathAccessError
rule('C20.17')(c05.message_memo_follows_finalisation)   # a re-entrant call's error keeps its own trace
rule('C06.15')(c05.message_memo_follows_finalisation)   # the rendered error does not depend on an earlier str()


# round-4 seeds: clauses shared between properties
rule('C01.13')(c02.literal_passthrough)         # a path segment (e.g. a namedtuple key) reaches the accessor as it was written
rule('C05.12')(c08.arg_mode_bracketed)          # an argument spec is evaluated through the evaluator (its own frame, its own trace line)
rule('C05.13')(c07.who_chains)                  # every chain step runs in a frame chained from the previous step (trace order)
rule('C06.16')(c07.vars_no_retain)              # scope variables never alias the spec's own defaults
rule('C06.17')(c16.aggregator_shapes)           # aggregators start from fresh state, never from an input item
rule('C07.12')(c01.identity_flow)               # S.name returns the bound object itself (None included)
rule('C08.10')(c11.missing_tail)                # the assigned value is evaluated once, against the real target
rule('C08.11')(c03.chaining)                    # Pipe is a chain, not a mode wrapper
rule('C11.11')(c01.conversion_and_index)        # the part index Assign(missing=) back-fills from is the failing segment's own
rule('C11.12')(c20.memos_monotone)              # a cached wildcard path is the fully translated one
rule('C12.8')(c14.child_enumeration)            # wildcard destinations: one failing child does not hide its siblings
rule('C13.11')(c12.miss_classes)                # the delete handler is looked up per destination object
rule('C14.11')(c12.miss_classes)                # ignore_missing is decided per match, the broadcast goes on
rule('C14.12')(c12.parent_miss)
rule('C14.13')(c15.text_is_not_iterable)        # str / bytes are leaves for '*' and '**'
rule('C20.18')(c09.dict_branch)                 # Optional defaults are rebuilt per evaluation
rule('C02.11')(c03.spec_predicate)               # every other argument is passed through literally: classes included
rule('C07.13')(c02.literal_passthrough)          # S(name={}) binds a fresh container, not the literal inside the spec


# round-5 seeds: clauses shared between properties
rule('C01.14')(c03.spec_predicate)              # a class used as a key / segment is a literal, not a spec
rule('C04.17')(c14.misses_dropped)              # the wildcard loop swallows PathAccessError only (other GlomErrors keep their class)
rule('C05.15')(c10.rejections)                  # every rejection is a fresh error object (the trace tells branch errors apart by identity)
rule('C08.12')(c17.sentinels_and_options)       # Iter applies its subspec in the mode in force (no early conversion)
rule('C09.13')(c10.comparison_table)            # M comparisons are decided by the Python operator alone
rule('C10.8')(c09.dispatcher)                   # atoms are decided by isinstance / call / ==, with no shortcut before the dispatch
rule('C11.13')(c14.child_enumeration)           # wildcard destinations: one unreadable child does not hide its siblings
rule('C12.9')(c02.literal_passthrough)          # a key in the parent path reaches the accessor as written
rule('C16.9')(c15.helpers)                      # Merge looks its op up on the type of init()
rule('C20.19')(c07.vars_no_retain)              # scope variables are per evaluation
rule('C01.15')(c13.tree_structure)              # a subclass of dict / list keeps its base's accessor: adoption keeps every sibling
rule('C12.10')(c20.memos_monotone)              # a cached wildcard path is the fully translated one (delete side)


# a package-wide convention decided per property over the code the property is about
from .common import absent_means_none


def _absent(modules, classes=None):
    def absent_means_none_here(ctx):
        return absent_means_none(ctx, modules, classes)
    absent_means_none_here.__doc__ = absent_means_none.__doc__
    absent_means_none_here.__name__ = 'absent_means_none'
    return absent_means_none_here


rule('C02.13')(_absent(('core',), ('TType', 'Call', 'Invoke', 'Path')))
rule('C03.17')(_absent(('core',), ('Coalesce', 'Call', 'Invoke', 'Ref', 'Spec', 'Val', 'Auto', 'Fill', 'Pipe', 'Inspect', 'Let')))
rule('C07.15')(_absent(('core',), ('Spec', 'Vars', 'ScopeVars', 'Let', 'Ref', 'Glommer')))
rule('C09.15')(_absent(('matching',), ('Match', 'Regex', 'Optional', 'Required', 'MatchError', 'TypeMatchError')))
rule('C10.9')(_absent(('matching',), ('_Bool', 'And', 'Or', 'Not', '_MSubspec', '_MExpr', '_MType', 'Switch', 'Check', 'CheckError')))
rule('C11.14')(_absent(('mutation',)))
rule('C12.11')(_absent(('mutation',)))
rule('C13.14')(_absent(('core',), ('TargetRegistry', 'Glommer')))
rule('C15.10')(_absent(('reduction',)))
rule('C16.10')(_absent(('grouping',)))
rule('C17.9')(_absent(('streaming',)))


from .common import parameters_kept, recorded_as_given


def _kept(modules, classes=None, methods=None, floor=0):
    def parameters_kept_here(ctx):
        n = parameters_kept(ctx, modules, classes, methods)
        ctx.ob(True, 'package', 'parameter rebindings examined: %d' % n)
    parameters_kept_here.__doc__ = parameters_kept.__doc__
    parameters_kept_here.__name__ = 'parameters_kept'
    return parameters_kept_here


_ERRORS = ('GlomError', 'PathAccessError', 'PathAssignError', 'CoalesceError', 'UnregisteredTarget', 'BadSpec')
rule('C01.16')(_kept(('core',), _ERRORS + ('Path', 'TType')))
rule('C02.14')(_kept(('core',), _ERRORS + ('Call', 'Invoke', 'TType', 'Path')))
rule('C02.15')(recorded_as_given)
rule('C18.13')(recorded_as_given)
rule('C03.18')(_kept(('core',), ('Coalesce', 'Call', 'Invoke', 'Ref', 'Spec', 'Val', 'Auto', 'Fill', 'Pipe', 'Inspect', 'Let')))
rule('C04.19')(_kept(('core', 'matching', 'mutation', 'reduction'), _ERRORS + ('Coalesce', 'MatchError', 'TypeMatchError', 'CheckError', 'PathDeleteError', 'FoldError')))
rule('C05.16')(_kept(('core', 'matching'), _ERRORS + ('MatchError', 'TypeMatchError', 'CheckError')))
rule('C07.16')(_kept(('core',), ('Spec', 'Vars', 'ScopeVars', 'Let', 'Ref', 'Glommer', 'Pipe')))
rule('C08.13')(_kept(('core',), ('Fill', 'Auto', 'Pipe', 'Spec', 'Val')))
rule('C09.16')(_kept(('matching',), ('Match', 'Regex', 'Optional', 'Required', '_Bool', 'And', 'Or', 'Not')))
rule('C10.10')(_kept(('matching',), ('_Bool', 'And', 'Or', 'Not', '_MSubspec', '_MExpr', '_MType', 'Switch', 'Check')))
rule('C11.15')(_kept(('mutation',), ('Assign',)))
rule('C12.12')(_kept(('mutation',), ('Delete',)))
rule('C13.15')(_kept(('core',), ('TargetRegistry', 'Glommer')))
rule('C15.11')(_kept(('reduction',)))
rule('C16.11')(_kept(('grouping',)))
rule('C17.10')(_kept(('streaming',)))


# round-6 seeds: clauses shared between properties
rule('C03.19')(c02.literal_passthrough)         # Call / Coalesce arguments: dict keys in argument position are sub-specs too
rule('C04.20')(c13.nested_evaluation_keeps_the_registry)   # errors are translated once, by the outermost entry point
rule('C20.20')(c13.nested_evaluation_keeps_the_registry)   # a re-entrant evaluation shares the running call's frame chain
rule('C09.17')(c05.message_templates_are_constant)   # a Regex / Match rejection can always be rendered
rule('C04.21')(c05.message_templates_are_constant)   # str() of a glom failure is total
rule('C14.15')(c11.broadcast_counts_the_fetched_path)   # Assign / Delete through wildcards act on every entry
rule('C12.13')(c11.broadcast_counts_the_fetched_path)
rule('C04.22')(c05.formatting_invariants)          # finalising an error cannot itself fail (the original class must leave glom())
rule('C19.7')(c05.formatting_invariants)           # the CLI prints str(error): rendering is total
rule('C05.18')(c09.dict_branch)                    # every attempted key of a Match dict is evaluated in its own frame (the trace lists it)
rule('C07.18')(c08.arg_mode_bracketed)             # an argument is evaluated in a child frame: binders inside it do not leak
rule('C08.14')(c07.caller_scope_copied)            # the root frame's mode bookkeeping is glom()'s own, not the caller's
rule('C08.15')(c07.per_call_roots)
rule('C08.16')(c17.terminals)                      # First's default is an argument (evaluated in argument mode)
rule('C11.17')(c13.memo_invalidation)              # the assign handler follows a later registration of a base class
rule('C12.14')(c13.memo_invalidation)
rule('C12.15')(c01.path_keeps_every_part)          # Path('*', 'k') addresses the key '*', not every child
rule('C13.16')(c14.default_registration_order)     # a more specific registered type is never shadowed by a predicate type
rule('C20.22')(c16.item_loop)                      # every Group evaluation starts from its own empty container


# round-7 seeds: clauses shared between properties
rule('C05.20')(c04.raise_discipline)               # the error glom() raises can render its message (the original is remembered)
from .common import attributes_stored_once, wrappers_forward_their_parameters


def _once(modules, classes=None):
    def attributes_stored_once_here(ctx):
        n = attributes_stored_once(ctx, modules, classes)
        ctx.ob(n >= 1, 'package', 'constructor attributes examined: %d' % n)
    attributes_stored_once_here.__doc__ = attributes_stored_once.__doc__
    attributes_stored_once_here.__name__ = 'attributes_stored_once'
    return attributes_stored_once_here


def _forward(quals):
    def wrappers_forward_here(ctx):
        n = wrappers_forward_their_parameters(ctx, quals)
        ctx.ob(n >= 2, 'package', 'wrapper parameters examined: %d' % n)
    wrappers_forward_here.__doc__ = wrappers_forward_their_parameters.__doc__
    wrappers_forward_here.__name__ = 'wrappers_forward_their_parameters'
    return wrappers_forward_here


rule('C11.19')(_once(('mutation',), ('Assign',)))
rule('C12.16')(_once(('mutation',), ('Delete',)))
rule('C03.20')(_once(('core',), ('Coalesce', 'Call', 'Invoke', 'Ref', 'Spec', 'Val', 'Auto', 'Fill', 'Pipe', 'Inspect', 'Let')))
rule('C09.19')(_once(('matching',), ('Match', 'Regex', 'Optional', 'Required')))
rule('C10.14')(_once(('matching',), ('_Bool', 'And', 'Or', 'Not', '_MSubspec', '_MExpr', 'Switch', 'Check')))
rule('C15.12')(_once(('reduction',)))
rule('C16.12')(_once(('grouping',)))
rule('C17.12')(_once(('streaming',)))
rule('C13.18')(_forward(('core.register', 'core.register_op', 'core.Glommer.register')))
rule('C01.17')(c13.register_stores)                 # an exact registration of a Glommer does not serve subclass instances
rule('C03.21')(c13.memo_invalidation)               # the iterate handler of a list spec follows a later registration
rule('C14.16')(c13.memo_invalidation)               # ... and so do the keys / iterate handlers the wildcards enumerate with
rule('C04.24')(c12.miss_classes)                    # a deletion fault is reported whatever the truth value of the exception object
rule('C08.17')(c16.per_evaluation_accumulators)     # a nested Group arms its own aggregation tripwire
rule('C15.13')(c16.per_evaluation_accumulators)
rule('C08.18')(c03.spec_predicate)                  # a spec class used as a value is a literal in argument position
rule('C09.20')(c10.overloads)                       # & builds a new pattern: the operands keep their meaning
rule('C09.21')(c06.specs_not_written)
rule('C11.20')(c13.memo_key)                        # the assign handler is memoised per (type, op), not per type
rule('C12.17')(c01.default_accessors)               # a missing parent key in an OrderedDict raises (PathAccessError, not None)
rule('C12.18')(c14.object_keys_predicate_is_duck_typed)   # wildcard deletes through a class used as a namespace
rule('C13.19')(c14.object_keys_predicate_is_duck_typed)   # the duck type does not depend on the instance (memoised per type)
rule('C17.13')(c10.defaults)                        # filter's Check(key, default=SKIP) rejects only what fails the check
rule('C20.23')(c07.own_frame_writes)                # no evaluation writes into the process-wide default scope
rule('C09.22')(c04.error_construction_is_total)     # a rejection can always be built (and so is a MatchError, not what building it raised)
rule('C10.16')(c04.error_construction_is_total)


# round-8 seeds
from .common import none_is_a_value


def _none_value(*quals):
    def none_is_a_value_here(ctx):
        return none_is_a_value(ctx, set(quals))
    none_is_a_value_here.__doc__ = none_is_a_value.__doc__
    none_is_a_value_here.__name__ = 'none_is_a_value'
    return none_is_a_value_here


rule('C03.22')(_none_value('core.Coalesce.__init__'))
rule('C09.23')(_none_value('matching.Match.__init__', 'matching.Optional.__init__'))
rule('C10.17')(_none_value('matching._Bool.__init__', 'matching.Switch.__init__', 'matching.Check.__init__'))
rule('C17.14')(_none_value('streaming.Iter.chunked'))

from .common import scope_keys_have_one_definition


def _one_def(*names):
    def scope_keys_here(ctx):
        return scope_keys_have_one_definition(ctx, set(names) if names else None)
    scope_keys_here.__doc__ = scope_keys_have_one_definition.__doc__
    scope_keys_here.__name__ = 'scope_keys_have_one_definition'
    return scope_keys_here


rule('C16.13')(_one_def('CUR_AGG', 'ACC_TREE', 'MODE'))
rule('C15.14')(_one_def('CUR_AGG', 'ACC_TREE', 'MODE'))
rule('C07.19')(_one_def())
rule('C20.24')(_one_def())
rule('C08.19')(_one_def('MODE', 'MIN_MODE'))

# round-8 seeds: clauses first reported under a sibling property
from . import c18
rule('C01.18')(c13.isolation)                   # the access registered for a type is looked up in the registry of the running call only
rule('C03.23')(c13.register_stores)             # exact=True registrations decide whose iteration a list spec maps over
rule('C03.24')(c02.argument_context)            # every T operand -- tuple operands included -- is evaluated as an argument
rule('C04.25')(c09.dispatcher)                  # a type mismatch is a TypeMatchError, a length mismatch a MatchError
rule('C05.21')(c20.finalisation)                # the wrapper class is built from the class of the error at hand
rule('C05.22')(c07.own_frame_writes)            # the recorded branch failures are written by the bookkeeping only
rule('C07.20')(c11.op_dispatch)                 # A.name writes the frame it was evaluated in
rule('C08.20')(c10.check_default_is_an_argument)
rule('C09.24')(c10.reflected_operators_keep_operand_order)
rule('C09.25')(c10.defaults)                    # nested And / Or keep their own default
rule('C11.21')(c08.cycle_memo)                  # the assigned value's shared / cyclic parts are rebuilt once
rule('C11.22')(c18.sequence_views)              # an S-rooted destination is re-rooted step kind by step kind
rule('C12.19')(c13.memo_key)                    # the delete handler memo is keyed by (type, op)
rule('C12.20')(c01.conversion_and_index)        # a missing parent index under T[...] is a PathAccessError
rule('C14.18')(c02.argument_context)            # a call step after a wildcard sees the entry it is applied to
rule('C15.15')(c13.memo_invalidation)           # a registration is seen by the next fold
rule('C15.16')(c13.register_stores)
rule('C20.25')(c08.shape_dispatch)              # Fill builds its containers per evaluation, empty ones too
rule('C13.20')(c06.lookup_is_read_only)
rule('C20.26')(c06.lookup_is_read_only)

# round-9 seeds: clauses first reported under a sibling property
rule('C02.17')(c20.default_scope_only_read)     # an argument's frame bookkeeping stays in its own child map
rule('C06.20')(c13.isolation)                   # each Glommer's registrations are its own
rule('C08.21')(c07.nested_evaluation_carries_scope)   # a stage's key spec runs in the mode and scope of the Iter it belongs to
rule('C08.22')(c11.same_object)                 # assign() hands its value over in argument position
rule('C10.18')(c03.order)                       # Or tries its children by position
rule('C10.19')(c09.results)                     # M(T-expression) answers with the target
rule('C11.24')(c01.default_accessors)           # OrderedDict children are listed by its own keys()
rule('C14.19')(c02.exhaustiveness)              # every wildcard producer records its step
rule('C14.20')(c20.default_scope_only_read)     # wildcards ask the registry of the running call
rule('C15.17')(c13.exact_before_fuzzy)          # an exact iterate=False registration is final
rule('C01.19')(c15.text_is_not_iterable)        # inherited __iter__ makes a container subclass reach its base's accessors
rule('C04.26')(c10.defaults)                    # a default replaces a failed *condition*, not a failing sub-spec
rule('C12.21')(c13.tree_structure)              # re-parenting keeps the siblings' order

# round-10 seeds (ten properties): clauses first reported under a sibling property
rule('C03.26')(c13.tree_structure)              # a list spec iterates with the closest registered base's handler
rule('C03.27')(c13.exact_before_fuzzy)          # an exact "not iterable" registration is final for a list spec
rule('C05.25')(c09.raise_classes)               # the error re-raised for an item is the last alternative's
rule('C08.23')(c02.call_parts)                  # one argument valuator per part keeps sharing between arguments
rule('C08.24')(c02.argument_context)            # Path segments are argument positions too
rule('C09.26')(c03.spec_predicate)              # a class with a glomit method is a type pattern, not a spec
rule('C10.20')(c08.mode_reset_on_recycle)       # Switch's value spec runs in the Switch's mode, not the key's
rule('C13.22')(_once(('mutation',), ('Assign', 'Delete')))   # Assign's final step keeps the kind its path gave it
rule('C05.26')(c10.defaults_are_evaluated_in_the_combinators_own_frame)   # a default's failure is rendered under the combinator, not under its last failed key
