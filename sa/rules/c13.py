"""C13 -- handlers are chosen by nearest registered type, immediately and in isolation."""
import ast

from . import rule, info
from ..program import AnalysisError, src, norm, ClassInfo
from ..util import (exclusive, polarity, choice_leaves, is_name, calls_in, callee_qual, deref, ancestors, stmt_of, parent, handler_outcomes,
                    handler_covers, fmt_witness, kwarg, completes_normally)
from ..pattern import match, matches

info('C13',
     explanation='Static decision of: memo invalidation (every registry method that stores a handler for a '
                 'possibly-known (type, op) pair rebinds the lookup memo after its last such store on every '
                 'normal path; register_op is exempt under a checked precondition); the memo key contains the '
                 'object\'s type and the op and the memoised computation reads nothing else that varies; the '
                 'exact-type lookup precedes the tree walk; the walk descends into the matched type\'s subtree '
                 '(more specific beats less specific) and the tree insertion keeps subclasses under their '
                 'bases; every registry instance allocates its own maps; Glommer binds its own registry in a '
                 'copy of the scope; module-level register/register_op reach only the default scope\'s '
                 'registry.  C13.5 derives a known finding: first-isinstance-match among siblings + default '
                 'predicate types + registration into every op tree.',
     decided=['C13.1 memo invalidation', 'C13.2 memo key', 'C13.3 exact before fuzzy', 'C13.4 isolation',
              'C13.5 first match over overlapping siblings (known finding)', 'C13.6 tree walk / insertion structure',
              'C13.7 register stores what it was given'],
     not_decided=['the nearest-type relation for arbitrary hierarchies and registration orders (algorithmic, value-level)'])

MAPS = ('_op_type_map', '_op_type_tree')


def _self_attr_root(e):
    """attribute of self at the root of a subscript/attribute chain, or None"""
    while isinstance(e, ast.Subscript):
        e = e.value
    if isinstance(e, ast.Attribute) and is_name(e.value, 'self'):
        return e.attr
    return None


def handler_stores(ctx, u):
    """cfg nodes of u that store into the handler maps (directly, via a local
    alias of a map entry, or via a call of a method that does)"""
    cfg = ctx.cfg(u)
    out = []
    aliases = set()
    for n in u.own_nodes():
        if isinstance(n, ast.Assign) and is_name(n.targets[0]) and len(n.targets) == 1:
            v = n.value
            if isinstance(v, ast.Call) and isinstance(v.func, ast.Attribute) and v.func.attr in ('setdefault', 'get') \
                    and _self_attr_root(v.func.value) in MAPS:
                aliases.add(n.targets[0].id)
            elif _self_attr_root(v) in MAPS:
                aliases.add(n.targets[0].id)
    for node in cfg.nodes:
        st = node.ast
        if node.kind != 'stmt' or st is None:
            continue
        hit = False
        if isinstance(st, ast.Assign):
            for t in st.targets:
                if isinstance(t, ast.Subscript) and (_self_attr_root(t) in MAPS or (is_name(t.value) and t.value.id in aliases)):
                    hit = True
        for c in [x for x in ast.walk(st) if isinstance(x, ast.Call)]:
            if isinstance(c.func, ast.Attribute) and is_name(c.func.value, 'self') and c.func.attr == '_register_fuzzy_type':
                hit = True
        if hit:
            out.append(node)
    return out


@rule('C13.1')
def memo_invalidation(ctx):
    p = ctx.program
    c = ctx.cls('core.TargetRegistry')
    n_writers = 0
    for name, u in sorted(c.methods.items()):
        if name in ('__init__', '_register_fuzzy_type'):
            continue
        stores = handler_stores(ctx, u)
        if not stores:
            continue
        n_writers += 1
        cfg = ctx.cfg(u)
        resets = [n for n in cfg.nodes if n.kind == 'stmt' and isinstance(n.ast, ast.Assign)
                  and any(isinstance(t, ast.Attribute) and t.attr == '_type_cache' and is_name(t.value, 'self') for t in n.ast.targets)]
        clears = [n for n in cfg.nodes if n.kind == 'stmt' and isinstance(n.ast, ast.Expr) and isinstance(n.ast.value, ast.Call)
                  and isinstance(n.ast.value.func, ast.Attribute) and n.ast.value.func.attr == 'clear'
                  and _self_attr_root(n.ast.value.func.value) == '_type_cache']
        resets += clears
        # (register_op too: it only adds pairs that were absent, but an absent pair may have been
        # looked up -- and its miss memoised -- before the op was declared)
        if name == 'register_op':
            # declaring an op discovers handlers for the known types that have none: an explicitly
            # registered handler is never replaced by the discovered one
            per_type = [s for s in stores if s.loop_stack and isinstance(s.ast, ast.Assign)
                        and any(isinstance(t, ast.Subscript) and is_name(t.value) for t in s.ast.targets)]
            okp = bool(per_type)
            shown = []
            for sn in per_type:
                tgt = [t for t in sn.ast.targets if isinstance(t, ast.Subscript)]
                guarded = False
                for t in cfg.nodes:
                    if t.kind != 'test' or not tgt:
                        continue
                    pol = polarity(t.ast, '%s in %s' % (norm(tgt[0].slice), norm(tgt[0].value)))
                    if pol and cfg.dominates(t, sn):
                        hdr = sn.loop_stack[-1] if sn.loop_stack else None
                        if cfg.find_path(t, {sn}, avoid={hdr} if hdr else (), labels=lambda l: l != 'exc',
                                         start_labels=lambda l, e=pol: l == e) is None:
                            guarded = True
                            shown.append(norm(t.ast))
                okp = okp and guarded
            ctx.ob(okp, u, 'register_op never replaces the handler of an already known (type, op) pair: %s' % shown,
                   '' if okp else 'an explicit registration is overwritten by the discovered handler when the op is declared (again)')
        for s in stores:
            # every path from the store to the normal exit passes a reset
            ok, path = cfg.must_pass(s, {cfg.exit}, set(resets), labels=lambda l: l != 'exc')
            ctx.ob(ok and bool(resets), u, 'the lookup memo is reset after `%s`' % norm(s.ast),
                   '' if ok and resets else 'a registration would not take effect for types that were already looked up',
                   node=s.ast, witness=fmt_witness(cfg, path))
    ctx.require(n_writers >= 2, 'TargetRegistry: fewer than 2 handler-storing methods found')
    # a memoised *failure* (False) is only stored when raise_exc is false; no call site passes that
    n_sites = 0
    for u in p.package_units():
        for call in calls_in(u):
            if isinstance(call.func, ast.Attribute) and call.func.attr == 'get_handler':
                n_sites += 1
                kw = [k for k in call.keywords if k.arg == 'raise_exc']
                ctx.ob(not kw and len(call.args) < 4, u, 'lookup raises on failure (never memoises "unsupported"): %s' % src(call, 70), node=call)
    for u in p.package_units():
        for call in calls_in(u):
            if is_name(call.func, 'get_handler') and call.args:
                n_sites += 1
                ctx.ob(not [k for k in call.keywords if k.arg == 'raise_exc'], u, 'lookup raises on failure: %s' % src(call, 70), node=call)
    # nine sites on the confirmed tree; two of them are verbatim copies of grouping.target_iter
    # (list handler, Iter) that a maintainer may merge: the floor allows that, not less
    if n_sites < 7:
        raise AnalysisError('C13.1: only %d get_handler call sites found (floor 7)' % n_sites)
    ctx.floor(9)


@rule('C13.2')
def memo_key(ctx):
    u = ctx.unit('core.TargetRegistry.get_handler')
    cfg = ctx.cfg(u)
    op, obj = u.params[1], u.params[2]
    keys = [n for n in u.own_nodes() if isinstance(n, ast.Assign) and isinstance(n.value, ast.Tuple) and is_name(n.targets[0])
            and len(n.value.elts) == 2]
    ctx.require(keys, 'get_handler: memo key not found')
    k = keys[0]
    kv = k.targets[0].id
    e0 = deref(cfg, cfg.node_of(k), k.value.elts[0])
    ok = isinstance(e0, ast.Call) and is_name(e0.func, 'type') and is_name(e0.args[0], obj) and is_name(k.value.elts[1], op)
    ctx.ob(ok, u, 'the memo key is (type(obj), op): %s' % norm(k))
    uses = [n for n in u.own_nodes() if isinstance(n, ast.Subscript) and isinstance(n.value, ast.Attribute) and n.value.attr == '_type_cache']
    ctx.ob(bool(uses) and all(is_name(x.slice, kv) for x in uses), u, 'every memo access uses that key: %s' % [norm(x) for x in uses])
    # what the memoised computation reads: only obj's type, op, and registry state (no module-level variable)
    p = ctx.program
    extra = []
    for n in u.own_nodes():
        if isinstance(n, ast.Name) and isinstance(n.ctx, ast.Load) and n.id not in u.locals:
            d = p.resolve_name(u, n.id)
            if d.kind == 'var':
                extra.append(n.id)
    ctx.ob(not extra, u, 'the lookup depends only on the object, the op and registry state', 'also reads module variables %s' % sorted(set(extra)))
    st = [n for n in u.own_nodes() if isinstance(n, ast.Assign) and isinstance(n.targets[0], ast.Subscript)
          and isinstance(n.targets[0].value, ast.Attribute) and n.targets[0].value.attr == '_type_cache']
    rv = st[0].value.id if len(st) == 1 and is_name(st[0].value) else None
    exact = [n for n in u.own_nodes() if isinstance(n, ast.Assign) and is_name(n.targets[0], rv) and isinstance(n.value, ast.Subscript)]
    ctx.ob(len(st) == 1 and rv is not None and len(exact) >= 1, u, 'one memo store, of the computed handler: %s' % [norm(s_) for s_ in st])
    rets = [n for n in u.own_nodes() if isinstance(n, ast.Return)]
    def is_entry(r):
        v = r.value
        if is_name(v):
            # a local that is the memo entry on every path: read back from the memo
            # (``ret = self._type_cache[key]``), or computed and stored under the key before the
            # return (every path from that definition to the return passes the one memo store)
            ds = cfg.reaching_defs(cfg.node_of(r), v.id)

            def from_memo(d):
                return isinstance(d, ast.Subscript) and isinstance(d.value, ast.Attribute) and d.value.attr == '_type_cache' \
                    and is_name(d.slice, kv)
            if ds and len(st) == 1 and is_name(st[0].value, v.id):
                sn, rn = cfg.node_of(st[0]), cfg.node_of(r)
                if all(from_memo(d) or cfg.must_pass(dn, {rn}, {sn}, labels=lambda l: l != 'exc')[0] for dn, d in ds):
                    return True
            elif ds and all(from_memo(d) for _, d in ds):
                return True
        if isinstance(v, ast.Subscript) and isinstance(v.value, ast.Attribute) and v.value.attr == '_type_cache' \
                and is_name(v.slice, kv):
            return True
        # the value just stored under the key: the store dominates the return and no other
        # definition of the variable intervenes
        if rv is not None and is_name(v, rv) and len(st) == 1:
            sn, rn = cfg.node_of(st[0]), cfg.node_of(r)
            same = {id(d) for d, _ in cfg.reaching_defs(sn, rv)} == {id(d) for d, _ in cfg.reaching_defs(rn, rv)}
            return cfg.dominates(sn, rn) and same
        return False
    ctx.ob(bool(rets) and all(is_entry(r) for r in rets), u,
           'the result is always the memo entry of this key: %s' % [norm(r) for r in rets])
    # failure is raised before it could be stored
    rs = [n for n in u.own_nodes() if isinstance(n, ast.Raise)]
    ok = len(rs) == 1 and st and cfg.find_path(cfg.node_of(rs[0]), {cfg.node_of(st[0])}) is None
    g = [a for a in ancestors(rs[0]) if isinstance(a, ast.If)] if rs else []
    okg = False
    if ok and g:
        b = match(g[0].test, '$v is False and raise_exc')
        if b is not None:
            vname = b['v'] if isinstance(b['v'], str) else getattr(b['v'], 'id', None)
            ds = cfg.reaching_defs(cfg.node_of(rs[0]), vname) if vname else []
            okg = vname == rv or (bool(ds) and all(isinstance(d, ast.Subscript) and isinstance(d.value, ast.Attribute)
                                                  and d.value.attr == '_type_cache' for _, d in ds))
    ctx.ob(okg, u, 'an unsupported (type, op) raises UnregisteredTarget when the caller asked for it (the answer tested is the memo entry)')
    ctx.floor(6)


@rule('C13.3')
def exact_before_fuzzy(ctx):
    u = ctx.unit('core.TargetRegistry.get_handler')
    cfg = ctx.cfg(u)
    op, obj = u.params[1], u.params[2]
    # roles: obj_type = type(obj); type_map = self.get_type_map(op); ret = type_map[obj_type]
    tv, mv = 'type(%s)' % obj, None
    for n in u.own_nodes():
        if isinstance(n, ast.Assign):
            b = match(n, '$t = type(%s)' % obj)
            if b:
                tv = b['t']
            b = match(n, '$m = self.get_type_map(%s)' % op)
            if b:
                mv = b['m']
    ctx.ob(mv is not None, u, 'handlers come from the map of the requested op')
    exact = [n for n in cfg.nodes if n.kind == 'stmt' and tv and mv and matches(n.ast, '$r = %s[%s]' % (mv, tv))]
    walk = [n for n in cfg.nodes if n.kind == 'stmt' and any(isinstance(c, ast.Call) and isinstance(c.func, ast.Attribute)
            and c.func.attr == '_get_closest_type' for c in ast.walk(n.ast))]
    ctx.ob(len(exact) == 1, u, 'the handler map is first consulted for the exact type of the object',
           '' if len(exact) == 1 else 'no `handler = type_map[type(obj)]` lookup found: an exact registration can be overridden by the tree walk')
    ctx.require(len(walk) == 1, 'get_handler: tree walk not found')
    if len(exact) != 1:
        return
    ctx.ob(cfg.dominates(exact[0], walk[0]), u, 'the exact-type lookup precedes the tree walk')
    hs = cfg.handlers_reached_from(exact[0])
    ok = len(hs) == 1 and handler_covers(cfg, hs[0], 'KeyError') and walk[0] in cfg.reachable(hs[0])
    ctx.ob(ok, u, 'the walk happens only when the exact lookup missed (KeyError)')
    pth = cfg.find_path(exact[0], set(walk), labels=lambda l: l != 'exc')
    ctx.ob(pth is None, u, 'an exact registration wins without consulting the tree')
    wst = walk[0].ast
    cv = wst.targets[0].id if isinstance(wst, ast.Assign) and is_name(wst.targets[0]) else None
    use = [n for n in u.own_nodes() if isinstance(n, ast.Assign) and cv and is_name(n.targets[0])
           and any(matches(leaf, '%s[%s]' % (mv, cv)) for leaf in choice_leaves(n.value))]
    ctx.ob(len(use) == 1, u, "the closest registered type's handler is used: %s" % [norm(x) for x in use])
    c = [x for x in calls_in(u) if isinstance(x.func, ast.Attribute) and x.func.attr == '_get_closest_type']
    tt = kwarg(c[0], 'type_tree', 1)
    d = deref(cfg, cfg.node_containing(c[0]), tt)
    ok = isinstance(d, ast.Call) and norm(d).startswith('self._op_type_tree.get(%s' % op)
    ctx.ob(ok and is_name(c[0].args[0], obj), u, 'the walk uses the tree of the requested op: %s' % norm(d))
    ctx.floor(6)


@rule('C13.4')
def isolation(ctx):
    p = ctx.program
    iu = ctx.unit('core.TargetRegistry.__init__')
    want = {'_op_type_map', '_op_type_tree', '_type_cache', '_op_auto_map'}
    got = {}
    for n in iu.own_nodes():
        if isinstance(n, ast.Assign) and isinstance(n.targets[0], ast.Attribute) and is_name(n.targets[0].value, 'self'):
            got[n.targets[0].attr] = n.value
    for a in sorted(want):
        v = got.get(a)
        ok = isinstance(v, ast.Dict) and not v.keys or (isinstance(v, ast.Call) and is_name(v.func, 'OrderedDict') and not v.args)
        ctx.ob(ok, iu, 'every registry instance allocates its own %s: %s' % (a, norm(v) if v is not None else None))
    c = ctx.cls('core.TargetRegistry')
    shared = [k for k, vs in c.attrs.items() if any(isinstance(v, (ast.Dict, ast.List, ast.Set, ast.Call)) for v in vs if v is not None)]
    ctx.ob(not shared, c, 'the registry class has no class-level containers', 'class attributes: %s' % shared)
    gu = ctx.unit('core.Glommer.__init__')
    st = [n for n in gu.own_nodes() if isinstance(n, ast.Assign) and isinstance(n.targets[0], ast.Subscript)
          and p.scope_key(gu, n.targets[0].slice) == 'core.TargetRegistry']
    ok = len(st) == 1 and isinstance(st[0].value, ast.Call) and callee_qual(p, gu, st[0].value) == 'core.TargetRegistry' \
        and norm(st[0].targets[0].value) == 'self.scope'
    ctx.ob(ok, gu, 'a Glommer binds a registry constructed for it: %s' % [norm(s) for s in st])
    if ok:
        kw = {k.arg: k.value for k in st[0].value.keywords}
        v = kw.get('register_default_types')
        dd = deref(ctx.cfg(gu), ctx.cfg(gu).node_of(st[0]), v) if v is not None else None
        ctx.ob(isinstance(dd, ast.Call) and matches(dd, "kwargs.pop('register_default_types', True)"), gu, 'register_default_types is passed on')
    sc = [n for n in gu.own_nodes() if isinstance(n, ast.Assign) and isinstance(n.targets[0], ast.Attribute) and n.targets[0].attr == 'scope']
    ok = len(sc) == 1 and isinstance(sc[0].value, ast.Call) and callee_qual(p, gu, sc[0].value) == 'collections.ChainMap' \
        and isinstance(sc[0].value.args[0], ast.Call) and is_name(sc[0].value.args[0].func, 'dict')
    ctx.ob(ok, gu, 'the binding is made in a private copy of the scope (not in the default scope): %s' % [norm(s) for s in sc])
    if sc and st:
        cfg = ctx.cfg(gu)
        ctx.ob(cfg.dominates(cfg.node_of(sc[0]), cfg.node_of(st[0])), gu, 'the copy is made before the registry is bound')
    ru = ctx.unit('core.Glommer.register')
    cs = [c for c in calls_in(ru) if isinstance(c.func, ast.Attribute) and c.func.attr == 'register']
    ok = len(cs) == 1 and norm(cs[0].func.value) == 'self.scope[TargetRegistry]'
    ctx.ob(ok, ru, 'Glommer.register reaches only its own registry: %s' % [norm(c) for c in cs])
    for q, meth in (('core.register', 'register'), ('core.register_op', 'register_op')):
        u = ctx.unit(q)
        cs = [c for c in calls_in(u) if isinstance(c.func, ast.Attribute) and c.func.attr == meth]
        ok = len(cs) == 1 and norm(cs[0].func.value) == '_DEFAULT_SCOPE[TargetRegistry]'
        ctx.ob(ok, u, 'module-level %s reaches only the default scope\'s registry: %s' % (meth, [norm(c) for c in cs]))
        if cs:
            c0 = cs[0]
            fwd = is_name(c0.args[0], u.params[0]) and any(k.arg is None and is_name(k.value, u.kwarg) for k in c0.keywords)
            ctx.ob(fwd, u, 'and forwards its arguments unchanged: %s' % norm(c0))
    # the default registry is created once, with default types
    mod = p.modules['glom.core']
    ups = [n.value for n in mod.tree.body if isinstance(n, ast.Expr) and isinstance(n.value, ast.Call)
           and isinstance(n.value.func, ast.Attribute) and n.value.func.attr == 'update' and is_name(n.value.func.value, '_DEFAULT_SCOPE')]
    ok = len(ups) == 1 and isinstance(ups[0].args[0], ast.Dict)
    ctx.ob(ok, 'glom/core.py', 'the default scope binds the evaluator and one default registry at import')
    # every lookup goes through the registry bound in the current scope
    n = 0
    for u in p.package_units():
        for c in calls_in(u):
            if isinstance(c.func, ast.Attribute) and c.func.attr == 'get_handler':
                n += 1
                base = c.func.value
                ok = isinstance(base, ast.Subscript) and p.scope_key(u, base.slice) == 'core.TargetRegistry'
                ctx.ob(ok, u, 'handler lookup uses the registry bound in the evaluation\'s scope: %s' % src(c, 60), node=c)
        for n2 in u.own_nodes():
            if isinstance(n2, ast.Assign) and isinstance(n2.value, ast.Attribute) and n2.value.attr == 'get_handler':
                base = n2.value.value
                ok = isinstance(base, ast.Subscript) and p.scope_key(u, base.slice) == 'core.TargetRegistry'
                ctx.ob(ok, u, 'handler lookup uses the registry bound in the evaluation\'s scope: %s' % norm(n2), node=n2)
    ctx.floor(20)


@rule('C13.5')
def first_match_known_finding(ctx):
    p = ctx.program
    u = ctx.unit('core.TargetRegistry._get_closest_type')
    loops = [n for n in u.own_nodes() if isinstance(n, ast.For)]
    ctx.require(len(loops) == 1, '_get_closest_type: sibling loop not found')
    lp = loops[0]
    # (a) first sibling whose isinstance holds wins: unconditional return inside the if
    # (written as ``if isinstance(..): .. return`` or as the guard clause ``if not isinstance(..): continue``:
    # a return inside the loop that is reachable from the matching edge of the test only)
    cfg = ctx.cfg(u)
    ln = cfg.node_of(lp)
    first_match = False
    for t in cfg.nodes:
        if t.kind != 'test' or ln not in t.loop_stack:
            continue
        pol = polarity(t.ast, 'isinstance($$o, $$t)')
        if not pol:
            continue
        other = 'false' if pol == 'true' else 'true'
        for r in [x for x in cfg.nodes if x.kind == 'stmt' and isinstance(x.ast, ast.Return) and ln in x.loop_stack]:
            if cfg.find_path(t, {r}, avoid={ln}, labels=lambda l: l != 'exc', start_labels=lambda l, y=pol: l == y) is not None \
                    and cfg.find_path(t, {r}, avoid={ln}, labels=lambda l: l != 'exc', start_labels=lambda l, y=other: l == y) is None:
                first_match = True
    # (b) siblings are ordered by registration (appended OrderedDict entries)
    fu = ctx.unit('core.TargetRegistry._register_fuzzy_type')
    appended = any(isinstance(n, ast.Assign) and isinstance(n.targets[0], ast.Subscript) and is_name(n.targets[0].slice, fu.params[2])
                   and isinstance(n.value, ast.Call) and is_name(n.value.func, 'OrderedDict') and not n.value.args
                   for n in fu.own_nodes())
    # (c) register() inserts the type into the tree of every known op
    ru = ctx.unit('core.TargetRegistry.register')
    nmv = None
    for n in ru.own_nodes():
        if isinstance(n, ast.Assign) and is_name(n.targets[0]) and matches(n.value, 'dict(%s)' % ru.kwarg):
            nmv = n.targets[0].id
    every_op = nmv is not None and any(isinstance(n, ast.For) and '_op_auto_map' in norm(n.iter) and nmv in norm(n.iter) for n in ru.own_nodes()) and \
        any(isinstance(n, ast.For) and is_name(n.iter, nmv) and any(
            isinstance(c, ast.Call) and isinstance(c.func, ast.Attribute) and c.func.attr == '_register_fuzzy_type'
            for c in ast.walk(n)) for n in ru.own_nodes())
    # (d) predicate types registered by default
    du = ctx.unit('core.TargetRegistry._register_default_types')
    preds = []
    for c in calls_in(du):
        if isinstance(c.func, ast.Attribute) and c.func.attr == 'register' and c.args and is_name(c.args[0]):
            d = p.static(du, c.args[0])
            if d.kind == 'class':
                k = d.cls
                hook = k.defines('__subclasshook__')
                meta_ic = False
                for b in k.node.bases:
                    if isinstance(b, ast.Call) and is_name(b.func):
                        md = p.static(du, b.func)
                        if md.kind == 'class' and md.cls.defines('__instancecheck__'):
                            meta_ic = True
                if hook or meta_ic:
                    preds.append(k.name)
    ctx.ob(True, u, 'derived facts: first-match=%s, registration-ordered=%s, every-op=%s, default predicate types=%s'
           % (first_match, appended, every_op, preds))
    hazard = first_match and appended and every_op and '_ObjStyleKeys' in preds
    ctx.ob(not hazard, u, 'sibling selection is first isinstance match in registration order',
           'predicate type _ObjStyleKeys (any object with a __dict__) is registered by default in every op tree and '
           'precedes every user type among object\'s children: an unregistered subclass of a user-registered type gets '
           'getattr instead of the base\'s handler (g = Glommer(); g.register(Base, get=h); g.glom(Sub(), "x"))', node=lp)
    ctx.floor(2)


def _root_name(e):
    while isinstance(e, (ast.Subscript, ast.Attribute)):
        e = e.value
    return e.id if isinstance(e, ast.Name) else None


@rule('C13.6')
def tree_structure(ctx):
    u = ctx.unit('core.TargetRegistry._get_closest_type')
    lp = [n for n in u.own_nodes() if isinstance(n, ast.For)][0]
    ok = isinstance(lp.target, ast.Tuple) and norm(lp.iter) == 'type_tree.items()'
    ctx.ob(ok, u, 'the walk visits (type, subtree) pairs of the given tree: for %s in %s' % (src(lp.target), norm(lp.iter)))
    ct, sub = [e.id for e in lp.target.elts] if ok else (None, None)
    gcfg = ctx.cfg(u)
    mem = [(t, polarity(t.ast, 'isinstance(%s, %s)' % (u.params[1], ct))) for t in gcfg.nodes if t.kind == 'test']
    mem = [(t, e) for t, e in mem if e]
    ctx.ob(len(mem) == 1, u, 'membership is decided by isinstance(obj, type)')
    rec = [c for c in calls_in(u) if isinstance(c.func, ast.Attribute) and c.func.attr == '_get_closest_type']
    ok = len(rec) == 1 and is_name(rec[0].args[0], u.params[1]) and is_name(kwarg(rec[0], 'type_tree', 1), sub)
    if ok and mem:
        hdr = gcfg.node_of(lp)
        rn = gcfg.node_containing(rec[0])
        ok = gcfg.dominates(mem[0][0], rn) and gcfg.find_path(
            mem[0][0], {rn}, avoid={hdr}, labels=lambda l: l != 'exc',
            start_labels=lambda l, e=('false' if mem[0][1] == 'true' else 'true'): l == e) is None
    ctx.ob(ok, u, 'a matching type\'s own subtree is searched for a more specific one: %s' % [norm(r) for r in rec])
    # the result for a matching type: the subtree's answer when there is one, else the type itself
    ok = False
    shown = []
    if len(rec) == 1:
        rst = stmt_of(rec[0])
        subv = rst.targets[0].id if isinstance(rst, ast.Assign) and is_name(rst.targets[0]) else None
        lrets = [n for n in gcfg.nodes if n.kind == 'stmt' and isinstance(n.ast, ast.Return) and gcfg.node_of(lp) in n.loop_stack]
        shown = [norm(n.ast) for n in lrets]
        if subv and len(lrets) == 1:
            v = deref(gcfg, lrets[0], lrets[0].ast.value)
            if isinstance(v, ast.IfExp):
                pol = polarity(v.test, '%s is None' % subv)
                a, b_ = (v.body, v.orelse) if pol == 'true' else (v.orelse, v.body)
                ok = pol is not None and is_name(a, ct) and is_name(b_, subv)
            elif is_name(lrets[0].ast.value, subv):
                # the subtree's answer, replaced by the matching type when there is none:
                # ``r = walk(sub); if r is None: r = type; return r``
                ds = gcfg.reaching_defs(lrets[0], subv)
                fall = [dn for dn, dv in ds if isinstance(dv, ast.AST) and is_name(dv, ct)]
                keep = [dn for dn, dv in ds if dv is rec[0]]
                if len(ds) == 2 and len(fall) == 1 and len(keep) == 1:
                    for t in gcfg.nodes:
                        if t.kind == 'test':
                            pol = polarity(t.ast, '%s is None' % subv)
                            if pol and fall[0] in exclusive(gcfg, t, pol) and gcfg.dominates(keep[0], t):
                                ok = True
        elif subv and len(lrets) == 2:
            for t in gcfg.nodes:
                if t.kind != 'test':
                    continue
                pol = polarity(t.ast, '%s is None' % subv)
                if pol:
                    none_side = [n for n in exclusive(gcfg, t, pol) if n in lrets]
                    some_side = [n for n in lrets if n not in none_side]
                    ok = len(none_side) == 1 and is_name(none_side[0].ast.value, ct) and len(some_side) == 1 \
                        and is_name(some_side[0].ast.value, subv)
    ctx.ob(ok, u, 'the more specific type wins over the matching ancestor: %s' % shown)
    rets = [n for n in u.node.body if isinstance(n, ast.Return)]
    ok = len(rets) == 1
    if ok:
        d = deref(ctx.cfg(u), ctx.cfg(u).node_of(rets[0]), rets[0].value)
        ok = isinstance(d, ast.Constant) and d.value is None
    ctx.ob(ok, u, 'no matching sibling: no registered type (None)')
    fu = ctx.unit('core.TargetRegistry._register_fuzzy_type')
    lp = [n for n in fu.own_nodes() if isinstance(n, ast.For)]
    ctx.require(len(lp) == 1, '_register_fuzzy_type: loop not found')
    ok = isinstance(lp[0].iter, ast.Call) and is_name(lp[0].iter.func, 'list') and norm(lp[0].iter.args[0]) == '_type_tree.items()'
    ctx.ob(ok, fu, 'insertion iterates a snapshot of the siblings (the tree is modified inside): %s' % norm(lp[0].iter))
    jumps = [n for n in ast.walk(lp[0]) if isinstance(n, (ast.Break, ast.Continue, ast.Return))]
    ctx.ob(not jumps, fu, 'every sibling is examined (no break / continue / return in the insertion loop)',
           '' if not jumps else 'a type with several registered bases would be attached under the first one only: %s' % [norm(j) for j in jumps])
    tg = lp[0].target
    ct, sub = (tg.elts[0].id, tg.elts[1].id) if isinstance(tg, ast.Tuple) and len(tg.elts) == 2 else (None, None)
    new_type = fu.params[2]
    tests = [norm(n.test) for n in ast.walk(lp[0]) if isinstance(n, ast.If)]
    ctx.ob('issubclass(%s, %s)' % (ct, new_type) in tests and 'issubclass(%s, %s)' % (new_type, ct) in tests, fu,
           'both directions of the subclass relation are handled: %s' % tests)
    # existing subclass moves under the new type
    pops = [c for c in calls_in(fu) if isinstance(c.func, ast.Attribute) and c.func.attr == 'pop' and is_name(c.func.value, fu.params[3])]
    ctx.ob(len(pops) == 1 and is_name(pops[0].args[0], ct), fu, 'an existing subclass is re-parented under the new type')
    rec = [c for c in calls_in(fu) if isinstance(c.func, ast.Attribute) and c.func.attr == '_register_fuzzy_type']
    ok = len(rec) == 1 and is_name(rec[0].args[1], new_type) and is_name(kwarg(rec[0], '_type_tree', 2), sub)
    ctx.ob(ok, fu, "a new subclass descends into its base's subtree: %s" % [norm(r) for r in rec])
    flags = [n.targets[0].id for n in fu.node.body if isinstance(n, ast.Assign) and is_name(n.targets[0])
             and isinstance(n.value, ast.Constant) and n.value.value is False]
    tail = [n for n in fu.node.body if isinstance(n, ast.If) and isinstance(n.test, ast.UnaryOp) and isinstance(n.test.op, ast.Not)
            and isinstance(n.test.operand, ast.Name) and n.test.operand.id in flags]
    ctx.ob(len(tail) == 1, fu, 'an unrelated type becomes a new sibling')
    # placed-exactly-once: after either placement (re-parenting a subclass / descending into a base)
    # the fallback store that files the type as a fresh sibling is infeasible; without a
    # placement it is reached.  Decided on flag-sensitive paths (the ``registered`` flag).
    fcfg = ctx.cfg(fu)
    tree = fu.params[3]
    fallback = [n for n in fcfg.nodes if n.kind == 'stmt' and lp and fcfg.node_of(lp[0]) not in n.loop_stack
                and isinstance(n.ast, ast.Assign) and matches(n.ast, '%s[%s] = OrderedDict()' % (tree, new_type))]
    placements = [n for n in fcfg.nodes if n.kind == 'stmt' and lp and fcfg.node_of(lp[0]) in n.loop_stack
                  and isinstance(n.ast, ast.Assign) and isinstance(n.ast.targets[0], ast.Subscript)
                  and _root_name(n.ast.targets[0]) == tree]
    ok = len(fallback) == 1 and len(placements) >= 2
    if ok:
        nonexc = lambda lab: lab != 'exc'
        for pl in placements:
            if isinstance(pl.ast.value, ast.Call) and isinstance(pl.ast.value.func, ast.Attribute) and pl.ast.value.func.attr == 'pop':
                continue
            pth = fcfg.find_path(pl, set(fallback), labels=nonexc)
            okp = pth is None
            ctx.ob(okp, fu, 'a placed type is not filed again as a fresh sibling: %s' % norm(pl.ast)[:70],
                   '' if okp else 'the fallback store overwrites the subtree just built: %s' % fmt_witness(fcfg, pth), node=pl.ast)
        # adopting a second sibling keeps the first: inside the loop the new type's subtree is
        # created only when it does not exist yet (KeyError handler / membership guard), or
        # is built from the existing one
        for pl in placements:
            tg0 = pl.ast.targets[0]
            if not (is_name(tg0.value, tree) and is_name(tg0.slice, new_type)):
                continue
            cur = '%s[%s]' % (tree, new_type)
            okp = any(norm(x).startswith(cur) or norm(x).startswith('%s.get(%s' % (tree, new_type))
                      for x in ast.walk(pl.ast.value) if isinstance(x, (ast.Subscript, ast.Call)))
            for a in ancestors(pl.ast):
                if isinstance(a, ast.ExceptHandler) and a.type is not None and 'KeyError' in norm(a.type):
                    tr = [t for t in ancestors(a) if isinstance(t, ast.Try) and a in t.handlers]
                    if tr and any(isinstance(x, ast.Subscript) and norm(x.value) == cur for b_ in tr[0].body for x in ast.walk(b_)):
                        okp = True
            for t in fcfg.nodes:
                if t.kind == 'test' and fcfg.dominates(t, pl):
                    pol = polarity(t.ast, '%s not in %s' % (new_type, tree))
                    if pol and pl in exclusive(fcfg, t, pol):
                        okp = True
            ctx.ob(okp, fu, "the new type's subtree is created only when absent: %s" % norm(pl.ast)[:70],
                   '' if okp else 'a second adopted subclass replaces the subtree holding the first (earlier siblings fall out of the tree)',
                   node=pl.ast)
        hdr = fcfg.node_of(lp[0])
        pth = fcfg.find_path(fcfg.entry, set(fallback), avoid=set(placements), labels=nonexc)
        ctx.ob(pth is not None, fu, 'a type related to no sibling is filed as a new sibling')
    ctx.ob(ok, fu, 'placement stores and the fallback store found (%d / %d)' % (len(placements), len(fallback)))
    ctx.floor(12)


@rule('C13.7')
def register_stores(ctx):
    p = ctx.program
    u = ctx.unit('core.TargetRegistry.register')
    cfg = ctx.cfg(u)
    ttype = u.params[1]
    st = [n for n in u.own_nodes() if isinstance(n, ast.Assign) and isinstance(n.targets[0], ast.Subscript)
          and _self_attr_root(n.targets[0]) == '_op_type_map']
    b = match(st[0], 'self._op_type_map[$o][%s] = $h' % ttype) if len(st) == 1 else None
    ctx.ob(b is not None, u, 'the handler is stored under (op, exactly the given type): %s' % [norm(s_) for s_ in st])
    lp = [a for a in ancestors(st[0]) if isinstance(a, ast.For)] if st else []
    nm = None
    if lp and b:
        bb = match(lp[0], 'for %s, %s in $m.items():\n    $$body' % (b['o'], b['h']))
        nm = lp[0].iter.func.value.id if isinstance(lp[0].iter, ast.Call) and isinstance(lp[0].iter.func, ast.Attribute) \
            and lp[0].iter.func.attr == 'items' and is_name(lp[0].iter.func.value) else None
        tg = lp[0].target
        okl = nm is not None and isinstance(tg, ast.Tuple) and [e.id for e in tg.elts] == [b['o'], b['h']]
    else:
        okl = False
    ctx.ob(okl, u, 'for every op of the registration')
    # nm is the merged op map: starts as dict(kwargs)
    nmdef = [n for n in u.own_nodes() if isinstance(n, ast.Assign) and is_name(n.targets[0], nm)]
    ctx.ob(len(nmdef) == 1 and matches(nmdef[0].value, 'dict(%s)' % u.kwarg), u, 'the registration starts from the handlers passed by the caller')
    # explicit handler beats existing beats auto-discovered
    chain = [n for n in u.own_nodes() if isinstance(n, ast.If) and nm and match(n.test, '$o in %s' % nm) is not None]
    ok = len(chain) == 1
    if ok:
        bo = match(chain[0].test, '$o in %s' % nm)
        ok = matches(chain[0].body[0], '$h = %s[%s]' % (nm, bo['o']))
    ctx.ob(ok, u, 'a handler passed by the caller is used as given')
    if chain:
        e = chain[0].orelse
        ok = len(e) == 1 and isinstance(e[0], ast.If)
        if ok:
            b2 = match(e[0].test, '%s in $cm' % ttype)
            ok = b2 is not None and matches(e[0].body[0], '$h = %s[%s]' % (b2['cm'], ttype))
        ctx.ob(ok, u, "ops not mentioned keep the type's existing handler")
    # exact registrations stay out of the tree
    ex = [n for n in u.own_nodes() if isinstance(n, ast.Assign) and is_name(n.targets[0]) and isinstance(n.value, ast.Call)
          and matches(n.value, "%s.pop('exact', $$d)" % u.kwarg)]
    ev = ex[0].targets[0].id if len(ex) == 1 else None
    ctx.ob(ev is not None, u, "exact is the caller's keyword: %s" % [norm(x) for x in ex])
    g = [n for n in u.own_nodes() if isinstance(n, ast.If) and ev and matches(n.test, 'not %s' % ev)]
    ok = len(g) == 1 and any(isinstance(c, ast.Call) and isinstance(c.func, ast.Attribute) and c.func.attr == '_register_fuzzy_type'
                             for c in ast.walk(g[0]))
    ctx.ob(ok, u, 'only non-exact registrations enter the subclass tree')
    gu = ctx.unit('core.Glommer.register')
    cs = [c for c in calls_in(gu) if isinstance(c.func, ast.Attribute) and c.func.attr == 'register']
    ok = len(cs) == 1
    if ok:
        kv = [k.value for k in cs[0].keywords if k.arg == 'exact']
        dd = deref(ctx.cfg(gu), ctx.cfg(gu).node_containing(cs[0]), kv[0]) if kv else None
        ok = isinstance(dd, ast.Call) and matches(dd, "%s.pop('exact', False)" % gu.kwarg)
    ctx.ob(ok, gu, 'Glommer.register passes exact on')
    # ... and the handlers exactly as given (False = "this type does not support the op" is a value)
    fw = [k.value for k in cs[0].keywords if k.arg is None] if cs else []
    gcfg2 = ctx.cfg(gu)
    okh = len(fw) == 1 and is_name(fw[0], gu.kwarg)
    if okh:
        defs = gcfg2.reaching_defs(gcfg2.node_containing(cs[0]), gu.kwarg)
        okh = bool(defs) and all(isinstance(v, tuple) and v and v[0] == 'param' for _, v in defs)
    ctx.ob(okh, gu, 'Glommer.register forwards the handlers it was given, unfiltered: %s' % [norm(x) for x in fw],
           '' if okh else 'a handler of False / None is a registration too; filtered, autodiscovery replaces it')
    # an op declared without saying otherwise covers subclasses too (exact defaults to False)
    ou = ctx.unit('core.TargetRegistry.register_op')
    a = ou.node.args
    dfl = dict(zip([x.arg for x in a.args][len(a.args) - len(a.defaults):], a.defaults))
    d = dfl.get('exact')
    ctx.ob(isinstance(d, ast.Constant) and d.value is False, ou, 'register_op(.., exact=False) by default: %s' % (norm(d) if d is not None else None),
           '' if isinstance(d, ast.Constant) and d.value is False else 'ops declared without the flag would skip the subclass tree')
    # type check
    first = next((n for n in u.node.body if isinstance(n, ast.If)), None)
    ctx.ob(isinstance(first, ast.If) and norm(first.test) == 'not isinstance(%s, type)' % ttype, u, 'only types can be registered')
    ctx.floor(8)


@rule('C13.12')
def tree_insertion_order_is_deterministic(ctx):
    """the type tree is order-sensitive (siblings are searched in insertion order, first
    isinstance match wins), so every loop that inserts types into it must run over a sequence
    with a defined order -- a set of classes iterates in address order, which differs from run to
    run and decides e.g. whether a dict subclass with a __dict__ gets the item or the attribute
    handler of an op declared through register_op"""
    p = ctx.program
    c = ctx.cls('core.TargetRegistry')
    n = 0
    for name, u in sorted(c.methods.items()):
        cfg = ctx.cfg(u)
        for lp in [x for x in u.own_nodes() if isinstance(x, ast.For)]:
            inserts = [k for k in ast.walk(lp) if isinstance(k, ast.Call) and isinstance(k.func, ast.Attribute)
                       and k.func.attr == '_register_fuzzy_type']
            if not inserts:
                continue
            n += 1
            it = deref(cfg, cfg.node_of(lp), lp.iter)
            unordered = isinstance(it, (ast.Set, ast.SetComp)) or (
                isinstance(it, ast.Call) and is_name(it.func) and it.func.id in ('set', 'frozenset')) or (
                isinstance(it, ast.BinOp) and isinstance(it.op, (ast.Sub, ast.BitAnd, ast.BitOr))
                and any(isinstance(x, ast.Call) and is_name(x.func, 'set') for x in (it.left, it.right)))
            ctx.ob(not unordered, u, 'types are inserted into the tree in a defined order: for %s in %s' % (src(lp.target), norm(lp.iter)),
                   '' if not unordered else '%s is a set: sibling order in the type tree (and with it the handler chosen for '
                   'objects matching two sibling types) depends on object addresses' % norm(it)[:70], node=lp)
    ctx.require(n >= 2, 'TargetRegistry: tree-inserting loops not found (%d)' % n)
    ctx.floor(2)


PUBLIC_ENTRIES = {'core.glom', 'mutation.assign', 'mutation.delete', 'reduction.flatten', 'reduction.merge',
                  'core.Glommer.glom', 'core.Fill.fill', 'matching.Match.verify', 'matching.Match.matches'}


@rule('C13.13')
def nested_evaluation_keeps_the_registry(ctx):
    """the registry in force travels in the scope: code running inside an evaluation starts a
    nested one through ``scope[glom](target, spec, scope)``.  A call of the public entry points
    (glom(), assign(), delete(), ...) from there begins a fresh top-level call on the default
    registry: a Glommer's registrations stop applying inside the nested part"""
    from ..callgraph import reachable_from
    p = ctx.program
    roots = [p.unit('core._glom')]
    spec_classes = set(p.glomit_classes())
    for u in p.package_units():
        if u.parent is not None:
            top = u
            while top.parent is not None:
                top = top.parent
            if top.cls in spec_classes:
                roots.append(u)
    reach, modes, evals = reachable_from(p, roots)
    ctx.require(len(reach) >= 100, 'call-graph closure of the evaluator has only %d functions' % len(reach))
    n = 0
    for u in sorted(reach, key=lambda x: x.qualname):
        if u.qualname in PUBLIC_ENTRIES:
            continue
        for c in calls_in(u):
            q = callee_qual(p, u, c)
            if q in PUBLIC_ENTRIES:
                n += 1
                ctx.ob(False, u, 'no public entry point is called from inside an evaluation: %s' % norm(c)[:80],
                       '%s starts a new top-level call: default registry, fresh scope (the registry of the running call is lost)' % q, node=c)
    # ... nor handed on as a callable (partial(glom, spec=..) as a key function is the same thing)
    units = set(reach)
    for k in spec_classes:
        units.update(k.methods.values())
    for u in sorted(units, key=lambda x: x.qualname):
        if u.qualname in PUBLIC_ENTRIES or u.qualname == 'core.Spec.glom':
            continue
        for x in u.own_nodes():
            if not (isinstance(x, ast.Name) and isinstance(x.ctx, ast.Load)):
                continue
            if p.global_qualname(u, x) not in PUBLIC_ENTRIES:
                continue
            par = parent(x)
            if isinstance(par, ast.Call) and par.func is x:
                if u in reach:
                    continue        # reported above
                n += 1
                ctx.ob(False, u, 'no public entry point is called from a spec\'s own code: %s' % norm(par)[:80],
                       'starts a new top-level call (default registry, fresh scope, errors wrapped early)', node=par)
                continue
            if isinstance(par, ast.Subscript) and par.slice is x:
                continue            # scope[glom]: the key under which the evaluator travels
            if isinstance(par, ast.Call) and isinstance(par.func, ast.Attribute) and par.func.attr == 'get' and par.args and par.args[0] is x:
                continue
            if isinstance(par, ast.Dict) and x in par.keys:
                continue
            n += 1
            ctx.ob(False, u, 'no public entry point is handed on as a callable from a spec\'s own code: %s' % norm(par)[:80],
                   'whoever calls it starts a new top-level call: default registry, fresh scope, errors wrapped before the enclosing call sees them', node=x)
    ctx.ob(n == 0, 'package', 'nested evaluations go through scope[glom] (%d evaluation functions examined, %d entry-point uses)' % (len(units), n))
    ctx.floor(1)


@rule('C13.17')
def miss_is_reported_on_every_lookup(ctx):
    """get_handler(.., raise_exc=True) raises UnregisteredTarget for a type without a handler --
    on every lookup, also when the miss is answered from the memo (an earlier raise_exc=False
    lookup memoises False; returning that False to a caller that asked for an exception makes
    the caller call False(..))"""
    u = ctx.unit('core.TargetRegistry.get_handler')
    cfg = ctx.cfg(u)
    flag = 'raise_exc'
    ctx.require(flag in u.params, 'get_handler: raise_exc parameter not found')
    tests = {t for t in cfg.nodes if t.kind == 'test' and any(is_name(x, flag) for x in ast.walk(t.ast))}
    rets = {n for n in cfg.nodes if n.kind == 'stmt' and isinstance(n.ast, ast.Return)}
    ctx.require(tests and rets, 'get_handler: raise_exc test / returns not found')
    ok, wit = cfg.must_pass(cfg.entry, rets, tests, labels=lambda l: l != 'exc')
    ctx.ob(ok, u, 'every lookup decides whether to raise for a missing handler before it returns',
           '' if ok else 'a memo hit returns without consulting raise_exc: %s' % fmt_witness(cfg, wit))
    raises = [n for n in cfg.nodes if n.kind == 'stmt' and isinstance(n.ast, ast.Raise) and n.ast.exc is not None
              and isinstance(n.ast.exc, ast.Call) and callee_qual(ctx.program, u, n.ast.exc) == 'core.UnregisteredTarget']
    ctx.ob(len(raises) >= 1, u, 'a missing handler is reported as UnregisteredTarget')
    ctx.floor(2)


ITERATION_CONSUMERS = ('core._handle_list', 'streaming.Iter._iterate', 'grouping.target_iter')


@rule('C13.21')
def iteration_asks_the_registry(ctx):
    """every consumer of the 'iterate' operation (list specs, Iter, Fold / Group through target_iter)
    asks the running call's registry for every target -- an empty or falsy target included: no
    exit is reached without the lookup -- and takes the registry's answer as final: an
    UnregisteredTarget from the lookup is never caught and replaced by a built-in fallback
    (``iter``), which would override an explicit ``iterate=False`` and a bare Glommer"""
    p = ctx.program
    n = 0
    for q in ITERATION_CONSUMERS:
        u = ctx.unit(q)
        cfg = ctx.cfg(u)
        looks = [c for c in calls_in(u) if isinstance(c.func, ast.Attribute) and c.func.attr == 'get_handler'
                 and c.args and isinstance(c.args[0], ast.Constant) and c.args[0].value == 'iterate']
        tprm = u.params[1] if u.cls is not None else u.params[0]
        if not looks:
            # the consumer hands its target to another consumer (Iter re-using target_iter): that
            # call stands for the lookup
            via = [c for c in calls_in(u) if callee_qual(p, u, c) in ITERATION_CONSUMERS and callee_qual(p, u, c) != q
                   and c.args and is_name(c.args[0], tprm)]
            ctx.require(len(via) == 1, "%s: the 'iterate' lookup not found (%d)" % (q, len(looks)))
            n += 1
            c = via[0]
            ln = cfg.node_containing(c)
            ctx.ob(True, u, 'the target is handed to %s, which asks the registry: %s' % (callee_qual(p, u, c), norm(c)[:60]), node=c)
        else:
            ctx.require(len(looks) == 1, "%s: the 'iterate' lookup not found (%d)" % (q, len(looks)))
            n += 1
            c = looks[0]
            ln = cfg.node_containing(c)
            ok = len(c.args) >= 2 and is_name(c.args[1], tprm) \
                and isinstance(c.func.value, ast.Subscript) and p.scope_key(u, c.func.value.slice) == 'core.TargetRegistry'
            ctx.ob(ok, u, 'the handler is looked up for the target in the registry of the running call: %s' % norm(c)[:80], node=c)
        # no normal exit without the lookup
        exits = {x for x in cfg.nodes if x.kind == 'stmt' and isinstance(x.ast, ast.Return)} | {cfg.exit}
        okp, wit = cfg.must_pass(cfg.entry, exits, {ln}, labels=lambda l: l != 'exc')
        ctx.ob(okp, u, 'no result is produced without asking the registry',
               '' if okp else 'a path answers without the lookup (an unsupported or specially registered target is not noticed): %s'
               % fmt_witness(cfg, wit), node=c)
        # the registry's "unsupported" is final
        for h in cfg.handlers_reached_from(ln):
            if not handler_covers(cfg, h, 'core.UnregisteredTarget', p):
                continue
            out = handler_outcomes(cfg, h)
            okh = bool(out) and not completes_normally(out)
            ctx.ob(okh, u, 'a refused lookup is not replaced by a fallback: except %s' % (src(h.ast.type) if h.ast.type is not None else ''),
                   '' if okh else 'the handler goes on with a handler of its own: what is registered as not iterable is iterated anyway', node=h.ast)
    ctx.floor(6)
