"""C05 -- error messages carry a faithful target-spec trace (bookkeeping half)."""
import ast

from . import rule, info
from ..program import AnalysisError, src, norm, ClassInfo
from ..pattern import match, matches
from ..util import (clone, parent, exclusive, branch_of, polarity, cond_expr, is_name, calls_in, callee_qual, deref, ancestors, handler_outcomes, handler_body_nodes,
                    enclosing_trys, handler_covers, completes_normally, evaluator_calls, fmt_witness)

info('C05',
     explanation='Static decision of the bookkeeping the trace is rebuilt from: the evaluator links the '
                 'child frame into its parent before dispatch on every path and records the failing frame '
                 '(CHILD_ERRORS, CUR_ERROR, NO_PYFRAME walk) on every exceptional exit; every scope key the '
                 'trace reader subscripts unconditionally is written into every frame the evaluator '
                 'creates; the frame recycler forgives earlier branches and marks the frame; recovering '
                 'handlers evaluate their branches in their own frame; record layout agreement between '
                 '_unpack_stack and format_target_spec_trace; message providers exist.  All formatting '
                 '(line order, truncation, marks) is NOT decided.',
     decided=['C05.1 evaluator bookkeeping', 'C05.2 reader/writer key agreement', 'C05.3 recycler',
              'C05.4 branches recorded in the brancher', 'C05.5 message providers', 'C05.6 stack record layout',
              'C05.7 finalisation wiring'],
     not_decided=['everything format_target_spec_trace does with the data: ordering of lines, truncation at '
                  'TRACE_WIDTH, branch marks, non-ASCII reprs'])


def key_is(p, u, e, q):
    return p.scope_key(u, e) == q


@rule('C05.1')
def evaluator_bookkeeping(ctx):
    p = ctx.program
    u = ctx.unit('core._glom')
    cfg = ctx.cfg(u)
    scope_param = u.params[2]
    childs = [n for n in u.own_nodes() if isinstance(n, ast.Assign) and isinstance(n.value, ast.Call)
              and isinstance(n.value.func, ast.Attribute) and n.value.func.attr == 'new_child']
    ctx.require(len(childs) == 1, '_glom: child frame construction not found')
    child = childs[0].targets[0].id
    cnode = cfg.node_of(childs[0])
    # parent link
    links = [n for n in u.own_nodes() if isinstance(n, ast.Assign) and isinstance(n.targets[0], ast.Subscript)
             and key_is(p, u, n.targets[0].slice, 'core.LAST_CHILD_SCOPE')]
    ctx.ob(len(links) == 1 and is_name(links[0].value, child), u,
           'the parent records the child frame as its last child: %s' % [norm(l) for l in links])
    dispatch = [c for c in calls_in(u) if callee_qual(p, u, c) == 'core._t_eval'
                or (isinstance(c.func, ast.Attribute) and c.func.attr == 'glomit')
                or isinstance(c.func, ast.BoolOp)]
    ctx.require(len(dispatch) == 3, '_glom: expected 3 dispatch calls, found %d' % len(dispatch))
    if links:
        ln = cfg.node_of(links[0])
        base = deref(cfg, ln, links[0].targets[0].value)
        # the parent's own map: <original scope>.maps[0]
        ok = isinstance(base, ast.Subscript) and isinstance(base.value, ast.Attribute) and base.value.attr == 'maps' \
            and isinstance(base.slice, ast.Constant) and base.slice.value == 0
        if ok:
            root = deref(cfg, cfg.node_containing(base) or ln, base.value.value)
            ok = is_name(root, scope_param) and not any(name == scope_param for dn, _ in
                                                         [(d, v) for d, v in cfg.reaching_defs(
                                                             cfg.node_containing(base) or ln, scope_param)]
                                                         for name in [scope_param] if dn is not cfg.entry)
        ctx.ob(ok, u, 'the link is written into the parent frame\'s own map: %s' % norm(links[0]), node=links[0])
        for c in dispatch:
            dn = cfg.node_containing(c)
            ctx.ob(cfg.dominates(ln, dn), u, 'the link precedes dispatch `%s`' % norm(c), node=c)
    # failure recording
    hs = set()
    for c in dispatch:
        dn = cfg.node_containing(c)
        reached = [h for h in cfg.handlers_reached_from(dn) if handler_covers(cfg, h, 'Exception')]
        ctx.ob(bool(reached), u, 'a failure of `%s` reaches the recording handler' % norm(c), node=c)
        hs |= set(reached)
    for h in hs:
        evar = h.ast.name
        body = handler_body_nodes(cfg, h)
        raises = [n for n in body if isinstance(n.ast, ast.Raise)]
        appends = []
        cur_errs = []
        for n in body:
            if n.kind != 'stmt':
                continue
            st = n.ast
            if isinstance(st, ast.Expr) and isinstance(st.value, ast.Call) and isinstance(st.value.func, ast.Attribute) \
                    and st.value.func.attr == 'append' and isinstance(st.value.func.value, ast.Subscript) \
                    and key_is(p, u, st.value.func.value.slice, 'core.CHILD_ERRORS'):
                appends.append(n)
            if isinstance(st, ast.Assign) and isinstance(st.targets[0], ast.Subscript) \
                    and key_is(p, u, st.targets[0].slice, 'core.CUR_ERROR'):
                cur_errs.append(n)
        top_app = [n for n in appends if not n.loop_stack]
        top_cur = [n for n in cur_errs if not n.loop_stack]
        ok = len(top_app) == 1
        if ok:
            call = top_app[0].ast.value
            base = call.func.value.value     # <x>.maps[1]
            ok = isinstance(base, ast.Subscript) and isinstance(base.value, ast.Attribute) and base.value.attr == 'maps' \
                and is_name(base.value.value, child) and isinstance(base.slice, ast.Constant) and base.slice.value == 1 \
                and len(call.args) == 1 and is_name(call.args[0], child)
        ctx.ob(ok, u, 'the failing frame is appended to its parent\'s CHILD_ERRORS: %s' % [norm(n.ast) for n in top_app])
        ok = len(top_cur) == 1
        if ok:
            st = top_cur[0].ast
            base = st.targets[0].value
            ok = isinstance(base, ast.Subscript) and isinstance(base.value, ast.Attribute) and base.value.attr == 'maps' \
                and is_name(base.value.value, child) and isinstance(base.slice, ast.Constant) and base.slice.value == 0 \
                and is_name(st.value, evar)
        ctx.ob(ok, u, 'the frame\'s CUR_ERROR is bound to the caught exception: %s' % [norm(n.ast) for n in top_cur])
        for r in raises:
            for n in top_app + top_cur:
                ctx.ob(cfg.dominates(n, r), u, '`%s` happens on every path to the re-raise' % norm(n.ast), node=n.ast)
        # NO_PYFRAME walk for recycled (chained) frames
        loops = [n for n in body if n.kind == 'test' and isinstance(n.stmt, ast.While)]
        ctx.ob(len(loops) == 1, u, 'chained frames without a python frame are walked upwards (one loop)')
        for lp in loops:
            t = lp.ast
            ok = isinstance(t, ast.Compare) and isinstance(t.ops[0], ast.In) and key_is(p, u, t.left, 'core.NO_PYFRAME')
            ctx.ob(ok, u, 'the walk continues while the frame is marked NO_PYFRAME: %s' % norm(t), node=t)
            lb = [n for n in body if lp in n.loop_stack]
            la = [n for n in appends if n in lb]
            lc = [n for n in cur_errs if n in lb]
            adv = [n for n in lb if n.kind == 'stmt' and isinstance(n.ast, ast.Assign) and isinstance(n.ast.value, ast.Subscript)
                   and key_is(p, u, n.ast.value.slice, 'core.UP')]
            wv = adv[0].ast.targets[0].id if adv and is_name(adv[0].ast.targets[0]) else None
            ok = len(la) == 1 and len(lc) == 1 and len(adv) == 1 and wv is not None
            if ok:
                call = la[0].ast.value
                ok = is_name(call.args[0], wv) and is_name(call.func.value.value.value.value, wv) \
                    and call.func.value.value.slice.value == 1 and is_name(lc[0].ast.value, evar) \
                    and is_name(lc[0].ast.targets[0].value.value.value, wv) and lc[0].ast.targets[0].value.slice.value == 0 \
                    and is_name(adv[0].ast.value.value, wv)
            ctx.ob(ok, u, 'each walked frame is recorded in its parent, gets CUR_ERROR, and the walk moves UP',
                   'loop body: %s' % [norm(n.ast) for n in lb if n.kind == 'stmt'])
            # guard: only when the parent map is marked
            g = [a for a in ancestors(lp.stmt) if isinstance(a, ast.If)]
            ok = bool(g) and isinstance(g[0].test, ast.Compare) and isinstance(g[0].test.ops[0], ast.In) \
                and key_is(p, u, g[0].test.left, 'core.NO_PYFRAME')
            ctx.ob(ok, u, 'the walk starts when the parent frame is marked NO_PYFRAME: %s'
                   % (norm(g[0].test) if g else None))
    ctx.floor(14)


def _frame_vars(unit):
    """locals of the trace reader that hold a frame map: the scope parameter, rebound to <x>.maps[0], and
    values read from LAST_CHILD_SCOPE"""
    out = {'scope'} | set(unit.params[:1])
    changed = True
    while changed:
        changed = False
        for n in unit.own_nodes():
            if isinstance(n, ast.Assign) and is_name(n.targets[0]) and n.targets[0].id not in out:
                v = n.value
                root = v
                while isinstance(root, (ast.Subscript, ast.Attribute)):
                    root = root.value
                if isinstance(root, ast.Name) and root.id in out and isinstance(v, (ast.Subscript, ast.Attribute, ast.Name)):
                    out.add(n.targets[0].id)
                    changed = True
    return out


@rule('C05.2')
def key_agreement(ctx):
    p = ctx.program
    readers = [ctx.unit('core._unpack_stack'), ctx.unit('core.format_target_spec_trace')]
    need = {}
    for r in readers:
        fv = _frame_vars(r) | {'child'}
        for n in r.own_nodes():
            if isinstance(n, ast.Subscript) and isinstance(n.ctx, ast.Load) and is_name(n.value) \
                    and n.value.id in fv:
                k = p.scope_key(r, n.slice)
                if k is None or not k.startswith('core.'):
                    continue
                # guarded by ``key in scope`` ?
                guarded = False
                for a in ancestors(n):
                    t = getattr(a, 'test', None)
                    if isinstance(a, (ast.If, ast.While)) and t is not None:
                        for x in ast.walk(t):
                            if isinstance(x, ast.Compare) and isinstance(x.ops[0], ast.In) and p.scope_key(r, x.left) == k:
                                guarded = True
                if not guarded:
                    # ... or by an earlier ``if key not in scope: <leave>`` (a guard clause)
                    rcfg = ctx.cfg(r)
                    sn = rcfg.node_containing(n)
                    for t in rcfg.nodes:
                        if t.kind != 'test' or sn is None:
                            continue
                        for x in ast.walk(t.ast):
                            if isinstance(x, ast.Compare) and len(x.ops) == 1 and isinstance(x.ops[0], (ast.In, ast.NotIn)) \
                                    and p.scope_key(r, x.left) == k and x is t.ast:
                                edge = 'true' if isinstance(x.ops[0], ast.In) else 'false'
                                if sn in exclusive(rcfg, t, edge):
                                    guarded = True
                if not guarded:
                    need.setdefault(k, (r, n))
    ctx.require(len(need) >= 3, 'trace reader: fewer than 3 unconditional scope keys found (%s)' % sorted(need))
    u = ctx.unit('core._glom')
    childs = [n for n in u.own_nodes() if isinstance(n, ast.Call) and isinstance(n.func, ast.Attribute)
              and n.func.attr == 'new_child' and n.args and isinstance(n.args[0], ast.Dict)]
    ctx.require(len(childs) == 1, '_glom: frame dict display not found')
    written = {p.scope_key(u, k) for k in childs[0].args[0].keys if k is not None}
    for k, (r, n) in sorted(need.items()):
        ctx.ob(k in written, u, 'every frame carries %s, which the trace reader subscripts unconditionally' % k,
               'frame keys written: %s' % sorted(x for x in written if x), node=childs[0])
    # T and Spec of the frame are the evaluator's own target / spec
    d = childs[0].args[0]
    for k, v in zip(d.keys, d.values):
        kk = p.scope_key(u, k)
        if kk == 'core.T':
            ctx.ob(is_name(v, u.params[0]), u, 'the frame\'s T is the target this evaluation received: %s' % norm(v), node=v)
        if kk == 'core.Spec':
            ctx.ob(is_name(v, u.params[1]), u, 'the frame\'s Spec is the spec being evaluated: %s' % norm(v), node=v)
        if kk == 'core.CHILD_ERRORS':
            ctx.ob(isinstance(v, ast.List) and not v.elts, u, 'every frame starts with its own empty CHILD_ERRORS list', node=v)
        if kk == 'core.UP':
            ctx.ob(True, u, 'the frame links UP to its parent: %s' % norm(v), node=v)
    ctx.floor(6)


@rule('C05.3')
def recycler(ctx):
    p = ctx.program
    u = ctx.unit('core.chain_child')
    cfg = ctx.cfg(u)
    scope = u.params[0]
    rets = [n for n in u.own_nodes() if isinstance(n, ast.Return)]
    recycled = [r for r in rets if not is_name(r.value, scope)]
    ctx.require(len(recycled) == 1 and isinstance(recycled[0].value, ast.Name), 'chain_child: recycling return not found')
    rv = recycled[0].value.id
    rnode = cfg.node_of(recycled[0])
    marks = [n for n in cfg.nodes if n.kind == 'stmt' and isinstance(n.ast, ast.Assign)
             and isinstance(n.ast.targets[0], ast.Subscript) and key_is(p, u, n.ast.targets[0].slice, 'core.NO_PYFRAME')]
    ok = len(marks) == 1 and cfg.dominates(marks[0], rnode)
    if ok:
        b = marks[0].ast.targets[0].value
        ok = isinstance(b, ast.Subscript) and isinstance(b.value, ast.Attribute) and b.value.attr == 'maps' \
            and is_name(b.value.value, rv) and b.slice.value == 0 and isinstance(marks[0].ast.value, ast.Constant) \
            and marks[0].ast.value.value is True
    ctx.ob(ok, u, 'the recycled frame is marked NO_PYFRAME in its own map: %s' % [norm(m.ast) for m in marks])
    clears = [n for n in cfg.nodes if n.kind == 'stmt' and isinstance(n.ast, (ast.Delete, ast.Expr, ast.Assign))
              and any(isinstance(x, ast.Subscript) and key_is(p, u, x.slice, 'core.CHILD_ERRORS') for x in ast.walk(n.ast))]
    ok = len(clears) == 1 and cfg.dominates(clears[0], rnode)
    if ok:
        st = clears[0].ast
        txt = norm(st)
        emptied = (isinstance(st, ast.Delete) and isinstance(st.targets[0], ast.Subscript)
                   and isinstance(st.targets[0].slice, ast.Slice) and st.targets[0].slice.lower is None
                   and st.targets[0].slice.upper is None) or \
                  (isinstance(st, ast.Expr) and isinstance(st.value, ast.Call) and isinstance(st.value.func, ast.Attribute)
                   and st.value.func.attr == 'clear') or \
                  (isinstance(st, ast.Assign) and isinstance(st.value, ast.List) and not st.value.elts)
        ok = emptied and rv in {x.id for x in ast.walk(st) if isinstance(x, ast.Name)}
    ctx.ob(ok, u, 'earlier failed branches of the recycled frame are forgiven: %s' % [norm(c.ast) for c in clears])
    # the recycled frame is the direct last child (one lookup)
    defs = cfg.reaching_defs(rnode, rv)
    ok = len(defs) == 1 and isinstance(defs[0][1], ast.Subscript) and is_name(defs[0][1].value, scope) \
        and key_is(p, u, defs[0][1].slice, 'core.LAST_CHILD_SCOPE')
    ctx.ob(ok, u, 'the recycled frame is the direct last child of the argument frame: %s'
           % [norm(v) if isinstance(v, ast.AST) else v for _, v in defs])
    # no children yet: the argument frame itself
    early = [r for r in rets if is_name(r.value, scope)]
    ok = len(early) == 1
    if ok:
        ok = False
        en = cfg.node_of(early[0])
        for t in cfg.nodes:
            if t.kind != 'test':
                continue
            for tmpl, edge in (('$k not in %s.maps[0]' % scope, 'true'), ('$k in %s.maps[0]' % scope, 'false')):
                b = match(t.ast, tmpl)
                kx = t.ast.left if isinstance(t.ast, ast.Compare) else None
                if b is not None and kx is not None and key_is(p, u, kx, 'core.LAST_CHILD_SCOPE') and en in exclusive(cfg, t, edge):
                    ok = True
    ctx.ob(ok, u, 'a frame without children of its own is used as it is (own map tested, not inherited): %s'
           % [norm(e) for e in early])
    ctx.floor(4)


RECOVERING = ['core.Coalesce.glomit', 'matching.Or._glomit', 'matching.Switch.glomit', 'matching.Not.glomit',
              'matching.Match.glomit', 'matching._glom_match', 'matching._handle_dict']


@rule('C05.4')
def branches_in_brancher(ctx):
    p = ctx.program
    n_sites = 0
    for q in RECOVERING:
        u = ctx.unit(q)
        cfg = ctx.cfg(u)
        scope = u.params[-1]
        for c in evaluator_calls(p, u):
            node = cfg.node_containing(c)
            hs = cfg.handlers_reached_from(node)
            rec = [h for h in hs if completes_normally(handler_outcomes(cfg, h))]
            if not rec:
                continue
            n_sites += 1
            a = c.args[2] if len(c.args) > 2 else None
            ctx.ob(is_name(a, scope) and not [d for d, v in cfg.reaching_defs(node, scope) if d is not cfg.entry], u,
                   'a recoverable branch is evaluated in the brancher\'s own frame: %s' % norm(c),
                   'the failed branch must land in this frame\'s CHILD_ERRORS to appear in the trace', node=c)
    if n_sites < 7:
        raise AnalysisError('C05.4 matched %d recovering evaluator calls, confirmed floor is 7' % n_sites)


@rule('C05.5')
def message_providers(ctx):
    p = ctx.program
    n = 0
    for c in p.classes.values():
        if c.module.short == 'tutorial' or not c.is_subclass_of('GlomError') or c.name == 'GlomError':
            continue
        init = None
        for k in c.mro():
            if isinstance(k, ClassInfo) and k.name != 'GlomError' and '__init__' in k.methods:
                init = k.methods['__init__']
                break
        has_msg = any(isinstance(k, ClassInfo) and k.name != 'GlomError' and 'get_message' in k.methods for k in c.mro())
        if init is None:
            ctx.ob(True, c, '%s takes its message as the exception argument' % c.name)
            n += 1
            continue
        passes = any(isinstance(x.func, ast.Attribute) and x.func.attr == '__init__' and isinstance(x.func.value, ast.Call)
                     and is_name(x.func.value.func, 'super') and x.args for x in calls_in(init))
        ctx.ob(has_msg or passes, c, '%s can render a message (get_message or Exception args)' % c.name,
               '' if (has_msg or passes) else '__init__ stores attributes only and no get_message exists: str(e) is empty')
        n += 1
        if has_msg:
            gm = [k for k in c.mro() if isinstance(k, ClassInfo) and 'get_message' in k.methods][0].methods['get_message']
            rets = [r for r in gm.own_nodes() if isinstance(r, ast.Return)]
            ctx.ob(bool(rets) and all(r.value is not None for r in rets), gm, '%s.get_message returns the text on every path' % c.name)
    # __str__ of an unfinalised error uses get_message when present
    u = ctx.unit('core.GlomError.__str__')
    uses = [x for x in u.own_nodes() if isinstance(x, ast.Attribute) and x.attr == 'get_message']
    ctx.ob(bool(uses), u, 'GlomError.__str__ consults get_message')
    ctx.floor(10)


@rule('C05.6')
def record_layout(ctx):
    """_unpack_stack writes [scope, spec, target, error, branches] records; the
    error slot index it post-processes and the reader's unpacking agree"""
    p = ctx.program
    u = ctx.unit('core._unpack_stack')
    apps = [c for c in calls_in(u) if isinstance(c.func, ast.Attribute) and c.func.attr == 'append'
            and c.args and isinstance(c.args[0], ast.List)]
    ctx.require(len(apps) >= 2, '_unpack_stack: record appends not found')
    shapes = []
    for a in apps:
        rec = a.args[0].elts
        kinds = []
        for e in rec:
            if isinstance(e, ast.Subscript):
                kinds.append(p.scope_key(u, e.slice))
            elif isinstance(e, ast.Call) and isinstance(e.func, ast.Attribute) and e.func.attr == 'get' and e.args:
                kinds.append(p.scope_key(u, e.args[0]))
            elif isinstance(e, ast.Name):
                kinds.append('name:' + e.id)
            elif isinstance(e, ast.List):
                kinds.append('list')
            else:
                kinds.append('?')
        shapes.append(kinds)
    want = ['core.Spec', 'core.T', 'core.CUR_ERROR']
    for a, k in zip(apps, shapes):
        ctx.ob(len(k) == 5 and k[1:4] == want, u, 'stack record is [frame, Spec, T, CUR_ERROR, branches]: %s' % norm(a.args[0]),
               'got %s' % k, node=a)
    err_idx = 3
    params = set(u.all_params)

    def root_name(e):
        while isinstance(e, ast.Subscript):
            e = e.value
        return e.id if isinstance(e, ast.Name) else None
    idx_uses = [n for n in u.own_nodes() if isinstance(n, ast.Subscript) and isinstance(n.slice, ast.Constant)
                and isinstance(n.slice.value, int) and not isinstance(n.slice.value, bool)
                and root_name(n.value) is not None and root_name(n.value) not in params
                and not isinstance(n.value, ast.Attribute)]
    ctx.require(len(idx_uses) >= 4, '_unpack_stack: error-slot post-processing not found')
    for n in idx_uses:
        ctx.ob(n.slice.value == err_idx, u, 'post-processing addresses the error slot (%d): %s' % (err_idx, norm(n)), node=n)
    # the linear shortcut: branches are dropped only when the one recorded branch *is* the last child
    short = [n for n in u.own_nodes() if isinstance(n, ast.If) and len(n.body) == 1 and isinstance(n.body[0], ast.Assign)
             and isinstance(n.body[0].value, ast.List) and not n.body[0].value.elts]
    ctx.require(len(short) == 1, '_unpack_stack: single-branch shortcut not found')
    t = short[0].test
    bv = short[0].body[0].targets[0].id if is_name(short[0].body[0].targets[0]) else None
    childs = [n.targets[0].id for n in u.own_nodes() if isinstance(n, ast.Assign) and is_name(n.targets[0])
              and isinstance(n.value, ast.Subscript) and p.scope_key(u, n.value.slice) == 'core.LAST_CHILD_SCOPE']
    ok = isinstance(t, ast.Compare) and is_name(t.left, bv) and isinstance(t.ops[0], ast.Eq) and isinstance(t.comparators[0], ast.List) \
        and len(t.comparators[0].elts) == 1 and childs and is_name(t.comparators[0].elts[0], childs[0])
    ctx.ob(ok, u, 'a level counts as linear only when its single recorded branch is the child that was followed: %s' % norm(t),
           '' if ok else 'a failed branch other than the last child would vanish from the trace', node=short[0])
    # the first record slot is the frame's own map; branches only when more than the linear child
    r = ctx.unit('core.format_target_spec_trace')
    loops = [n for n in r.own_nodes() if isinstance(n, ast.For) and isinstance(n.iter, ast.Call)
             and callee_qual(p, r, n.iter) == 'core._unpack_stack']
    ctx.require(len(loops) == 1, 'format_target_spec_trace: loop over _unpack_stack not found')
    tg = loops[0].target
    ctx.ob(isinstance(tg, ast.Tuple) and len(tg.elts) == 5, r,
           'the reader unpacks 5-slot records: for %s in ...' % src(tg), node=loops[0])
    if isinstance(tg, ast.Tuple) and len(tg.elts) == 5:
        names = [e.id if isinstance(e, ast.Name) else None for e in tg.elts]
        # slot 3 is compared against the root error / None; slot 2 is printed as Target; slot 1 as Spec
        body_src = ' '.join(norm(s) for s in loops[0].body)
        ctx.ob(('%s is not None' % names[3]) in body_src and 'root_error' in body_src, r,
               'slot 3 is treated as the error of the level: %s' % names[3])
        # formatter closures by role: X = <maker>('Target') / ('Spec'); the recursion lambda calls this function
        labels = {}
        rec_names = set()
        single = {}
        for n in r.own_nodes():
            if isinstance(n, ast.Assign) and len(n.targets) == 1 and is_name(n.targets[0]):
                single.setdefault(n.targets[0].id, []).append(n.value)

        def label_consts(e, depth=0):
            out = [x.value for x in ast.walk(e) if isinstance(x, ast.Constant) and isinstance(x.value, str)]
            if depth < 2:
                for x in ast.walk(e):
                    if isinstance(x, ast.Name) and len(single.get(x.id, ())) == 1 and not isinstance(single[x.id][0], (ast.Lambda, ast.Call)):
                        out += label_consts(single[x.id][0], depth + 1)
            return out
        for n in r.own_nodes():
            # a line formatter: built by a maker call or written as a lambda; its label is the
            # 'Target' / 'Spec' text it is built with
            if isinstance(n, ast.Assign) and is_name(n.targets[0]) and isinstance(n.value, (ast.Call, ast.Lambda)) \
                    and not (isinstance(n.value, ast.Lambda) and isinstance(n.value.body, ast.Call)
                             and callee_qual(p, r, n.value.body) == 'core.format_target_spec_trace'):
                for lab in ('Target', 'Spec'):
                    if any(lab in c_ for c_ in label_consts(n.value)):
                        labels.setdefault(lab, set()).add(n.targets[0].id)
            if isinstance(n, ast.Assign) and is_name(n.targets[0]) and isinstance(n.value, ast.Lambda) and \
                    isinstance(n.value.body, ast.Call) and callee_qual(p, r, n.value.body) == 'core.format_target_spec_trace':
                rec_names.add(n.targets[0].id)
        fmt_t = [c for s in loops[0].body for c in ast.walk(s) if isinstance(c, ast.Call) and isinstance(c.func, ast.Name)
                 and c.func.id in labels.get('Target', ())]
        ctx.ob(bool(fmt_t) and all(is_name(c.args[0], names[2]) for c in fmt_t), r,
               'slot 2 is printed as the Target line: %s' % [norm(c) for c in fmt_t])
        fmt_s = [c for s in loops[0].body for c in ast.walk(s) if isinstance(c, ast.Call)
                 and isinstance(c.func, ast.Name) and c.func.id in labels.get('Spec', ())]
        ctx.ob(len(fmt_s) >= 2 and all(is_name(c.args[0], names[1]) for c in fmt_s), r,
               'slot 1 is printed as the Spec line: %s' % [norm(c) for c in fmt_s])
        rec = [c for s in loops[0].body for c in ast.walk(s) if isinstance(c, ast.Call) and isinstance(c.func, ast.Name)
               and c.func.id in rec_names]
        ctx.ob(len(rec) >= 2, r, 'every branch of slot 4 is rendered recursively: %s' % [norm(c) for c in rec])
    ctx.floor(10)


@rule('C05.7')
def finalisation_wiring(ctx):
    p = ctx.program
    su = ctx.unit('core.GlomError.__str__')
    calls = [c for c in calls_in(su) if callee_qual(p, su, c) == 'core.format_target_spec_trace']
    ok = len(calls) == 1 and isinstance(calls[0].args[0], ast.Attribute) and calls[0].args[0].attr == '_scope'
    ctx.ob(ok, su, 'the message is rendered from the frame stored at finalisation: %s' % [norm(c) for c in calls])
    fu = ctx.unit('core.GlomError._finalize')
    st = [n for n in fu.own_nodes() if isinstance(n, ast.Assign) and isinstance(n.targets[0], ast.Attribute)
          and n.targets[0].attr == '_scope']
    ctx.ob(len(st) == 1 and is_name(st[0].value, fu.params[1]), fu, 'finalisation stores the failing frame: %s' % [norm(s) for s in st])
    gu = ctx.unit('core.glom')
    fin = [c for c in calls_in(gu) if isinstance(c.func, ast.Attribute) and c.func.attr == '_finalize']
    ok = len(fin) == 1 and isinstance(fin[0].args[0], ast.Subscript) and p.scope_key(gu, fin[0].args[0].slice) == 'core.LAST_CHILD_SCOPE'
    if ok:
        base = fin[0].args[0].value
        # the root frame variable built in this call
        ok = isinstance(base, ast.Name)
    ctx.ob(ok, gu, 'glom() finalises with the root frame\'s child (the root spec level): %s' % [norm(c) for c in fin])
    # the message keeps the original traceback tail and the trace
    parts = [n for n in su.own_nodes() if isinstance(n, ast.Call) and isinstance(n.func, ast.Attribute)
             and n.func.attr == 'extend' and n.args and isinstance(n.args[0], ast.Attribute) and n.args[0].attr == '_tb_lines']
    ctx.ob(len(parts) == 1, su, 'the message ends with the original error lines: %s' % [norm(x) for x in parts])
    # recursion into branches keeps root_error and increases depth
    r = ctx.unit('core.format_target_spec_trace')
    lam = [n for n in r.own_nodes() if isinstance(n, ast.Assign) and is_name(n.targets[0])
           and isinstance(n.value, ast.Lambda) and isinstance(n.value.body, ast.Call)
           and callee_qual(p, r, n.value.body) == 'core.format_target_spec_trace']
    ok = len(lam) == 1
    if ok:
        c = lam[0].value.body
        ok = isinstance(c, ast.Call) and callee_qual(p, r, c) == 'core.format_target_spec_trace' \
            and is_name(c.args[0], lam[0].value.args.args[0].arg) and is_name(c.args[1], r.params[1]) \
            and isinstance(c.args[3], ast.BinOp) and isinstance(c.args[3].op, ast.Add)
    ctx.ob(ok, r, 'branches are rendered by the same function one level deeper with the same root error')
    ctx.floor(5)


@rule('C05.8')
def formatting_invariants(ctx):
    """a few structural facts of the renderer that the trace's faithfulness depends on
    (the formatting as a whole stays undecided)"""
    p = ctx.program
    r = ctx.unit('core.format_target_spec_trace')
    loops = [n for n in r.own_nodes() if isinstance(n, ast.For) and isinstance(n.iter, ast.Call)
             and callee_qual(p, r, n.iter) == 'core._unpack_stack']
    ctx.require(len(loops) == 1 and isinstance(loops[0].target, ast.Tuple), 'trace renderer: record loop not found')
    names = [e.id for e in loops[0].target.elts]
    tgt = names[2]
    prev = r.params[4] if len(r.params) > 4 else None
    g = [n for n in loops[0].body if isinstance(n, ast.If) and isinstance(n.test, ast.Compare) and is_name(n.test.left, tgt)]
    ok = len(g) == 1 and isinstance(g[0].test.ops[0], ast.IsNot) and is_name(g[0].test.comparators[0], prev)
    ctx.ob(ok, r, 'a Target line is printed whenever the target is a different object (identity, not ==): %s'
           % (norm(g[0].test) if g else None),
           '' if ok else 'equal-but-different targets (1 / 1.0 / True) would hide the target a spec actually received')
    upd = [n for n in loops[0].body if isinstance(n, ast.Assign) and is_name(n.targets[0], prev) and is_name(n.value, tgt)]
    ctx.ob(len(upd) == 1, r, 'the remembered target is updated at every level: %s' % [norm(u_) for u_ in upd])
    # the error line of a level: printed unless it is the root error
    rcfg = ctx.cfg(r)
    e = [n for n in loops[0].body if isinstance(n, ast.If)
         and matches(cond_expr(rcfg, n), '%s is not None and %s is not %s' % (names[3], names[3], r.params[1]))]
    ok = len(e) == 1
    ctx.ob(ok, r, 'a level\'s own error is printed unless it is the root error (identity): %s'
           % (norm(cond_expr(rcfg, e[0])) if e else None))
    # _finalize: only a leading caret-only line is trimmed
    f = ctx.unit('core.GlomError._finalize')
    trims = [n for n in f.own_nodes() if isinstance(n, ast.If) and isinstance(n.test, ast.Compare) and 'set(' in norm(n.test)]
    ok = len(trims) == 1 and matches(trims[0].test, "set(self._tb_lines[0]) <= $$chars") and \
        matches(trims[0].body[0], 'self._tb_lines = self._tb_lines[1:]') and not [x for x in f.own_nodes() if isinstance(x, (ast.ListComp, ast.GeneratorExp))]
    ctx.ob(ok, f, 'only a leading caret-only line of the kept traceback tail is dropped: %s' % [norm(t.test) for t in trims],
           '' if ok else 'lines of the original error message could be filtered out')
    keep = [n for n in f.own_nodes() if isinstance(n, ast.Assign) and matches(n, 'self._tb_lines = $t[-$$l:]')]
    ctx.ob(len(keep) == 1, f, 'the message keeps the tail of the original traceback (the original error lines)')
    # truncation: long values are cut to the width with a length suffix, never dropped
    tv = ctx.unit('core._format_trace_value')
    rets = [n for n in tv.own_nodes() if isinstance(n, ast.Return)]
    # every exit returns text derived from the rendering s (s itself, or a cut of it plus a suffix)
    svars = {n.targets[0].id for n in tv.own_nodes() if isinstance(n, ast.Assign) and is_name(n.targets[0])
             and any(isinstance(c, ast.Call) and is_name(c.func, 'bbrepr') for c in ast.walk(n.value))}
    okr = len(rets) >= 1 and bool(svars) and all(
        r.value is not None and not (isinstance(r.value, ast.Constant)) and any(is_name(x) and x.id in svars for x in ast.walk(r.value))
        for r in rets)
    ctx.ob(okr, tv, 'every value yields a line (truncated, never omitted)')
    # asking an arbitrary target for its length may fail in any way: the message must still render
    tcfg = ctx.cfg(tv)
    lens = [c for c in calls_in(tv) if is_name(c.func, 'len') and c.args and is_name(c.args[0], tv.params[0])]
    for c in lens:
        hs = tcfg.handlers_reached_from(tcfg.node_containing(c))
        ok = any(handler_covers(tcfg, h, 'Exception') for h in hs)
        ctx.ob(ok, tv, 'a failing len() of the displayed value cannot break the message: %s' % norm(c),
               '' if ok else 'handlers: %s' % [src(h.ast.type) if h.ast.type is not None else 'bare' for h in hs], node=c)
    ctx.floor(6)


@rule('C05.9')
def repr_limits(ctx):
    """the repr used for Target / Spec lines (and for T reprs) lifts *every* size limit of
    reprlib.Repr: a limit left at its default silently elides part of the displayed value"""
    import reprlib
    u = ctx.unit('core._BBRepr.__init__')
    limits = sorted(k for k, v in vars(reprlib.Repr()).items() if k.startswith('max') and isinstance(v, int))
    loops = [n for n in u.own_nodes() if isinstance(n, ast.For)]
    sets = [c for c in calls_in(u) if is_name(c.func, 'setattr') and len(c.args) == 3 and is_name(c.args[0], u.params[0])]
    ctx.ob(len(loops) == 1 and len(sets) >= 1, u, 'the limits are raised in one loop over attribute names')
    if len(loops) != 1:
        return
    lp = loops[0]
    it = deref(ctx.cfg(u), ctx.cfg(u).node_of(lp), lp.iter)
    if isinstance(it, ast.Attribute) and is_name(it.value, u.params[0]) and it.attr != '__dict__':
        # a class-level tuple of names
        cls = ctx.cls('core._BBRepr')
        vals = cls.attrs.get(it.attr, [])
        it = vals[0] if len(vals) == 1 else it
    all_attrs = matches(it, '%s.__dict__' % u.params[0]) or matches(it, 'vars(%s)' % u.params[0]) \
        or matches(it, 'dir(%s)' % u.params[0]) or matches(it, 'list(%s.__dict__)' % u.params[0])
    if all_attrs:
        ctx.ob(True, u, 'every attribute of the Repr instance is visited: for %s in %s' % (src(lp.target), norm(lp.iter)))
    else:
        names = sorted(e.value for e in it.elts if isinstance(e, ast.Constant)) if isinstance(it, (ast.Tuple, ast.List, ast.Set)) else None
        missing = [k for k in limits if names is None or k not in names]
        ctx.ob(not missing, u, 'every size limit of reprlib.Repr is visited: %s' % norm(lp.iter)[:80],
               '' if not missing else 'limits left at their reprlib default: %s -- values nested deeper / longer than the default '
               'are elided in traces and reprs' % missing, node=lp)
    for c in sets:
        v = c.args[2]
        ok = isinstance(v, ast.Constant) and isinstance(v.value, int) and v.value >= 1024
        ctx.ob(ok, u, 'limits are raised to at least 1024: %s' % norm(c), node=c)
    skips = [n for n in ast.walk(lp) if isinstance(n, ast.If)]
    for g in skips:
        ok = 'int' in norm(g.test) or 'hasattr' in norm(g.test)
        ctx.ob(ok, u, 'only non-integer settings are skipped: %s' % norm(g.test), node=g)
    ctx.floor(2)


@rule('C05.10')
def message_memo_follows_finalisation(ctx):
    """GlomError.__str__ memoises the rendered message on the instance.  The memo is computed from
    the state finalisation sets (scope, traceback lines); whoever sets that state again -- the
    outer glom() finalising its copy of an error that an inner call already rendered -- must drop
    the memo, or the outer error shows the inner call's trace."""
    p = ctx.program
    su = ctx.unit('core.GlomError.__str__')
    self_ = su.params[0]
    # the memo attribute: assigned in __str__ and returned from it
    stores = [n for n in su.own_nodes() if isinstance(n, ast.Assign) and isinstance(n.targets[0], ast.Attribute)
              and is_name(n.targets[0].value, self_)]
    rets = [norm(r.value) for r in su.own_nodes() if isinstance(r, ast.Return) and r.value is not None]
    memo = [s.targets[0].attr for s in stores if '%s.%s' % (self_, s.targets[0].attr) in rets]
    ctx.require(len(set(memo)) == 1, 'GlomError.__str__: memoised message attribute not found (%s)' % memo)
    memo = memo[0]
    # the gate: the attribute whose presence makes __str__ render from the finalised state
    gates = []
    for n in su.own_nodes():
        if isinstance(n, ast.Call) and is_name(n.func, 'getattr') and len(n.args) >= 2 and is_name(n.args[0], self_) \
                and isinstance(n.args[1], ast.Constant) and n.args[1].value != memo:
            gates.append(n.args[1].value)
    gates = [g for g in gates if not any(s_.targets[0].attr == g for s_ in stores)]
    ctx.require(gates, 'GlomError.__str__: finalised-state test not found')
    cls = ctx.cls('core.GlomError')
    n_writers = 0
    # any further instance attribute __str__ tests before rendering is a memo of the same kind
    scfg = ctx.cfg(su)
    tested = set()
    for t in scfg.nodes:
        if t.kind != 'test':
            continue
        for n in ast.walk(t.ast):
            if isinstance(n, ast.Call) and is_name(n.func, 'getattr') and len(n.args) >= 2 and is_name(n.args[0], self_) \
                    and isinstance(n.args[1], ast.Constant):
                tested.add(n.args[1].value)
            elif isinstance(n, ast.Attribute) and is_name(n.value, self_):
                tested.add(n.attr)
    extra_memos = sorted(a for a in tested - set(gates) - {memo} if any(s_.targets[0].attr == a for s_ in stores))
    for name, u in sorted(cls.methods.items()):
        if u is su:
            continue
        for a in extra_memos:
            w = [n for n in u.own_nodes() if isinstance(n, ast.Assign) and any(
                isinstance(t, ast.Attribute) and is_name(t.value, u.params[0] if u.params else None) and t.attr in gates for t in n.targets)]
            if not w:
                continue
            r = [n for n in u.own_nodes() if isinstance(n, (ast.Assign, ast.Delete)) and any(
                isinstance(t, ast.Attribute) and t.attr == a for t in n.targets)]
            ctx.ob(bool(r), u, '%s.%s also drops the second memo __str__ consults (%s)' % (cls.name, name, a),
                   '' if r else '__str__ reuses %s when it is set; %s sets a new scope and leaves it: the outer error renders the inner trace' % (a, name),
                   node=w[0])
        writes = [n for n in u.own_nodes() if isinstance(n, ast.Assign) and any(
            isinstance(t, ast.Attribute) and is_name(t.value, u.params[0] if u.params else None) and t.attr in gates
            for t in n.targets)]
        if not writes:
            continue
        n_writers += 1
        resets = [n for n in u.own_nodes() if isinstance(n, ast.Assign) and any(
            isinstance(t, ast.Attribute) and is_name(t.value, u.params[0]) and t.attr == memo for t in n.targets)
            and isinstance(n.value, ast.Constant) and not n.value.value]
        dels = [n for n in u.own_nodes() if isinstance(n, ast.Delete) and any(
            isinstance(t, ast.Attribute) and t.attr == memo for t in n.targets)]
        ok = bool(resets or dels)
        ctx.ob(ok, u, '%s.%s sets the finalised state and drops the memoised message (%s)' % (cls.name, name, memo),
               '' if ok else 'an error that was rendered once (str(e) in a callable, a log line) and then passes through an outer '
               'glom() keeps the inner message: copy.copy() carries %s over and %s does not reset it' % (memo, name),
               node=writes[0])
    ctx.require(n_writers >= 1, 'GlomError: no method sets the finalised state')
    ctx.floor(1)


@rule('C05.11')
def access_error_message_total(ctx):
    """PathAccessError is built with Path(<the T expression being interpreted>), whose root may be
    T, S or A.  Its message must render for each of them: re-wrapping the stored Path in
    Path(...) sends it through the splice of Path.__init__, which rejects every root but T --
    str(error) then fails and the trace ends in `<exception str() failed>`."""
    p = ctx.program
    u = ctx.unit('core.PathAccessError.get_message')
    cfg = ctx.cfg(u)
    self_ = u.params[0]
    pu = ctx.unit('core.Path.__init__')
    rejects = [n for n in pu.own_nodes() if isinstance(n, ast.Raise)
               and any(isinstance(a, ast.If) and 'is not T' in norm(a.test) or isinstance(a, ast.If) and ' is T' in norm(a.test)
                       for a in ancestors(n))]
    ctx.ob(True, pu, 'Path(...) splices only T-rooted expressions after the first part (%d rejecting raise)' % len(rejects))
    wraps = [c for c in calls_in(u) if callee_qual(p, u, c) == 'core.Path' and c.args
             and matches(c.args[0], '%s.path' % self_)]
    for c in wraps:
        # fine when the first part is unwrapped by Path.__init__, or when the wrap is guarded
        unwrap_first = any(isinstance(n, ast.If) and polarity(n.test, 'isinstance(%s[0], Path)' % pu.vararg) == 'true'
                           for n in pu.node.body)
        guarded = False
        for a in ancestors(c):
            if isinstance(a, (ast.If, ast.IfExp)):
                pol = polarity(a.test, 'isinstance(%s.path, Path)' % self_)
                if pol:
                    inside = a.body if isinstance(a, ast.IfExp) else None
                    if isinstance(a, ast.IfExp):
                        side = 'true' if any(x is c for x in ast.walk(a.body)) else 'false'
                    else:
                        side = branch_of(a, c)
                    guarded = guarded or (side is not None and side != pol)
        ok = (not rejects) or unwrap_first or guarded
        ctx.ob(ok, u, 'the stored path is not re-wrapped through the T-only splice: %s' % norm(c),
               '' if ok else 'glom(1, S.zz): the error message cannot be rendered for an S- or A-rooted path', node=c)
    ctx.ob(True, u, 'message rendering reads the stored path (%d re-wrap site(s))' % len(wraps))
    ctx.floor(1)


@rule('C05.14')
def error_pushed_down_every_level(ctx):
    """the reader removes an error from a level when the next level carries the same one, so that
    it is printed once, where it was first raised: the pass over adjacent levels must cover every
    pair (index loop i over stack[i], stack[i + 1] with bound len(stack) - 1)"""
    from ..affine import linear, NotAffine
    u = ctx.unit('core._unpack_stack')
    found = 0
    for lp in [n for n in u.own_nodes() if isinstance(n, ast.While)]:
        t = lp.test
        if not (isinstance(t, ast.Compare) and is_name(t.left) and isinstance(t.ops[0], ast.Lt)):
            continue
        iv = t.left.id
        offs = set()
        arr = None
        for s_ in ast.walk(lp):
            if isinstance(s_, ast.Subscript) and is_name(s_.value) and not isinstance(s_.slice, ast.Slice):
                try:
                    a, b = linear(s_.slice, {iv: (1, 0)})
                except NotAffine:
                    continue
                if a == 1:
                    offs.add(b)
                    arr = s_.value.id
        if not offs or arr is None:
            continue
        found += 1

        class L(ast.NodeTransformer):
            def visit_Call(self, node):
                if is_name(node.func, 'len') and len(node.args) == 1 and is_name(node.args[0], arr):
                    return ast.Name(id='__L__', ctx=ast.Load())
                return node
        import copy
        try:
            bnd = linear(L().visit(clone(t.comparators[0])), {'__L__': (1, 0)})
        except NotAffine:
            bnd = None
        ok = bnd == (1, -max(offs)) and min(offs) == 0
        ctx.ob(ok, u, 'adjacent levels %s[i+%s] are compared for every i < len(%s) - %d: while %s'
               % (arr, sorted(offs), arr, max(offs), norm(t)),
               '' if ok else 'the last pair(s) are not visited: an error stays printed on a level above the one that raised it', node=lp)
    for lp in [n for n in u.own_nodes() if isinstance(n, ast.For)]:
        if matches(lp.iter, 'zip($a, $a[1:])'):
            found += 1
            ctx.ob(True, u, 'adjacent levels are paired by zip(levels, levels[1:]): every pair', node=lp)
    ctx.require(found >= 1, '_unpack_stack: adjacent-level pass not found')
    ctx.floor(1)


@rule('C05.17')
def message_templates_are_constant(ctx):
    """MatchError renders ``bbformat(args[0], *args[1:])``: its first argument is a format
    *template*.  A message assembled beforehand (f-string, %, .format) puts target / spec text
    into the template position, where a brace in it (a regex ``\\d{4}``, a dict repr) is read as
    a replacement field: the last line of the trace degrades to <exception str() failed>"""
    p = ctx.program
    mc = ctx.cls('matching.MatchError')
    gm = mc.methods.get('get_message')
    ctx.require(gm is not None, 'MatchError.get_message not found')
    uses = [c for c in calls_in(gm) if is_name(c.func, 'bbformat')]
    ctx.ob(len(uses) == 1, gm, 'MatchError formats its first argument as a template: %s' % [norm(c) for c in uses])
    n = 0
    for u in p.package_units():
        for c in calls_in(u):
            q = callee_qual(p, u, c)
            if q != 'matching.MatchError' or not c.args:
                continue
            n += 1
            a = c.args[0]

            def safe_value(e):
                return isinstance(e, ast.Attribute) and e.attr in ('__name__', '__qualname__')
            if isinstance(a, ast.Constant) and isinstance(a.value, str):
                ok = True
            elif isinstance(a, ast.BinOp) and isinstance(a.op, ast.Mod) and isinstance(a.left, ast.Constant):
                vals = a.right.elts if isinstance(a.right, ast.Tuple) else [a.right]
                ok = all(safe_value(v) for v in vals)
            elif isinstance(a, ast.JoinedStr):
                ok = all(safe_value(v.value) for v in a.values if isinstance(v, ast.FormattedValue))
            else:
                ok = False
            ctx.ob(ok, u, 'the template is a constant (values are passed as arguments): %s' % norm(a)[:60],
                   '' if ok else 'target / spec text ends up in the template position', node=c)
    ctx.require(n >= 10, 'MatchError constructions not found (%d)' % n)
    ctx.floor(10)


@rule('C05.19')
def wrapped_errors_render_the_trace(ctx):
    """the class GlomError.wrap() builds for a foreign exception must render through
    GlomError.__str__ (which prints the target-spec trace).  With the original class first among
    the bases, any class that defines its own __str__ -- KeyError, OSError, ImportError,
    AttributeError on 3.12, most user exceptions -- wins the method lookup and the message is the
    bare original text, without a trace"""
    p = ctx.program
    u = ctx.unit('core.GlomError.wrap')
    cfg = ctx.cfg(u)
    mk = [c for c in calls_in(u) if is_name(c.func, 'type') and len(c.args) == 3]
    ctx.require(len(mk) == 1, 'wrap(): wrapper class construction type(name, bases, ns) not found')
    node = cfg.node_containing(mk[0])
    b = deref(cfg, node, mk[0].args[1])
    ns = deref(cfg, node, mk[0].args[2])
    own_str = isinstance(ns, ast.Dict) and any(isinstance(k, ast.Constant) and k.value == '__str__' for k in ns.keys)
    leaves = [b.body, b.orelse] if isinstance(b, ast.IfExp) else [b]
    n = 0
    for e in leaves:
        if not isinstance(e, ast.Tuple) or not e.elts:
            ctx.ob(False, u, 'wrapper bases are a tuple display: %s' % norm(e), node=e)
            continue
        n += 1
        first = e.elts[0]
        ok = own_str or p.global_qualname(u, first) == 'core.GlomError' or is_name(first, u.params[0])
        ctx.ob(ok, u, 'the wrapper renders through GlomError.__str__ (GlomError first among the bases %s, or its own __str__)' % norm(e),
               '' if ok else 'a wrapped class with its own __str__ (KeyError, OSError, ImportError ...) prints its bare message: no target-spec trace',
               node=e)
    ctx.require(n >= 1, 'wrap(): bases not found')
    ctx.floor(1)


@rule('C05.23')
def branch_errors_are_rendered_whole(ctx):
    """the error that ended an abandoned branch is shown as Python itself would print it:
    ``format_exception_only`` returns a *list* of strings (several for SyntaxError, and since 3.11
    one more per PEP 678 note), and the line shown is their concatenation.  Picking one element
    (``[-1]``) shows the last note instead of the exception's type and message"""
    p = ctx.program
    n = 0
    for u in p.package_units():
        if u.module.short != 'core':
            continue
        for c in calls_in(u):
            if callee_qual(p, u, c) != 'traceback.format_exception_only':
                continue
            n += 1
            par = parent(c)
            whole = isinstance(par, ast.Call) and isinstance(par.func, ast.Attribute) and par.func.attr == 'join' and c in par.args
            # or bound to a local that is only ever joined / iterated
            if not whole and isinstance(par, ast.Assign) and is_name(par.targets[0]):
                nm = par.targets[0].id
                uses = [x for x in u.own_nodes() if isinstance(x, ast.Name) and x.id == nm and isinstance(x.ctx, ast.Load)]
                whole = bool(uses) and all(
                    (isinstance(parent(x), ast.Call) and isinstance(parent(x).func, ast.Attribute) and parent(x).func.attr == 'join')
                    or isinstance(parent(x), (ast.For, ast.comprehension)) for x in uses)
            ctx.ob(whole, u, 'every string of format_exception_only() goes into the rendered line: %s' % norm(par)[:70],
                   '' if whole else 'one element is picked: an exception carrying notes (or a SyntaxError) loses its type and message', node=c)
    ctx.require(n >= 1, 'format_exception_only() not found in the trace renderer')
    ctx.floor(1)


@rule('C05.24')
def trace_width_has_a_floor(ctx):
    """values are truncated to the trace width minus the gutter and the ``... (len=N)`` suffix;
    that is only a prefix of the value while the width stays above a floor, so TRACE_WIDTH is the
    terminal width clamped from below (``max(.., K)``): on a 24-column terminal the slice bound
    would be zero or negative and no part of the target would be shown"""
    mod = ctx.program.modules['glom.core']
    defs = [st for st in mod.tree.body if isinstance(st, ast.Assign) and any(is_name(t, 'TRACE_WIDTH') for t in st.targets)]
    ctx.require(len(defs) == 1, 'core.TRACE_WIDTH: definition not found')
    v = defs[0].value
    floors = []
    if isinstance(v, ast.Call) and is_name(v.func, 'max'):
        floors = [a.value for a in v.args if isinstance(a, ast.Constant) and isinstance(a.value, int)]
    elif isinstance(v, ast.Constant) and isinstance(v.value, int):
        floors = [v.value]
    ok = bool(floors) and max(floors) >= 40
    ctx.ob(ok, 'glom/core.py', 'the trace width is clamped from below: TRACE_WIDTH = %s' % norm(v),
           '' if ok else 'no lower bound (>= 40 columns): on a narrow terminal the truncation shows none of the value', node=defs[0])
    ctx.floor(1)
