"""C16 -- Group builds exactly the buckets and aggregates of a hand-written loop."""
import ast

from . import rule, info
from ..program import AnalysisError, src, norm, ClassInfo
from ..util import (choice_leaves, choice_values, polarity, branch_of, exclusive, is_name, calls_in, callee_qual, deref, ancestors, stmt_of, parent, handler_outcomes,
                    handler_covers, evaluator_calls, raised_class, is_subclass, fmt_witness)
from .c03 import sentinel_of
from .common import option_usage
from ..pattern import match, matches

info('C16',
     explanation='Static decision of: Group.glomit binds a freshly allocated accumulator tree, resets the '
                 'aggregation tripwire and installs GROUP mode in its own frame before iterating; every '
                 'aggregator (agg/_agg methods, GROUP, Limit.glomit) keeps state only in the tree it is handed '
                 '(no effect on self or on the spec); GROUP\'s sentinel discipline (SKIP drops the item, STOP '
                 'retires the branch, nothing is stored for either); dispatch structure (aggregator, callable, '
                 'dict, list; accumulator per spec node keyed by id(spec); sub-tree per key switched in before '
                 'descending); the per-item loop of Group.glomit; update shape of First/Max/Min/Avg/Limit.',
     decided=['C16.1 accumulators live for one evaluation', 'C16.2 state only in the tree', 'C16.3 sentinel discipline',
              'C16.4 per-item loop', 'C16.5 dispatch structure', 'C16.6 aggregator update shape'],
     not_decided=['bucket contents, key order, aggregator arithmetic for arbitrary inputs'])

AGG_UNITS = ['grouping.First.agg', 'grouping.Avg.agg', 'grouping.Max.agg', 'grouping.Min.agg', 'grouping.Sample.agg',
             'reduction.Fold._agg', 'reduction.Merge._agg', 'grouping.Limit.glomit', 'grouping.GROUP']


@rule('C16.1')
def per_evaluation_accumulators(ctx):
    p = ctx.program
    u = ctx.unit('grouping.Group.glomit')
    cfg = ctx.cfg(u)
    scope = u.params[2]
    st = {}
    for n in u.own_nodes():
        if isinstance(n, ast.Assign) and isinstance(n.targets[0], ast.Subscript) and is_name(n.targets[0].value, scope):
            st[p.scope_key(u, n.targets[0].slice)] = n
    t = st.get('grouping.ACC_TREE')
    ok = t is not None and isinstance(t.value, ast.Dict) and not t.value.keys
    ctx.ob(ok, u, 'a new accumulator tree is allocated for this evaluation, in its own frame: %s' % (norm(t) if t else None))
    c = st.get('grouping.CUR_AGG')
    ctx.ob(c is not None and isinstance(c.value, ast.Constant) and c.value.value is None, u, 'the aggregation tripwire is reset: %s' % (norm(c) if c else None))
    m = st.get('core.MODE')
    ctx.ob(m is not None and p.global_qualname(u, m.value) == 'grouping.GROUP', u, 'group mode is installed: %s' % (norm(m) if m else None))
    loops = [n for n in u.own_nodes() if isinstance(n, ast.For)]
    ctx.require(len(loops) == 1, 'Group.glomit: item loop not found')
    ln = cfg.node_of(loops[0])
    for k, n in st.items():
        ctx.ob(cfg.dominates(cfg.node_of(n), ln) and not cfg.node_of(n).loop_stack, u, '%s is set once, before the items are fed' % k)
    # nobody else replaces the root tree: ACC_TREE writers are Group (root), GROUP (descend per key), Limit (own sub-tree)
    writers = set()
    for uu in p.package_units():
        for n in uu.own_nodes():
            if isinstance(n, ast.Assign) and isinstance(n.targets[0], ast.Subscript) and p.scope_key(uu, n.targets[0].slice) == 'grouping.ACC_TREE':
                writers.add(uu.qualname)
    ctx.ob(writers == {'grouping.Group.glomit', 'grouping.GROUP', 'grouping.Limit.glomit'}, 'package', 'ACC_TREE writers: %s' % sorted(writers))
    # no module / class level accumulators
    ctx.floor(7)


@rule('C16.2')
def state_only_in_tree(ctx):
    an = ctx.analysis
    an.all_effects()
    by_unit = {}
    for e in an.all_effects():
        by_unit.setdefault(e.unit.qualname, []).append(e)
    total = 0
    for q in AGG_UNITS:
        u = ctx.unit(q)
        effs = by_unit.get(q, [])
        total += len(effs)
        bad = []
        for e in effs:
            for t in e.origins:
                if t[0] in ('param', 'reach') and t[1] in ('self', 'spec', 'target', 'valspec', 'keyspec'):
                    bad.append((e, t))
                if t[0] in ('global', 'greach'):
                    bad.append((e, t))
        for e, t in bad:
            ctx.ob(False, u, 'aggregation state lives only in the accumulator tree: %s' % e.text(),
                   '%s on %s reaches %s' % (e.kind, src(e.base), t), node=e.node)
        if not bad:
            ctx.ob(True, u, '%s writes only into the tree / frame it is handed (%d effect sites)' % (u.qualname, len(effs)))
        if u.name in ('agg', '_agg'):
            tree = u.params[2]
            keyed = [n for n in u.own_nodes() if isinstance(n, ast.Subscript) and is_name(n.value, tree)]
            ctx.ob(bool(keyed) and all(is_name(k.slice, u.params[0]) for k in keyed), u,
                   'the aggregator\'s slot is tree[self]: %s' % sorted({norm(k) for k in keyed}))
    ctx.require(total >= 15, 'only %d effect sites found in aggregators' % total)
    # aggregator classes hold no per-run attributes
    for q in ('grouping.First', 'grouping.Avg', 'grouping.Max', 'grouping.Min'):
        c = ctx.cls(q)
        sl = c.attrs.get('__slots__')
        ctx.ob(bool(sl) and isinstance(sl[0], ast.Tuple) and not sl[0].elts, c, '%s has no instance state (__slots__ = ())' % c.name)
    ctx.floor(18)


def group_roles(ctx):
    """local names of the GROUP dispatcher by role"""
    p = ctx.program
    u = ctx.unit('grouping.GROUP')
    target, spec, scope = u.params[:3]
    # type(spec) / id(spec): a named local when one exists, else the call itself (normal form)
    r = {'unit': u, 'stype': 'type(%s)' % spec, 'sid': 'id(%s)' % spec}
    rec = None
    for n in u.own_nodes():
        if isinstance(n, ast.Assign) and is_name(n.targets[0]):
            if isinstance(n.value, ast.Lambda) and any(p.is_evaluator_call(p.unit_of(n.value), c) for c in calls_in(p.unit_of(n.value))):
                r['recurse'] = n.targets[0].id
            b = match(n, '$t = %s[ACC_TREE]' % scope)
            if b:
                r['tree'] = b['t']
            b = match(n, '$t = type(%s)' % spec)
            if b:
                r['stype'] = b['t']
            b = match(n, '$t = id(%s)' % spec)
            if b:
                r['sid'] = b['t']
    keys = []
    for n in u.own_nodes():
        if isinstance(n, ast.Assign) and 'tree' in r:
            b = match(n, '$acc = %s[$$k]' % r['tree'])
            if b and 'acc' not in r:
                r['acc'] = b['acc']
                r['acc_read'] = n
                keys.append(b['k'])
            b = match(n, '$acc = %s[$$k] = %s()' % (r['tree'], r.get('stype')))
            if b:
                r['acc_new'] = n
                keys.append(b['k'])
            # normal form of the chained assignment: ``acc = stype(); tree[k] = acc``
            b = match(n, '%s[$$k] = $acc' % r['tree'])
            if b and 'acc_new' not in r:
                gcfg0 = ctx.cfg(u)
                if matches(deref(gcfg0, gcfg0.node_of(n), n.value), '%s()' % r.get('stype')):
                    r['acc_new'] = n
                    r.setdefault('acc', b['acc'])
                    keys.append(b['k'])
    if keys:
        gcfg = ctx.cfg(u)
        ok = all(norm(k) == r['sid'] or norm(deref(gcfg, gcfg.node_containing(k), k)) == 'id(%s)' % spec for k in keys)
        ctx.ob(ok, u, 'the accumulator of a dict / list spec is filed under the identity of that spec object: %s'
               % sorted({norm(k) for k in keys}),
               '' if ok else 'a key that is not id(spec) can coincide with a bucket key or with another spec of the same level')
    for n in u.own_nodes():
        if isinstance(n, ast.For):
            b = match(n.iter, '%s.items()' % spec)
            if b is not None and isinstance(n.target, ast.Tuple) and len(n.target.elts) == 2:
                r['dict_loop'] = n
                r['ks'], r['vs'] = n.target.elts[0].id, n.target.elts[1].id
            elif is_name(n.iter, spec) and is_name(n.target):
                r['list_loop'] = n
                r['lvs'] = n.target.id
    if 'recurse' in r and 'ks' in r:
        for n in ast.walk(r['dict_loop']):
            if isinstance(n, ast.Assign) and is_name(n.targets[0]):
                if matches(n.value, '%s(%s)' % (r['recurse'], r['ks'])):
                    r['key'] = n.targets[0].id
                if matches(n.value, '%s(%s)' % (r['recurse'], r['vs'])):
                    r['dres'] = n.targets[0].id
                    r['dres_stmt'] = n
    if 'recurse' in r and 'lvs' in r:
        for n in ast.walk(r['list_loop']):
            if isinstance(n, ast.Assign) and is_name(n.targets[0]) and matches(n.value, '%s(%s)' % (r['recurse'], r['lvs'])):
                r['lres'] = n.targets[0].id
    need = {'tree', 'stype', 'sid', 'acc', 'acc_new', 'dict_loop', 'list_loop', 'key', 'dres', 'lres', 'recurse'}
    ctx.require(need <= set(r), 'GROUP: roles not found: %s' % sorted(need - set(r)))
    return r


@rule('C16.3')
def sentinels(ctx):
    p = ctx.program
    r = group_roles(ctx)
    u = r['unit']
    cfg = ctx.cfg(u)
    acc, tree, key, ks = r['acc'], r['tree'], r['key'], r['ks']
    stores = []
    for n in cfg.nodes:
        if n.kind != 'stmt':
            continue
        st = n.ast
        b = match(st, '%s[$k] = $v' % acc)
        if b:
            stores.append((n, b['v']))
        b = match(st, '%s.append($v)' % acc)
        if b:
            stores.append((n, b['v']))
    ctx.require(len(stores) == 2, 'GROUP: accumulator stores not found (%d)' % len(stores))
    for sn, var in stores:
        header = sn.loop_stack[-1]
        for sent in ('SKIP', 'STOP'):
            tests = []
            for t in cfg.nodes:
                if t.kind != 'test' or not isinstance(t.ast, ast.Compare) or not is_name(t.ast.left, var):
                    continue
                if sentinel_of(p, u, t.ast.comparators[0]) != sent:
                    continue
                if isinstance(t.ast.ops[0], ast.Is):
                    tests.append((t, 'true'))
                elif isinstance(t.ast.ops[0], ast.IsNot):
                    tests.append((t, 'false'))
            ok = False
            for t, bad_edge in tests:
                if not cfg.dominates(t, sn):
                    continue
                pth = cfg.find_path(t, {sn}, avoid={header}, start_labels=lambda l, b=bad_edge: l == b, labels=lambda l: l != 'exc')
                if pth is None:
                    ok = True
            ctx.ob(ok, u, '`%s` happens only when the result is not %s' % (norm(sn.ast), sent),
                   '' if ok else 'no dominating test of %s against %s' % (var, sent), node=sn.ast)
    keyev = [n for n in cfg.nodes if n.kind == 'stmt' and isinstance(n.ast, ast.Assign) and is_name(n.ast.targets[0], key)]
    sub = [n for n in cfg.nodes if n.kind == 'stmt' and matches(n.ast, '%s[%s] = $$v' % (tree, key))]
    ctx.require(len(keyev) == 1 and len(sub) == 1, 'GROUP: key evaluation / sub-tree creation not found')
    header = sub[0].loop_stack[-1]
    for sent in ('SKIP', 'STOP'):
        ts = [t for t in cfg.nodes if t.kind == 'test' and isinstance(t.ast, ast.Compare) and is_name(t.ast.left, key)
              and isinstance(t.ast.ops[0], ast.Is) and sentinel_of(p, u, t.ast.comparators[0]) == sent]
        ok = any(cfg.dominates(t, sub[0]) and cfg.find_path(t, {sub[0]}, avoid={header}, start_labels=lambda l: l == 'true',
                                                            labels=lambda l: l != 'exc') is None for t in ts)
        ctx.ob(ok, u, 'a %s key creates no bucket' % sent)
    retire = [n for n in cfg.nodes if n.kind == 'stmt' and isinstance(n.ast, ast.Assign) and isinstance(n.ast.targets[0], ast.Subscript)
              and is_name(n.ast.targets[0].value, tree) and sentinel_of(p, u, n.ast.value) == 'STOP']
    ctx.ob(len(retire) == 2 and all(is_name(x.ast.targets[0].slice, ks) for x in retire), u,
           'a branch that answered STOP is retired under its key spec: %s' % [norm(x.ast) for x in retire])
    chk = [t for t in cfg.nodes if t.kind == 'test' and matches(t.ast, '%s.get(%s, None) is STOP' % (tree, ks))]
    okr = len(chk) == 1 and cfg.dominates(chk[0], keyev[0])
    if okr:
        hdr_k = keyev[0].loop_stack[-1] if keyev[0].loop_stack else None
        okr = cfg.find_path(chk[0], {keyev[0]}, avoid={hdr_k} if hdr_k else (), labels=lambda l: l != 'exc',
                            start_labels=lambda l: l == 'true') is None
    ctx.ob(okr, u, 'retired branches are skipped before their key is evaluated',
           '' if okr else 'a branch that answered STOP is evaluated again for the next item')
    lst = [n for n in cfg.nodes if n.kind == 'stmt' and isinstance(n.ast, ast.Return) and n.ast.value is not None
           and any(sentinel_of(p, u, leaf) == 'STOP' for leaf in choice_leaves(n.ast.value))]
    ctx.ob(len(lst) >= 2, u, 'STOP is reported upwards: %s' % [norm(n.ast) for n in lst])
    ctx.floor(9)


@rule('C16.4')
def item_loop(ctx):
    p = ctx.program
    u = ctx.unit('grouping.Group.glomit')
    cfg = ctx.cfg(u)
    lp = [n for n in u.own_nodes() if isinstance(n, ast.For)][0]
    ok = isinstance(lp.iter, ast.Call) and callee_qual(p, u, lp.iter) == 'grouping.target_iter' and is_name(lp.iter.args[0], u.params[1])
    ctx.ob(ok, u, "items are fed one by one from the target's iteration: for %s in %s" % (src(lp.target), norm(lp.iter)))
    evs = evaluator_calls(p, u)
    ok = len(evs) == 1 and is_name(lp.target) and is_name(evs[0].args[0], lp.target.id) and norm(evs[0].args[1]) == 'self.spec' \
        and is_name(evs[0].args[2], u.params[2])
    ctx.ob(ok, u, 'each item is evaluated against the grouping spec in this frame: %s' % [norm(e) for e in evs])
    # one iteration, symbolically: P = what the loop would return before this item, NEW = this
    # item's result.  STOP must return P, otherwise the loop goes on holding NEW.
    r = [n for n in u.node.body if isinstance(n, ast.Return)]
    ret = r[0].value.id if len(r) == 1 and is_name(r[0].value) else None
    ctx.ob(ret is not None, u, 'after the last item the running result is returned: %s' % [norm(x) for x in r])
    env = {ret: 'P'}
    stop_returns = []
    tested = []
    supported = True

    def val(e):
        if evs and e is evs[0]:
            return 'NEW'
        if is_name(e):
            return env.get(e.id, ('var', e.id))
        return ('expr', norm(e))
    for st in lp.body:
        if isinstance(st, ast.Assign) and len(st.targets) == 1:
            tg = st.targets[0]
            if is_name(tg):
                env[tg.id] = val(st.value)
                continue
            if isinstance(tg, ast.Tuple) and isinstance(st.value, ast.Tuple) and len(tg.elts) == len(st.value.elts) \
                    and all(is_name(x) for x in tg.elts):
                vals = [val(x) for x in st.value.elts]
                for x, v in zip(tg.elts, vals):
                    env[x.id] = v
                continue
        if isinstance(st, ast.If) and isinstance(st.test, ast.Compare) and len(st.test.ops) == 1 and isinstance(st.test.ops[0], ast.Is) \
                and sentinel_of(p, u, st.test.comparators[0]) == 'STOP' and is_name(st.test.left) \
                and len(st.body) == 1 and isinstance(st.body[0], ast.Return) and not st.orelse:
            tested.append(env.get(st.test.left.id))
            stop_returns.append(val(st.body[0].value) if st.body[0].value is not None else None)
            continue
        supported = False
    ok = supported and tested == ['NEW']
    ctx.ob(ok, u, "each item's result is tested against STOP", '' if ok else 'loop body not of the expected shape: %s' % [norm(x)[:50] for x in lp.body])
    ok = supported and stop_returns == ['P']
    ctx.ob(ok, u, 'STOP ends the run with the last real result (the result before this item)',
           '' if ok else 'returned at STOP: %s' % stop_returns)
    ok = supported and env.get(ret) == 'NEW'
    ctx.ob(ok, u, 'otherwise the item\'s result becomes the running result', '' if ok else '%s holds %s at the end of an iteration' % (ret, env.get(ret)))
    cv = choice_values(cfg, cfg.node_of(lp), ret, 'type(self.spec) in (dict, list)', entry_only=True) if ret else None
    ok = cv is not None and cv[0] == ['type(self.spec)()'] and cv[1] == ['None']
    if not ok and ret:
        # the spec's type read once into a local
        for n in u.node.body:
            if isinstance(n, ast.Assign) and is_name(n.targets[0]) and norm(n.value) == 'type(self.spec)' \
                    and len([x for x in u.own_nodes() if isinstance(x, ast.Name) and x.id == n.targets[0].id and isinstance(x.ctx, ast.Store)]) == 1:
                v = n.targets[0].id
                cv = choice_values(cfg, cfg.node_of(lp), ret, '%s in (dict, list)' % v, entry_only=True)
                ok = cv is not None and cv[0] == ['%s()' % v] and cv[1] == ['None']
    ctx.ob(ok, u, "an empty input yields an empty container of the spec's type")
    ctx.floor(6)


@rule('C16.5')
def dispatch(ctx):
    p = ctx.program
    r = group_roles(ctx)
    u = r['unit']
    cfg = ctx.cfg(u)
    target, spec, scope = u.params[:3]
    tree, acc, key, stype = r['tree'], r['acc'], r['key'], r['stype']
    aggs = [c for c in calls_in(u) if isinstance(c.func, ast.Attribute) and c.func.attr == 'agg']
    ok = len(aggs) == 1 and is_name(aggs[0].func.value, spec) and is_name(aggs[0].args[0], target) and is_name(aggs[0].args[1], tree)
    ctx.ob(ok, u, 'aggregators receive (item, current tree): %s' % [norm(a) for a in aggs])
    ctx.ob(True, u, 'the current tree is read from the frame: %s = %s[ACC_TREE]' % (tree, scope))
    cal = [n for n in ast.walk(u.node) if isinstance(n, ast.If) and norm(n.test) == 'callable(%s)' % spec]
    ok = len(cal) == 1 and norm(cal[0].body[0]) == 'return %s(%s)' % (spec, target)
    ctx.ob(ok, u, 'plain callables are applied to the item')
    bad = [n for n in ast.walk(u.node) if isinstance(n, ast.If) and matches(n.test, '%s not in (dict, list)' % stype)]
    ctx.ob(len(bad) == 1 and isinstance(bad[0].body[0], ast.Raise) and is_subclass(raised_class(p, u, bad[0].body[0]), 'BadSpec'), u,
           'anything else is a BadSpec')
    rn, nn = cfg.node_of(r['acc_read']), cfg.node_of(r['acc_new'])
    hs = cfg.handlers_reached_from(rn)
    ok = len(hs) == 1 and handler_covers(cfg, hs[0], 'KeyError') and nn in cfg.reachable(hs[0]) and \
        cfg.find_path(rn, {nn}, labels=lambda l: l != 'exc') is None
    ctx.ob(ok, u, 'one accumulator per spec node, created on first use: %s / %s' % (norm(r['acc_read']), norm(r['acc_new'])))
    ctx.ob(True, u, 'keyed by the identity of the spec node: %s = id(%s)' % (r['sid'], spec))
    sw = [n for n in cfg.nodes if n.kind == 'stmt' and isinstance(n.ast, ast.Assign) and isinstance(n.ast.targets[0], ast.Subscript)
          and is_name(n.ast.targets[0].value, scope) and p.scope_key(u, n.ast.targets[0].slice) == 'grouping.ACC_TREE']
    ok = len(sw) == 1 and matches(sw[0].ast.value, '%s[%s]' % (tree, key))
    ctx.ob(ok, u, "the bucket's own sub-tree becomes the current tree: %s" % [norm(s_.ast) for s_ in sw])
    if sw:
        ctx.ob(cfg.dominates(sw[0], cfg.node_of(r['dres_stmt'])), u, 'before the value spec of that bucket is evaluated')
    new = [n for n in ast.walk(u.node) if isinstance(n, ast.If) and matches(n.test, '%s not in %s' % (key, acc))]
    ok = len(new) == 1 and matches(new[0].body[-1], '%s[%s] = {}' % (tree, key))
    ctx.ob(ok, u, 'a key absent from the accumulator gets a new, empty sub-tree (presence test, not truthiness)')
    ctx.ob(True, u, 'dict levels and list leaves are walked in spec order: %s / %s' % (norm(r['dict_loop'].iter), norm(r['list_loop'].iter)))
    for lu in u.children:
        for e in evaluator_calls(p, lu):
            ok = is_name(e.args[0], target) and is_name(e.args[1], lu.params[0]) and is_name(e.args[2], scope)
            ctx.ob(ok, u, 'sub-specs are evaluated on the same item in this frame: %s' % norm(e))
    ctx.floor(11)


@rule('C16.6')
def aggregator_shapes(ctx):
    p = ctx.program
    u = ctx.unit('grouping.First.agg')
    self_, target, tree = u.params
    fcfg = ctx.cfg(u)
    tests = [(n, polarity(n.ast, '%s in %s' % (self_, tree))) for n in fcfg.nodes if n.kind == 'test']
    tests = [(n, e) for n, e in tests if e]
    ok = len(tests) == 1
    if ok:
        t, seen_edge = tests[0]
        seen = [norm(n.ast) for n in exclusive(fcfg, t, seen_edge) if n.kind == 'stmt']
        first = [norm(n.ast) for n in exclusive(fcfg, t, 'false' if seen_edge == 'true' else 'true') if n.kind == 'stmt']
        rs = [n for n in exclusive(fcfg, t, seen_edge) if n.kind == 'stmt' and isinstance(n.ast, ast.Return)]
        ok = first == ['%s[%s] = STOP' % (tree, self_), 'return %s' % target] and len(seen) == 1 and len(rs) == 1 \
            and sentinel_of(p, u, rs[0].ast.value) == 'STOP'
    ctx.ob(ok, u, 'First yields the first item, then STOP')
    for q, op in (('grouping.Max.agg', ast.Gt), ('grouping.Min.agg', ast.Lt)):
        u = ctx.unit(q)
        g = [n for n in u.node.body if isinstance(n, ast.If)]
        ok = len(g) == 1 and isinstance(g[0].test, ast.BoolOp) and isinstance(g[0].test.op, ast.Or)
        if ok:
            a, b = g[0].test.values
            ok = norm(a) == 'self not in tree' and isinstance(b, ast.Compare) and isinstance(b.ops[0], op) \
                and is_name(b.left, 'target') and norm(b.comparators[0]) == 'tree[self]' and norm(g[0].body[0]) == 'tree[self] = target'
        ctx.ob(ok, u, '%s keeps the item when it is %s than the kept one' % (u.cls.name, 'greater' if op is ast.Gt else 'less'))
        rr = u.node.body[-1]
        ctx.ob(isinstance(rr, ast.Return) and norm(rr.value) == 'tree[self]', u, 'and yields the kept one')
    u = ctx.unit('grouping.Avg.agg')
    av = None
    for n in u.own_nodes():
        if isinstance(n, ast.Assign):
            b = match(n, '$a = tree[self]')
            if b:
                av = b['a']
    sts = [n for n in u.node.body]
    ok = av is not None and any(matches(s_, '%s[0] += target' % av) for s_ in sts) and any(matches(s_, '%s[1] += 1' % av) for s_ in sts) \
        and matches(sts[-1], 'return %s[0] / %s[1]' % (av, av))
    ctx.ob(ok, u, 'Avg keeps [sum, count] and yields sum / count')
    acfg = ctx.cfg(u)
    init = [n for n in ast.walk(u.node) if isinstance(n, ast.Assign) and any(
        isinstance(t, ast.Subscript) and is_name(t.value, tree) for t in n.targets)]
    vals = [norm(deref(acfg, acfg.node_of(n), n.value)) for n in init]
    ctx.ob(vals == ['[0.0, 0]'], u, 'starting from a fresh [0.0, 0] (never from an input item): %s' % vals)
    adds = [n for n in acfg.nodes if n.kind == 'stmt' and av and matches(n.ast, '%s[0] += %s' % (av, target))]
    cnts = [n for n in acfg.nodes if n.kind == 'stmt' and av and matches(n.ast, '%s[1] += 1' % av)]
    ok = len(adds) == 1 and len(cnts) == 1 and acfg.dominates(adds[0], cnts[0])
    ctx.ob(ok, u, 'an item is counted only after it was added (an item whose addition fails leaves the bucket untouched)')
    u = ctx.unit('grouping.Limit.glomit')
    cfg = ctx.cfg(u)
    tv = None
    for n in u.own_nodes():
        if isinstance(n, ast.Assign):
            b = match(n, '$t = %s[ACC_TREE]' % u.params[2])
            if b:
                tv = b['t']
    ctx.require(tv is not None, 'Limit.glomit: tree variable not found')
    inc = [n for n in cfg.nodes if n.kind == 'stmt' and matches(n.ast, '%s[self][0] += 1' % tv)]
    cmpn = [n for n in cfg.nodes if n.kind == 'test' and matches(n.ast, '%s[self][0] > self.n' % tv)]
    evs = evaluator_calls(p, u)
    ok = len(inc) == 1 and len(cmpn) == 1 and len(evs) == 1 and cfg.dominates(inc[0], cmpn[0]) and cfg.dominates(cmpn[0], cfg.node_containing(evs[0]))
    ctx.ob(ok, u, 'Limit counts the item, stops after n, else evaluates its subspec')
    ok = bool(evs) and is_name(evs[0].args[0], u.params[1]) and norm(evs[0].args[1]) == 'self.subspec'
    ctx.ob(ok, u, 'on the same item')
    sw = [n for n in u.own_nodes() if isinstance(n, ast.Assign) and isinstance(n.targets[0], ast.Subscript) and p.scope_key(u, n.targets[0].slice) == 'grouping.ACC_TREE']
    ctx.ob(len(sw) == 1 and matches(sw[0].value, '%s[self][1]' % tv), u, 'with its own sub-tree as the current tree')
    g = next((n for n in u.node.body if isinstance(n, ast.If)), None)
    ctx.ob(isinstance(g, ast.If) and norm(g.test) == '%s[MODE] is not GROUP' % u.params[2] and isinstance(g.body[0], ast.Raise), u,
           'Limit is refused outside group mode')
    option_usage(ctx, ['grouping.Limit', 'grouping.Sample', 'grouping.Group'])
    ctx.floor(14)


@rule('C16.8')
def fold_claims_in_group_mode(ctx):
    """a Fold-family spec aggregates across items only while the frame's mode is GROUP: later
    chain steps and Auto / Fill sub-specs (mode reset, CUR_AGG still inherited) fold normally"""
    p = ctx.program
    fu = ctx.unit('reduction.Fold.glomit')
    gcfg = ctx.cfg(fu)
    claim = [n for n in gcfg.nodes if n.kind == 'stmt' and matches(n.ast, 'scope[CUR_AGG] = self')]
    ok = len(claim) == 1
    if ok:
        ok = False
        for t in gcfg.nodes:
            if t.kind != 'test' or not gcfg.dominates(t, claim[0]):
                continue
            cond = deref(gcfg, t, t.ast)
            if matches(cond, 'scope[MODE] is GROUP and scope.get(CUR_AGG) is None') \
                    and claim[0] in exclusive(gcfg, t, 'true'):
                # the flag that later selects aggregation is true exactly on this edge
                flag_set = [n for n in exclusive(gcfg, t, 'true') if n.kind == 'stmt' and matches(n.ast, '$f = True')]
                region = set(exclusive(gcfg, t, 'true'))
                agg_here = [c for c in calls_in(fu) if isinstance(c.func, ast.Attribute) and c.func.attr == '_agg'
                            and gcfg.node_containing(c) in region]
                ok = bool(flag_set) or is_name(t.ast) or bool(agg_here)
    ctx.ob(ok, fu, 'in group mode the outermost Fold of a leaf aggregates across items')
    ag = [c for c in calls_in(fu) if isinstance(c.func, ast.Attribute) and c.func.attr == '_agg']
    ok = len(ag) == 1 and is_name(ag[0].args[0], fu.params[1]) and norm(ag[0].args[1]) == 'scope[ACC_TREE]'
    ctx.ob(ok, fu, "with the frame's current tree: %s" % [norm(a) for a in ag])
    ctx.floor(2)


@rule('C16.14')
def container_levels_return_their_accumulator(ctx):
    """what a dict / list level of a Group spec hands back is its accumulator -- the very dict or
    list it has been filling, empty or not -- or STOP when nothing below wants more input.  A
    level that answers anything else for an empty accumulator (``acc or SKIP``) makes the
    outermost Group return a sentinel instead of ``{}`` when every item was dropped"""
    r = group_roles(ctx)
    u = r['unit']
    acc = r['acc']
    target, spec = u.params[:2]
    rets = [n for n in u.own_nodes() if isinstance(n, ast.Return)]
    ctx.require(len(rets) >= 4, 'GROUP: returns not found (%d)' % len(rets))
    n_acc = 0
    for x in rets:
        ok = x.value is not None
        for v in (choice_leaves(x.value) if x.value is not None else []):      # ``return STOP if done else acc``
            leaf = isinstance(v, ast.Call) and (matches(v, '%s.agg(%s, $t)' % (spec, target)) or matches(v, '%s(%s)' % (spec, target)))
            stop = is_name(v, 'STOP')
            own = is_name(v, acc)
            n_acc += own
            ok = ok and (leaf or stop or own)
        v = x.value
        ctx.ob(ok, u, 'a level answers with its accumulator, STOP, or the leaf aggregator\'s answer: %s' % norm(x),
               '' if ok else 'an empty (or otherwise special) accumulator is replaced by something else: the caller sees %s instead of the container'
               % norm(v)[:40], node=x)
    ctx.ob(n_acc >= 2, u, 'both container levels return the accumulator (%d returns)' % n_acc)
    ctx.floor(5)


@rule('C16.15')
def items_are_not_tested_for_truth(ctx):
    """every item routed to a leaf aggregator is aggregated: an aggregator's ``agg`` / ``_agg``
    never looks at the truth value of the item (an empty mapping merged into a bucket still opens
    the bucket, a 0 still counts): no test on the bare item"""
    p = ctx.program
    n = 0
    for u in p.package_units():
        if u.module.short not in ('grouping', 'reduction') or u.cls is None or u.name not in ('agg', '_agg'):
            continue
        n += 1
        item = u.params[1]
        cfg = ctx.cfg(u)
        bad = [t for t in cfg.nodes if t.kind == 'test' and (polarity(t.ast, item) or any(
            isinstance(x, ast.Call) and is_name(x.func) and x.func.id in ('bool', 'len') and x.args and is_name(x.args[0], item)
            for x in ast.walk(t.ast)))]
        ctx.ob(not bad, u, '%s.%s aggregates every item it is handed (no truth test on the item)' % (u.cls.name, u.name),
               '' if not bad else 'items for which `%s` decides are skipped or treated specially: an empty / zero item is still an item'
               % norm(bad[0].ast), node=bad[0].ast if bad else None)
    ctx.require(n >= 7, 'aggregator methods not found (%d)' % n)
    ctx.floor(7)
