"""C08 -- modes apply exactly to the wrapped spec; Fill and argument mode keep shape."""
import ast

from . import rule, info
from ..program import AnalysisError, src, norm, ClassInfo
from ..util import (is_name, calls_in, callee_qual, deref, ancestors, evaluator_calls, stmt_of, parent,
                    handler_outcomes, completes_normally, enclosing_trys, fmt_witness)

info('C08',
     explanation='Static decision of: each mode wrapper stores its mode function in its own frame before the '
                 'recursive evaluation on every path (Auto->AUTO, Fill->FILL, Match->match dispatcher, '
                 'Group->GROUP); the evaluator initialises a child\'s MODE / MIN_MODE from the parent frame\'s '
                 'own map; every frame recycler resets the recycled frame\'s MODE slot from its argument frame '
                 '(mode confinement across chained steps); argument mode is bracketed (save, set, evaluate, '
                 'restore) and no arg_val call sits under a recovering handler of the same frame; FILL / '
                 'argument mode dispatch on type(spec) for dict, list, tuple, set, frozenset and rebuild with '
                 'the same type; the cycle memo is stored before recursing and consulted first.',
     decided=['C08.1 mode stored before recursion', 'C08.2 child inherits from parent map',
              'C08.3 mode reset on recycled frames', 'C08.4 argument mode bracketed', 'C08.5 shape-keeping dispatch',
              'C08.6 cycle memo'],
     not_decided=['value-level shape equality for arbitrary nested literals'])

WRAPPERS = {'core.Auto.glomit': 'core.AUTO', 'core.Fill.glomit': 'core.FILL',
            'matching.Match.glomit': 'matching._glom_match', 'grouping.Group.glomit': 'grouping.GROUP'}


def mode_stores(p, u):
    return [n for n in u.own_nodes() if isinstance(n, ast.Assign) and isinstance(n.targets[0], ast.Subscript)
            and p.scope_key(u, n.targets[0].slice) == 'core.MODE']


@rule('C08.1')
def mode_before_recursion(ctx):
    p = ctx.program
    seen_units = set()
    for q, want in WRAPPERS.items():
        u = ctx.unit(q)
        seen_units.add(u)
        cfg = ctx.cfg(u)
        ms = mode_stores(p, u)
        ok = len(ms) == 1 and is_name(ms[0].targets[0].value, u.params[2]) and p.global_qualname(u, ms[0].value) == want
        ctx.ob(ok, u, '%s installs %s in its own frame: %s' % (u.cls.name, want, [norm(m) for m in ms]))
        evs = evaluator_calls(p, u)
        ctx.require(evs, '%s: no recursive evaluation' % q)
        if ms:
            mn = cfg.node_of(ms[0])
            for e in evs:
                en = cfg.node_containing(e)
                ctx.ob(cfg.dominates(mn, en), u, 'the mode is in force before `%s`' % norm(e), node=e)
                ctx.ob(is_name(e.args[2], u.params[2]) and not _rebinds(cfg, u.params[2]), u,
                       'the wrapped spec is evaluated under the frame that carries the mode: %s' % norm(e), node=e)
    # no other writer of MODE besides the wrappers, the root and the recycler
    allowed = set(WRAPPERS) | {'core.chain_child'}
    for u in p.package_units():
        for m in mode_stores(p, u):
            ok = u.qualname in allowed
            ctx.ob(ok, u, 'MODE is written only by mode wrappers and the frame recycler: %s' % norm(m),
                   '' if ok else 'unexpected writer %s' % u.qualname, node=m)
    # mode dispatch in the evaluator: MIN_MODE has priority, both read from the child's own map
    u = ctx.unit('core._glom')
    mc = [c for c in calls_in(u) if isinstance(c.func, ast.BoolOp)]
    ctx.require(len(mc) == 1, '_glom: mode dispatch not found')
    f = mc[0].func
    keys = [p.scope_key(u, v.slice) if isinstance(v, ast.Subscript) else None for v in f.values]
    ctx.ob(isinstance(f.op, ast.Or) and keys == ['core.MIN_MODE', 'core.MODE'], u,
           'dispatch uses MIN_MODE when set, else MODE: %s' % norm(f), node=mc[0])
    ctx.floor(14)


def _rebinds(cfg, name):
    return any(nm == name for n in cfg.nodes if n is not cfg.entry for nm, _ in cfg.defs_at(n))


@rule('C08.2')
def child_inherits(ctx):
    p = ctx.program
    u = ctx.unit('core._glom')
    cfg = ctx.cfg(u)
    cs = [c for c in calls_in(u) if isinstance(c.func, ast.Attribute) and c.func.attr == 'new_child' and c.args
          and isinstance(c.args[0], ast.Dict)]
    ctx.require(len(cs) == 1, '_glom: frame display not found')
    d = cs[0].args[0]
    node = cfg.node_containing(cs[0])
    found = 0
    for k, v in zip(d.keys, d.values):
        kk = p.scope_key(u, k)
        if kk in ('core.MODE', 'core.MIN_MODE'):
            found += 1
            ok = isinstance(v, ast.Subscript) and p.scope_key(u, v.slice) == kk
            base = deref(cfg, node, v.value) if ok else None
            okb = isinstance(base, ast.Subscript) and isinstance(base.value, ast.Attribute) and base.value.attr == 'maps' \
                and isinstance(base.slice, ast.Constant) and base.slice.value == 0
            if okb:
                root = deref(cfg, node, base.value.value)
                okb = is_name(root, u.params[2])
            ctx.ob(ok and okb, u, 'the child\'s %s is copied from the parent frame\'s own map: %s' % (kk, norm(v)), node=v)
    ctx.ob(found == 2, u, 'every child frame records its own MODE and MIN_MODE (the mode it was created in survives a later '
           'reset of the parent\'s)', '' if found == 2 else 'the frame display initialises %d of the two keys' % found, node=d)
    # tombstone: T specs and glomit specs clear MIN_MODE in the child before dispatch
    tomb = [n for n in u.own_nodes() if isinstance(n, ast.Assign) and isinstance(n.targets[0], ast.Subscript)
            and p.scope_key(u, n.targets[0].slice) == 'core.MIN_MODE']
    disp = [c for c in calls_in(u) if callee_qual(p, u, c) == 'core._t_eval'
            or (isinstance(c.func, ast.Attribute) and c.func.attr == 'glomit')]
    for c in disp:
        dn = cfg.node_containing(c)
        nonexc = lambda lab: lab != 'exc'
        pre = [t for t in tomb if cfg.dominates(cfg.node_of(t), dn) and isinstance(t.value, ast.Constant)
               and t.value.value is None
               and not any(o is not t and cfg.find_path(cfg.node_of(t), {cfg.node_of(o)}, labels=nonexc) is not None
                           and cfg.find_path(cfg.node_of(o), {dn}, labels=nonexc) is not None for o in tomb)]
        ctx.ob(len(pre) >= 1, u, 'argument mode ends at a T / glomit spec (MIN_MODE cleared before `%s`)' % norm(c), node=c)
    ctx.floor(4)


def recyclers(ctx):
    """functions that return a frame read from LAST_CHILD_SCOPE of their argument"""
    p = ctx.program
    out = []
    for u in p.package_units():
        for r in [n for n in u.own_nodes() if isinstance(n, ast.Return) and n.value is not None]:
            cfg = ctx.cfg(u)
            v = deref(cfg, cfg.node_of(r), r.value)
            if isinstance(v, ast.Subscript) and p.scope_key(u, v.slice) == 'core.LAST_CHILD_SCOPE':
                out.append((u, r))
    return out


@rule('C08.3')
def mode_reset_on_recycle(ctx):
    p = ctx.program
    rec = recyclers(ctx)
    ctx.require(rec, 'no frame recycler found (role: returns scope[LAST_CHILD_SCOPE])')
    for u, r in rec:
        cfg = ctx.cfg(u)
        rn = cfg.node_of(r)
        arg = u.params[0]
        rv = r.value.id if isinstance(r.value, ast.Name) else None
        resets = []
        for m in mode_stores(p, u):
            base = m.targets[0].value
            broot = base
            while isinstance(broot, (ast.Subscript, ast.Attribute)):
                broot = broot.value
            # value read from the argument frame's MODE
            v = m.value
            vroot = v
            while isinstance(vroot, (ast.Subscript, ast.Attribute)):
                vroot = vroot.value
            reads_mode = isinstance(v, ast.Subscript) and p.scope_key(u, v.slice) == 'core.MODE' and is_name(vroot, arg)
            own_map = isinstance(base, ast.Name) or (isinstance(base, ast.Subscript) and isinstance(base.value, ast.Attribute)
                                                     and base.value.attr == 'maps' and isinstance(base.slice, ast.Constant)
                                                     and base.slice.value == 0)
            if is_name(broot, rv) and reads_mode and own_map and cfg.dominates(cfg.node_of(m), rn):
                resets.append(m)
        ok = bool(resets)
        # accepted alternative: every call site resets before evaluating
        if not ok:
            ok = _callers_reset(ctx, u)
        ctx.ob(ok, u, 'the recycled frame\'s MODE is reset from the argument frame before it parents the next step: %s'
               % norm(r),
               '' if ok else 'the frame returned here was owned by an arbitrary spec (possibly a mode wrapper) and the '
               'evaluator copies its MODE into everything evaluated next: a Fill/Match/Group/Auto step leaks its mode '
               'into the following tuple/Pipe steps (and Switch values)', node=r)
    # MIN_MODE needs no reset: every recycler call site is in a glomit (tombstoned frame) or in a function
    # only reached as mode function (dispatched when MIN_MODE is falsy)
    mode_funcs = {'core._handle_tuple': ('core.AUTO', 'core.Pipe.glomit'),
                  'matching._handle_dict': ('matching._glom_match',),
                  'matching.Switch.glomit': ()}
    for cu in p.package_units():
        for c in calls_in(cu):
            if callee_qual(p, cu, c) == 'core.chain_child':
                if cu.name == 'glomit':
                    ctx.ob(True, cu, 'recycler call site is in a glomit (its frame has MIN_MODE cleared): %s' % norm(c), node=c)
                    continue
                want = mode_funcs.get(cu.qualname)
                callers = {x.qualname for x in p.package_units() for cc in calls_in(x)
                           if callee_qual(p, x, cc) == cu.qualname}
                ok = want is not None and callers <= set(want)
                ctx.ob(ok, cu, 'recycler call site is only reached from a mode function or glomit: %s (callers %s)'
                       % (norm(c), sorted(callers)), node=c)
    ctx.floor(4)


def _callers_reset(ctx, recycler):
    p = ctx.program
    sites = 0
    for u in p.package_units():
        for c in calls_in(u):
            if callee_qual(p, u, c) == recycler.qualname:
                sites += 1
                st = stmt_of(c)
                if not (isinstance(st, ast.Assign) and is_name(st.targets[0])):
                    return False
                var = st.targets[0].id
                cfg = ctx.cfg(u)
                ok = False
                for m in mode_stores(p, u):
                    b = m.targets[0].value
                    while isinstance(b, (ast.Subscript, ast.Attribute)):
                        b = b.value
                    if is_name(b, var) and cfg.dominates(cfg.node_of(st), cfg.node_of(m)):
                        ok = True
                if not ok:
                    return False
    return sites > 0


@rule('C08.4')
def arg_mode_bracketed(ctx):
    p = ctx.program
    u = ctx.unit('core.arg_val')
    cfg = ctx.cfg(u)
    scope = u.params[2]
    saves = [n for n in u.own_nodes() if isinstance(n, ast.Assign) and is_name(n.targets[0]) and isinstance(n.value, ast.Subscript)
             and p.scope_key(u, n.value.slice) == 'core.MIN_MODE' and is_name(n.value.value, scope)]
    sets = [n for n in u.own_nodes() if isinstance(n, ast.Assign) and isinstance(n.targets[0], ast.Subscript)
            and p.scope_key(u, n.targets[0].slice) == 'core.MIN_MODE' and is_name(n.targets[0].value, scope)]
    evs = evaluator_calls(p, u)
    rets = [n for n in u.own_nodes() if isinstance(n, ast.Return)]
    ctx.require(len(saves) == 1 and len(evs) == 1 and rets, 'arg_val: save of MIN_MODE / evaluation / return not found')
    saved = saves[0].targets[0].id
    installs = [s_ for s_ in sets if not is_name(s_.value, saved)]
    restores = [s_ for s_ in sets if is_name(s_.value, saved)]
    ctx.ob(len(installs) == 1, u, 'argument mode is installed once: %s' % [norm(x) for x in installs])
    ctx.ob(len(restores) >= 1, u, 'the previous MIN_MODE is restored: %s' % [norm(x) for x in restores])
    if installs and restores:
        sn, inn, en = cfg.node_of(saves[0]), cfg.node_of(installs[0]), cfg.node_containing(evs[0])
        rns = {cfg.node_of(r) for r in restores}
        ctx.ob(cfg.dominates(sn, inn) and cfg.dominates(inn, en), u, 'save, then install, then evaluate')
        # every normal path from the install to the function exit passes a restore
        okp, path = cfg.must_pass(inn, {cfg.exit}, rns, labels=lambda l: l != 'exc')
        ctx.ob(okp, u, 'every normal return of arg_val comes after the restore',
               '' if okp else 'a path returns with argument mode still installed on the caller\'s frame: everything evaluated '
               'next in that frame (later tuple steps, dict values) is treated as a literal argument',
               witness=fmt_witness(cfg, path))
        # ... and so does every exceptional exit: the frame can outlive a failing argument (the
        # wildcard loop of the T interpreter drops the entry and goes on in the same frame)
        okx, pathx = cfg.must_pass(inn, {cfg.exit, cfg.raise_exit}, rns, start_labels=lambda l: l != 'exc')
        ctx.ob(okx, u, 'argument mode is also restored when evaluating the argument raises',
               '' if okx else "glom([{'k': 'a', 'a': 1}, {'a': 2}], (T.__star__()[T['k']], len)) returns the function len: "
               "the failing entry leaves argument mode on the frame and the next chain step is taken as a literal",
               witness=fmt_witness(cfg, pathx))
        for rn in rns:
            ctx.ob(cfg.dominates(en, rn) or cfg.find_path(en, {rn}) is not None, u, 'the restore follows the evaluation')
    if installs:
        set_ = installs[0]
        v = set_.value
        ok = isinstance(v, ast.Attribute) and isinstance(v.value, ast.Call) and callee_qual(p, u, v.value) == 'core._ArgValuator'
        ctx.ob(ok, u, 'argument mode is a fresh valuator\'s mode function: %s' % norm(set_), node=set_)
        if ok:
            mu = p.find_unit('core._ArgValuator.' + v.attr)
            ctx.ob(mu is not None, u, 'the installed mode function exists: _ArgValuator.%s' % v.attr)
    e = evs[0]
    ok = [a.id if isinstance(a, ast.Name) else None for a in e.args] == [u.params[0], u.params[1], scope]
    ctx.ob(ok, u, 'the argument is evaluated on the given target in this frame: %s' % norm(e), node=e)
    st = stmt_of(e)
    rv = st.targets[0].id if isinstance(st, ast.Assign) and is_name(st.targets[0]) else None
    okr = (rv is not None and all(is_name(r.value, rv) for r in rets)) or \
        (isinstance(st, ast.Return) and len(rets) == 1 and rets[0] is st and st.value is e)
    ctx.ob(okr, u, 'the evaluated argument is what is returned: %s' % [norm(r) for r in rets])
    # call sites: none under a recovering handler of the same frame
    n_sites = 0
    for cu in p.package_units():
        cfg2 = None
        for c in calls_in(cu):
            if callee_qual(p, cu, c) != 'core.arg_val':
                continue
            n_sites += 1
            cfg2 = cfg2 or ctx.cfg(cu)
            node = cfg2.node_containing(c)
            rec = [h for h in cfg2.handlers_reached_from(node)
                   if completes_normally(handler_outcomes(cfg2, h))] if node is not None else []
            ctx.ob(not rec, cu, 'arg_val call is not under a handler that recovers in the same frame: %s' % norm(c),
                   '' if not rec else 'a failure inside the argument would leave argument mode set on this frame', node=c)
    if n_sites < 10:
        raise AnalysisError('C08.4: only %d arg_val call sites found (floor 10)' % n_sites)
    ctx.floor(16)


@rule('C08.5')
def shape_dispatch(ctx):
    p = ctx.program
    u = ctx.unit('core.FILL')
    target, spec, scope = u.params[:3]
    types = set()
    for n in u.own_nodes():
        if isinstance(n, ast.Compare) and isinstance(n.left, ast.Call) and is_name(n.left.func, 'type') \
                and n.left.args and is_name(n.left.args[0], spec):
            for c in n.comparators:
                for x in ast.walk(c):
                    if isinstance(x, ast.Name):
                        types.add(x.id)
    ctx.ob(types >= {'dict', 'list', 'tuple', 'set', 'frozenset'}, u,
           'Fill dispatches on the exact type of dict, list, tuple, set, frozenset: %s' % sorted(types))
    # dict branch: dict comprehension over spec.items() with both key and value evaluated
    dcs = [n for n in u.own_nodes() if isinstance(n, ast.DictComp)]
    ok = len(dcs) == 1 and norm(dcs[0].generators[0].iter) == '%s.items()' % spec and not dcs[0].generators[0].ifs \
        and isinstance(dcs[0].key, ast.Call) and isinstance(dcs[0].value, ast.Call)
    ctx.ob(ok, u, 'a dict is rebuilt with every key and value evaluated: %s' % [norm(d) for d in dcs])
    # sequence branch: list of evaluated items, converted with type(spec) unless list
    lcs = [n for n in u.own_nodes() if isinstance(n, ast.ListComp)]
    ok = len(lcs) == 1 and is_name(lcs[0].generators[0].iter, spec) and not lcs[0].generators[0].ifs
    ctx.ob(ok, u, 'other containers are rebuilt item by item in order: %s' % [norm(x) for x in lcs])
    conv = [c for c in calls_in(u) if isinstance(c.func, ast.Call) and is_name(c.func.func, 'type')
            and is_name(c.func.args[0], spec)]
    ctx.ob(len(conv) == 1, u, 'the rebuilt container has the spec\'s own type: %s' % [norm(c) for c in conv])
    # literals are returned as they are; callables are called
    rets = [n for n in u.node.body if isinstance(n, ast.Return)]
    ctx.ob(len(rets) == 1 and is_name(rets[0].value, spec), u, 'anything else is returned as a literal: %s' % [norm(r) for r in rets])
    # nested values are evaluated against the same target through the evaluator (so nested T/Spec are replaced)
    for lu in u.children:
        for e in evaluator_calls(p, lu):
            ok = is_name(e.args[0], target) and is_name(e.args[1], lu.params[0]) and is_name(e.args[2], scope)
            ctx.ob(ok, u, 'nested values are evaluated on the same target in this frame: %s' % norm(e), node=e)
    # argument mode: same type rebuild
    au = ctx.unit('core._ArgValuator.mode')
    conv = [c for c in calls_in(au) if isinstance(c.func, ast.Call) and is_name(c.func.func, 'type')
            and is_name(c.func.args[0], au.params[2])]
    ctx.ob(len(conv) >= 2, au, 'argument mode rebuilds containers with type(spec): %s' % [norm(c) for c in conv])
    for n in au.own_nodes():
        if isinstance(n, (ast.ListComp, ast.DictComp)):
            g = n.generators[0]
            ctx.ob(not g.ifs and (is_name(g.iter, au.params[2]) or norm(g.iter) == '%s.items()' % au.params[2]), au,
                   'every element is carried over in order: %s' % norm(n), node=n)
    ctx.floor(9)


@rule('C08.6')
def cycle_memo(ctx):
    p = ctx.program
    u = ctx.unit('core._ArgValuator.mode')
    cfg = ctx.cfg(u)
    spec = u.params[2]
    def is_memo(e, at):
        e = deref(cfg, cfg.node_of(at), e)      # ``cache = self.cache`` read once into a local
        return isinstance(e, ast.Attribute) and e.attr == 'cache'
    stores = [n for n in u.own_nodes() if isinstance(n, ast.Assign) and any(
        isinstance(t, ast.Subscript) and is_memo(t.value, n) for t in n.targets)]
    ctx.require(len(stores) == 1, 'arg mode: memo store not found')
    st = stores[0]
    t = [t for t in st.targets if isinstance(t, ast.Subscript)][0]
    ok = isinstance(t.slice, ast.Call) and is_name(t.slice.func, 'id') and is_name(t.slice.args[0], spec)
    ctx.ob(ok, u, 'the memo is keyed by the identity of the container being rebuilt: %s' % norm(st), node=st)
    # the object being filled: a second target of the same assignment, or (normal form of the
    # chained assignment) the local whose value is stored
    res = [x.id for x in st.targets if isinstance(x, ast.Name)]
    if not res and is_name(st.value):
        res = [st.value.id]
    ctx.ob(len(res) == 1, u, 'the memo holds the very object being filled: %s' % norm(st))
    sn = cfg.node_of(st)
    # every recursive evaluation under the list/dict test comes after the store
    g = [a for a in ancestors(st) if isinstance(a, ast.If)]
    ctx.require(g, 'arg mode: memo store is not under the list/dict type test')
    rec_calls = [c for s in g[0].body for c in ast.walk(s) if isinstance(c, ast.Call) and isinstance(c.func, ast.Name)
                 and c.func.id in {lu.name for lu in u.children} | {'recur', 'recurse'}]
    lam_names = {n.targets[0].id for n in u.own_nodes() if isinstance(n, ast.Assign) and isinstance(n.value, ast.Lambda)
                 and is_name(n.targets[0])}
    rec_calls = [c for s in g[0].body for c in ast.walk(s) if isinstance(c, ast.Call) and isinstance(c.func, ast.Name)
                 and c.func.id in lam_names]
    ctx.require(rec_calls, 'arg mode: no recursive evaluation in the list/dict branch')
    for c in rec_calls:
        cn = cfg.node_containing(c)
        ctx.ob(cfg.dominates(sn, cn) and cn is not sn, u, 'the memo is stored before recursing: %s' % norm(c), node=c)
    # consulted first
    looks = [n for n in u.own_nodes() if isinstance(n, ast.If) and isinstance(n.test, ast.Compare)
             and isinstance(n.test.ops[0], ast.In) and isinstance(n.test.left, ast.Call) and is_name(n.test.left.func, 'id')]
    ok = len(looks) == 1 and cfg.dominates(cfg.node_of(looks[0]), sn) and isinstance(looks[0].body[0], ast.Return)
    ctx.ob(ok, u, 'the memo is consulted before rebuilding: %s' % [norm(l.test) for l in looks])
    # filled in place (update/extend on the memoised object), so cycles point at the same object
    fills = [c for s in g[0].body for c in ast.walk(s) if isinstance(c, ast.Call) and isinstance(c.func, ast.Attribute)
             and c.func.attr in ('update', 'extend') and res and is_name(c.func.value, res[0])]
    ctx.ob(len(fills) == 2, u, 'the memoised container is filled in place: %s' % [norm(f) for f in fills])
    # tuple / set / frozenset cannot contain themselves: not memoised, rebuilt directly
    ctx.floor(6)
