"""rule registry: ``@rule('C01.2')`` registers a function(ctx) under its
property; PROPERTY_INFO holds the per-property evidence texts"""
import importlib

_RULES = {}
PROPERTY_INFO = {}

PROPERTIES = ['C%02d' % i for i in range(1, 21)]


def rule(rid, tier='quick'):
    pid = rid.split('.')[0]

    def deco(fn):
        _RULES.setdefault(pid, []).append((rid, fn, tier))
        fn.rule_id = rid
        return fn
    return deco


def info(pid, **kw):
    PROPERTY_INFO[pid] = kw


_loaded = False


def _load():
    global _loaded
    if _loaded:
        return
    _loaded = True
    for pid in PROPERTIES:
        try:
            importlib.import_module('sa.rules.' + pid.lower())
        except ModuleNotFoundError as e:
            if e.name != 'sa.rules.' + pid.lower():
                raise
    importlib.import_module('sa.rules.cross')


def rules_for(pid):
    _load()
    from ..program import AnalysisError
    rs = _RULES.get(pid)
    if not rs:
        raise AnalysisError('no rules registered for %s' % pid)
    return sorted(rs, key=lambda r: [int(x) if x.isdigit() else x for x in r[0][1:].replace('.', ' ').split()])


def all_rule_ids():
    _load()
    return {pid: [r[0] for r in rs] for pid, rs in _RULES.items()}
