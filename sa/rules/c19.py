"""C19 -- the CLI prints what the library computes; default-format specs never execute."""
import ast

from . import rule, info
from ..program import AnalysisError, src, norm, ClassInfo
from ..tables import SINK_BUILTINS, SINK_EXTERNALS, SINK_EXTERNAL_PREFIXES, SAFE_LOADERS
from ..pattern import match, matches
from ..util import (is_name, calls_in, callee_qual, deref, ancestors, stmt_of, parent, handler_outcomes,
                    handler_covers, raised_class, is_subclass, kwarg, in_handler_of, enclosing_trys)

info('C19',
     explanation='Static decision of: sink confinement (the only dynamic-code sinks of the whole package are '
                 'compile/exec in one helper, reached from the CLI entry only through a call site control-'
                 'dependent on spec_format == "python-full"); spec-text taint (the spec text flows only into repr, '
                 'ast.literal_eval, json.loads, comparisons/subscripts and that guarded call); printed = computed '
                 '(the printed text is json.dumps(result, indent=<flag or None>, sort_keys=True) of the return of '
                 'glom.glom(target, spec), target from the loader, spec from the parser, nothing in between but '
                 'the optional Inspect wrapper under the debug flags); error paths (GlomError -> message naming '
                 'the class + return 1; loader and file errors -> UsageError; every target format binds a safe '
                 'loader and the chain ends in UsageError).',
     decided=['C19.1 sink confinement', 'C19.2 spec-text taint', 'C19.3 printed = computed', 'C19.4 error paths',
              'C19.5 entry points'],
     not_decided=['byte-for-byte output for arbitrary values', "face's own argument parsing"])


def is_sink(q):
    if q is None:
        return False
    if q.startswith('builtins.') and q.split('.', 1)[1] in SINK_BUILTINS:
        return True
    if q in SINK_EXTERNALS:
        return True
    return any(q.startswith(pre) for pre in SINK_EXTERNAL_PREFIXES)


@rule('C19.1')
def sink_confinement(ctx):
    p = ctx.program
    sinks = []
    n_calls = 0
    for u in p.package_units():
        for c in calls_in(u):
            n_calls += 1
            q = callee_qual(p, u, c)
            if is_sink(q):
                sinks.append((u, c, q))
    # module-level statements
    for mod in p.modules.values():
        if mod.short == 'tutorial':
            continue
        for st in mod.tree.body:
            if isinstance(st, (ast.FunctionDef, ast.ClassDef)):
                continue
            for c in [x for x in ast.walk(st) if isinstance(x, ast.Call)]:
                if isinstance(c.func, ast.Name) and c.func.id in SINK_BUILTINS and c.func.id not in mod.symbols:
                    sinks.append((None, c, 'builtins.' + c.func.id))
    holders = {u.qualname if u else 'module' for u, _, _ in sinks}
    ctx.ob(holders == {'cli._compile_code'}, 'package', 'dynamic-code sinks exist only in cli._compile_code',
           'sinks: %s' % sorted('%s in %s' % (q, u.qualname if u else 'module level') for u, _, q in sinks))
    for u, c, q in sinks:
        ok = u is not None and u.qualname == 'cli._compile_code'
        ctx.ob(ok, u or 'module', 'sink %s is inside the python-full helper: %s' % (q, src(c, 60)), node=c)
    ctx.ob(sorted(q for _, _, q in sinks) == ['builtins.compile', 'builtins.exec'], 'cli._compile_code',
           'the helper compiles and executes (exactly compile + exec): %s' % sorted(q for _, _, q in sinks))
    # backwards call graph from the helper
    def callers_of(qual):
        out = []
        for u in p.package_units():
            for c in calls_in(u):
                if callee_qual(p, u, c) == qual:
                    out.append((u, c))
        return out
    c1 = callers_of('cli._compile_code')
    ctx.ob([u.qualname for u, _ in c1] == ['cli._eval_python_full_spec'], 'cli._compile_code',
           'the helper is called only by _eval_python_full_spec: %s' % [u.qualname for u, _ in c1])
    c2 = callers_of('cli._eval_python_full_spec')
    ctx.ob([u.qualname for u, _ in c2] == ['cli.mw_get_target'], 'cli._eval_python_full_spec',
           'which is called only by the CLI middleware: %s' % [u.qualname for u, _ in c2])
    # neither is referenced as a value anywhere else (aliasing / callbacks)
    for name in ('_compile_code', '_eval_python_full_spec'):
        refs = []
        for u in p.package_units():
            for n in u.own_nodes():
                if isinstance(n, ast.Name) and n.id == name and isinstance(n.ctx, ast.Load) and not \
                        (isinstance(parent(n), ast.Call) and parent(n).func is n):
                    refs.append(u.qualname)
        ctx.ob(not refs, 'cli', '%s is never passed around as a value' % name, 'referenced in %s' % refs)
    for u, c in c2:
        g = [a for a in ancestors(c) if isinstance(a, ast.If)]
        ok = False
        for a in g:
            t = a.test
            if isinstance(t, ast.Compare) and len(t.ops) == 1 and isinstance(t.ops[0], ast.Eq) and is_name(t.left, 'spec_format') \
                    and isinstance(t.comparators[0], ast.Constant) and t.comparators[0].value == 'python-full' \
                    and any(c in ast.walk(s) for s in a.body):
                ok = True
        ctx.ob(ok, u, "the call is control-dependent on spec_format == 'python-full': %s" % norm(c), node=c)
        ctx.ob(not in_handler_of(c), u, 'and is not a fallback inside an exception handler')
    # embedded positive example: an eval() anywhere must be found
    from ..program import Program
    srcs = dict(p.sources)
    probe = srcs['glom/cli.py'].replace("        spec = ast.literal_eval(spec_text)\n", "        spec = eval(spec_text)\n", 1)
    if probe != srcs['glom/cli.py']:
        srcs['glom/cli.py'] = probe
        p2 = Program(srcs)
        u2 = p2.unit('cli.mw_get_target')
        found = any(is_sink(callee_qual(p2, u2, c)) for c in calls_in(u2))
        if not found:
            raise AnalysisError('C19.1 positive example (eval in mw_get_target) was not detected')
        ctx.ob(True, 'selfcheck', 'embedded positive example `eval(spec_text)` is detected')
    ctx.note('%d call sites of the package resolved and screened against the sink tables' % n_calls)
    if n_calls < 1000:
        raise AnalysisError('C19.1: only %d call sites screened (floor 1000)' % n_calls)
    ctx.floor(9)


def mw_roles(ctx):
    """local names of mw_get_target / mw_handle_target by role"""
    p = ctx.program
    u = ctx.unit('cli.mw_get_target')
    r = {}
    posargs = u.params[1]
    for n in ast.walk(u.node):
        if isinstance(n, ast.If) and matches(n.test, 'len(%s) == 2' % posargs):
            b = match(n.body[0], '$st, $tt = %s' % posargs)
            if b:
                r['spec_text'], r['target_text'] = b['st'], b['tt']
    ret = [n for n in u.node.body if isinstance(n, ast.Return)]
    if len(ret) == 1 and isinstance(ret[0].value, ast.Call):
        kw = {k.arg: k.value for k in ret[0].value.keywords}
        if is_name(kw.get('spec')) and kw.get('target') is not None:
            r['spec'] = kw['spec'].id
            cfg = ctx.cfg(u)
            r['target'] = deref(cfg, cfg.node_of(ret[0]), kw['target'])
        r['return'] = ret[0]
    hu = ctx.unit('cli.mw_handle_target')
    # the load call: a local callable applied to the text parameter; its result is kept in a
    # local or returned at once
    for c in calls_in(hu):
        if is_name(c.func) and c.func.id not in hu.all_params and len(c.args) == 1 and is_name(c.args[0], hu.params[0]) \
                and not c.keywords and p.resolve_name(hu, c.func.id).kind == 'local':
            st = stmt_of(c)
            r['load_func'] = c.func.id
            r['load_call'] = c
            r['load_stmt'] = st
            r['loaded'] = st.targets[0].id if isinstance(st, ast.Assign) and st.value is c and is_name(st.targets[0]) else None
    need = {'spec_text', 'target_text', 'spec', 'target', 'load_func', 'load_call'}
    ctx.require(need <= set(r), 'CLI middleware: roles not found: %s' % sorted(need - set(r)))
    return r


@rule('C19.2')
def spec_taint(ctx):
    p = ctx.program
    u = ctx.unit('cli.mw_get_target')
    R = mw_roles(ctx)
    ST, SP = R['spec_text'], R['spec']
    uses = [n for n in u.own_nodes() if isinstance(n, ast.Name) and n.id == ST and isinstance(n.ctx, ast.Load)]
    ctx.require(len(uses) >= 6, 'mw_get_target: uses of spec_text not found')
    for n in uses:
        par = parent(n)
        kind = None
        if isinstance(par, ast.Call) and n in par.args:
            q = callee_qual(p, u, par)
            if q in ('builtins.repr', 'ast.literal_eval', 'json.loads'):
                kind = 'safe sink ' + q
            elif q == 'cli._eval_python_full_spec':
                kind = 'guarded python-full call'
        elif isinstance(par, (ast.BoolOp, ast.UnaryOp, ast.If)) or (isinstance(par, ast.If) and par.test is n):
            kind = 'truth test'
        elif isinstance(par, ast.Subscript) and par.value is n and isinstance(parent(par), ast.Compare):
            kind = 'first-character test'
        elif isinstance(par, ast.Compare):
            kind = 'comparison'
        ctx.ob(kind is not None, u, 'spec text use is harmless (%s): %s' % (kind, src(stmt_of(n), 70)),
               '' if kind else 'the spec text flows into %s' % src(par, 60), node=n)
    # values derived from spec_text: `spec` only
    derived = [n for n in u.own_nodes() if isinstance(n, ast.Assign) and any(
        isinstance(x, ast.Name) and x.id == ST for x in ast.walk(n.value))]
    for d in derived:
        t = d.targets[0]
        ok = is_name(t) and t.id in (SP, ST)
        ctx.ob(ok, u, 'values derived from the spec text are the spec itself: %s' % norm(d), node=d)
    # the python branch: bare words become a quoted string, then literal_eval
    py = [n for n in ast.walk(u.node) if isinstance(n, ast.If) and norm(n.test) == "spec_format == 'python'"]
    ok = len(py) == 1 and norm(py[0].body[-1]) == '%s = ast.literal_eval(%s)' % (SP, ST)
    ctx.ob(ok, u, 'the default format parses the text as a Python literal only')
    js = [n for n in ast.walk(u.node) if isinstance(n, ast.If) and norm(n.test) == "spec_format == 'json'"]
    ok = len(js) == 1 and norm(js[0].body[-1]) == '%s = json.loads(%s)' % (SP, ST)
    ctx.ob(ok, u, 'the json format parses the text as JSON only')
    # the default spec format is python
    gu = ctx.unit('cli.get_command')
    adds = [c for c in calls_in(gu) if isinstance(c.func, ast.Attribute) and c.func.attr == 'add' and c.args
            and isinstance(c.args[0], ast.Constant) and c.args[0].value == '--spec-format']
    ok = len(adds) == 1 and isinstance(kwarg(adds[0], 'missing'), ast.Constant) and kwarg(adds[0], 'missing').value == 'python'
    ctx.ob(ok, gu, "--spec-format defaults to 'python'")
    # an unknown format is refused
    ctx.floor(12)


@rule('C19.3')
def printed_is_computed(ctx):
    p = ctx.program
    u = ctx.unit('cli.glom_cli')
    cfg = ctx.cfg(u)
    gl = [c for c in calls_in(u) if callee_qual(p, u, c) == 'core.glom']
    ctx.require(len(gl) == 1, 'glom_cli: glom.glom call not found')
    g = gl[0]
    ok = [a.id if isinstance(a, ast.Name) else None for a in g.args] == u.params[:2] and not g.keywords
    ctx.ob(ok, u, 'the library is called as glom.glom(target, spec): %s' % norm(g))
    st = stmt_of(g)
    rv = st.targets[0].id if isinstance(st, ast.Assign) and is_name(st.targets[0]) else None
    ctx.ob(rv is not None, u, 'its return value is kept: %s' % norm(st))
    # target is never rebound; spec only by the Inspect wrapper under the flags
    rb = [n for n in cfg.nodes if any(nm == u.params[0] for nm, _ in cfg.defs_at(n)) and n is not cfg.entry]
    ctx.ob(not rb, u, 'the target is passed on as loaded')
    sb = [n for n in cfg.nodes if any(nm == u.params[1] for nm, _ in cfg.defs_at(n)) and n is not cfg.entry]
    ok = len(sb) == 1 and isinstance(sb[0].ast, ast.Assign) and isinstance(sb[0].ast.value, ast.Call) \
        and callee_qual(p, u, sb[0].ast.value) == 'core.Inspect' and is_name(sb[0].ast.value.args[0], u.params[1])
    if ok:
        gd = [a for a in ancestors(sb[0].ast) if isinstance(a, ast.If)]
        ok = bool(gd) and norm(gd[0].test) == 'debug or inspect'
    ctx.ob(ok, u, 'the spec is only ever wrapped in Inspect(spec, ...) under the debug flags')
    prints = [c for c in calls_in(u) if is_name(c.func, 'print') and not in_handler_of(c)]
    dumps = [c for c in prints if c.args and isinstance(c.args[0], ast.Call) and callee_qual(p, u, c.args[0]) == 'json.dumps']
    ctx.ob(len(dumps) == 1, u, 'one json.dumps print: %s' % [norm(c) for c in dumps])
    if dumps:
        d = dumps[0].args[0]
        kw = {k.arg: k.value for k in d.keywords}
        ok = len(d.args) == 1 and is_name(d.args[0], rv) and isinstance(kw.get('sort_keys'), ast.Constant) and kw['sort_keys'].value is True \
            and is_name(kw.get('indent'), 'indent') and set(kw) == {'indent', 'sort_keys'}
        ctx.ob(ok, u, 'the printed text is json.dumps(result, indent=indent, sort_keys=True): %s' % norm(d))
        # no rebinding of the result between the call and the print
        defs = cfg.reaching_defs(cfg.node_containing(dumps[0]), rv)
        ctx.ob(len(defs) == 1 and defs[0][1] is g, u, 'the printed value is the library\'s return value itself')
        ctx.ob(not dumps[0].keywords, u, 'printed with the default end/sep')
    ind = [n for n in u.own_nodes() if isinstance(n, ast.If) and norm(n.test) == 'not indent']
    ok = len(ind) == 1 and norm(ind[0].body[0]) == 'indent = None'
    ctx.ob(ok, u, '--indent 0 means compact output (indent=None)')
    sc = [c for c in prints if c not in dumps]
    ok = len(sc) == 1 and is_name(sc[0].args[0], rv)
    if ok:
        gd = [a for a in ancestors(sc[0]) if isinstance(a, ast.If)]
        ok = bool(gd) and norm(gd[0].test) == 'scalar and is_scalar(%s)' % rv
    ctx.ob(ok, u, 'the raw form is printed only for --scalar and a scalar result: %s' % [norm(c) for c in sc])
    # normal completion returns None -> exit status 0
    rets = [n for n in u.own_nodes() if isinstance(n, ast.Return) and not in_handler_of(n)]
    ctx.ob(all(r.value is None for r in rets), u, 'success returns nothing (exit status 0)')
    # the middleware hands over exactly the parsed spec and the loaded target
    mu = ctx.unit('cli.mw_get_target')
    R = mw_roles(ctx)
    r = [n for n in mu.node.body if isinstance(n, ast.Return)]
    ok = len(r) == 1 and isinstance(r[0].value, ast.Call) and is_name(r[0].value.func, mu.params[0]) \
        and sorted(k.arg for k in r[0].value.keywords) == ['spec', 'target'] and not r[0].value.args \
        and all(is_name(k.value, R['spec']) for k in r[0].value.keywords if k.arg == 'spec')
    ctx.ob(ok, mu, 'the middleware hands over the parsed spec and the loaded target: %s' % [norm(x) for x in r])
    ok = matches(R['target'], 'mw_handle_target(%s, target_format)' % R['target_text'])
    ctx.ob(ok, mu, 'the target is what the loader returns: %s' % norm(R['target']))
    hu = ctx.unit('cli.mw_handle_target')
    hr = [n for n in hu.node.body if isinstance(n, ast.Return)]
    ld = [R['load_stmt']]
    hr_all = [n for n in hu.own_nodes() if isinstance(n, ast.Return) and n.value is not None]
    carry = [n for n in hr_all if n.value is R['load_call'] or (R['loaded'] is not None and is_name(n.value, R['loaded']))]
    # every return that is not the empty-text shortcut hands back the loader's result itself
    other = [n for n in hr_all if n not in carry and not matches(n.value, '{}')]
    ok = len(carry) >= 1 and not other
    ctx.ob(ok, hu, 'the loader result is returned unchanged: %s' % [norm(x) for x in ld])
    cu = ctx.unit('cli.get_command')
    cmd = [c for c in calls_in(cu) if callee_qual(p, cu, c) == 'face.Command' or (isinstance(c.func, ast.Name) and c.func.id == 'Command')]
    ok = len(cmd) == 1 and is_name(cmd[0].args[0], 'glom_cli') and 'mw_get_target' in norm(cmd[0])
    ctx.ob(ok, cu, 'the command runs glom_cli behind the target middleware: %s' % [src(c, 80) for c in cmd])
    ctx.floor(15)


@rule('C19.4')
def error_paths(ctx):
    p = ctx.program
    u = ctx.unit('cli.glom_cli')
    cfg = ctx.cfg(u)
    g = [c for c in calls_in(u) if callee_qual(p, u, c) == 'core.glom'][0]
    gn = cfg.node_containing(g)
    hs = cfg.handlers_reached_from(gn)
    ok = len(hs) == 1 and p.global_qualname(u, hs[0].ast.type) == 'core.GlomError' and hs[0].ast.name
    ctx.ob(ok, u, 'library failures are caught as GlomError: except %s' % [src(h.ast.type) for h in hs if h.ast.type is not None])
    for h in hs:
        rets = [s for s in ast.walk(h.ast) if isinstance(s, ast.Return)]
        ctx.ob(len(rets) == 1 and isinstance(rets[0].value, ast.Constant) and rets[0].value.value == 1, u, 'and give exit status 1')
        pr = [c for c in ast.walk(h.ast) if isinstance(c, ast.Call) and is_name(c.func, 'print')]
        ok = len(pr) == 1 and '__class__.__name__' in norm(pr[0]) and h.ast.name in {x.id for x in ast.walk(pr[0]) if isinstance(x, ast.Name)}
        ctx.ob(ok, u, 'with a message naming the error class and the error: %s' % [src(c, 70) for c in pr])
        ctx.ob(set(handler_outcomes(cfg, h)) == {'return'}, u, 'nothing is printed as a result after an error')
    hu = ctx.unit('cli.mw_handle_target')
    hcfg = ctx.cfg(hu)
    R = mw_roles(ctx)
    # format chain
    chain = []
    s = next((n for n in hu.node.body if isinstance(n, ast.If) and 'target_format' in norm(n.test)), None)
    ctx.require(s is not None, 'mw_handle_target: format chain not found')
    while True:
        chain.append(s)
        if len(s.orelse) == 1 and isinstance(s.orelse[0], ast.If):
            s = s.orelse[0]
        else:
            break
    last = chain[-1].orelse
    ok = len(last) == 1 and isinstance(last[0], ast.Raise) and is_subclass_name(p, hu, last[0], 'UsageError')
    ctx.ob(ok, hu, 'an unknown target format is a usage error: %s' % [src(x, 70) for x in last])
    for br in chain:
        binds = [n for n in ast.walk(ast.Module(body=br.body, type_ignores=[])) if isinstance(n, ast.Assign) and is_name(n.targets[0], R['load_func'])]
        for b in binds:
            q = p.global_qualname(hu, b.value)
            if q is None and isinstance(b.value, ast.Attribute) and isinstance(b.value.value, ast.Name):
                q = '%s.%s' % (b.value.value.id, b.value.attr)       # function-local imports (yaml, tomllib, tomli)
            ctx.ob(q in SAFE_LOADERS, hu, 'format %s binds a safe loader: %s' % (norm(br.test), q), node=b)
        ctx.ob(bool(binds), hu, 'format %s binds a loader' % norm(br.test))
    ld = [c for c in calls_in(hu) if is_name(c.func, R['load_func'])]
    ctx.require(len(ld) == 1, 'mw_handle_target: loader call not found')
    ln = hcfg.node_containing(ld[0])
    lhs = hcfg.handlers_reached_from(ln)
    ok = len(lhs) == 1 and handler_covers(hcfg, lhs[0], 'Exception')
    ctx.ob(ok, hu, 'any loader failure is caught')
    for h in lhs:
        rs = [r for r in ast.walk(h.ast) if isinstance(r, ast.Raise)]
        ok = len(rs) == 1 and is_subclass_name(p, hu, rs[0], 'UsageError') and all(k.startswith('raise-new') for k in handler_outcomes(hcfg, h))
        ctx.ob(ok, hu, 'and reported as a usage error, never as a result')
    # file reads
    mu = ctx.unit('cli.mw_get_target')
    mcfg = ctx.cfg(mu)
    opens = [c for c in calls_in(mu) if is_name(c.func, 'open')]
    ctx.require(len(opens) == 2, 'mw_get_target: file opens not found (%d)' % len(opens))
    for o in opens:
        on = mcfg.node_containing(o)
        hs = mcfg.handlers_reached_from(on)
        ok = len(hs) >= 1 and handler_covers(mcfg, hs[0], 'OSError')
        ctx.ob(ok, mu, 'an unreadable file is caught: %s' % src(o, 50), node=o)
        for h in hs:
            rs = [r for r in ast.walk(h.ast) if isinstance(r, ast.Raise)]
            ctx.ob(len(rs) == 1 and is_subclass_name(p, mu, rs[0], 'UsageError'), mu, 'and reported as a usage error', node=h.ast)
    # the text handed to the parsers is the text that was read: whichever source it came from
    # (argument, file, stdin) it is not edited on the way (no strip / replace / decode step)
    Rm = mw_roles(ctx)
    for role, extra in (('target_text', ()), ('spec_text', ('repr(%s)' % Rm['spec_text'],))):
        var = Rm[role]
        for n in mu.own_nodes():
            vals = []
            if isinstance(n, ast.Assign):
                for t in n.targets:
                    if is_name(t, var):
                        vals.append(n.value)
                    elif isinstance(t, ast.Tuple) and isinstance(n.value, ast.Tuple) and len(t.elts) == len(n.value.elts):
                        vals += [v for tt, v in zip(t.elts, n.value.elts) if is_name(tt, var)]
                    elif isinstance(t, ast.Tuple) and any(is_name(tt, var) for tt in t.elts):
                        vals.append(n.value)
            for v in vals:
                txt = norm(v)
                ok = isinstance(v, ast.Constant) and v.value is None or is_name(v, mu.params[1]) \
                    or matches(v, '%s[$$i]' % mu.params[1]) or txt in extra \
                    or matches(v, 'sys.stdin.read()') or matches(v, '$f.read()') or matches(v, 'open($$p).read()')
                ctx.ob(ok, mu, 'the %s is taken as read: %s = %s' % (role.replace('_', ' '), var, txt),
                       '' if ok else 'the text is transformed before it is parsed: a file source then disagrees with the '
                       'same text given as an argument or on stdin', node=n)
    # unknown spec format
    last = [n for n in ast.walk(mu.node) if isinstance(n, ast.If) and norm(n.test) == "spec_format == 'python-full'"]
    ok = len(last) == 1 and len(last[0].orelse) == 1 and isinstance(last[0].orelse[0], ast.Raise) and is_subclass_name(p, mu, last[0].orelse[0], 'UsageError')
    ctx.ob(ok, mu, 'an unknown spec format is a usage error')
    both = [n for n in ast.walk(mu.node) if isinstance(n, ast.If) and norm(n.test) in ('%s and spec_file' % R['spec_text'], '%s and target_file' % R['target_text'])]
    ctx.ob(len(both) == 2 and all(isinstance(b.body[0], ast.Raise) for b in both), mu, 'conflicting sources are usage errors')
    ctx.floor(20)


def is_subclass_name(p, u, r, name):
    exc = r.exc
    if isinstance(exc, ast.Call):
        exc = exc.func
    if isinstance(exc, ast.Name):
        q = p.global_qualname(u, exc)
        if q and q.split('.')[-1] == name:
            return True
        # a local variable holding an instance built from the class
        cfgu = None
    if isinstance(r.exc, ast.Name):
        from ..cfg import cfg_of
        cfg = cfg_of(p, u)
        node = cfg.node_of(r)
        for dn, v in cfg.reaching_defs(node, r.exc.id):
            if isinstance(v, ast.Call) and isinstance(v.func, ast.Name):
                q = p.global_qualname(u, v.func)
                if q and q.split('.')[-1] == name:
                    return True
    return False


@rule('C19.5')
def entry_points(ctx):
    p = ctx.program
    u = ctx.unit('cli.main')
    r = [n for n in u.node.body if isinstance(n, ast.Return)]
    ok = False
    if len(r) == 1:
        mcfg = ctx.cfg(u)
        b = match(deref(mcfg, mcfg.node_of(r[0]), r[0].value), '$$c.run(%s) or 0' % u.params[0])
        if b:
            c = deref(mcfg, mcfg.node_of(r[0]), b['c'])
            ok = isinstance(c, ast.Call) and callee_qual(p, u, c) == 'cli.get_command'
    ctx.ob(ok, u, 'main returns the command\'s status, 0 when none: %s' % [norm(x) for x in r])
    cu = ctx.unit('cli.console_main')
    ex = [c for c in calls_in(cu) if callee_qual(p, cu, c) == 'sys.exit']
    ok = len(ex) == 1 and norm(ex[0].args[0]) == 'main(sys.argv) or 0'
    ctx.ob(ok, cu, 'the console entry exits with that status: %s' % [norm(c) for c in ex])
    mm = p.modules.get('glom.__main__')
    ctx.ob(mm is not None and 'console_main()' in mm.source and 'from glom.cli import console_main' in mm.source, 'glom/__main__.py',
           'python -m glom runs the console entry')
    # stdin / file / argv target selection
    mu = ctx.unit('cli.mw_get_target')
    R = mw_roles(ctx)
    rd = [c for c in calls_in(mu) if norm(c) == 'sys.stdin.read()']
    ctx.ob(len(rd) == 2, mu, 'standard input is read for "-" and when no target argument is given on a pipe')
    sel = [n for n in mu.node.body if isinstance(n, ast.If) and norm(n.test) == 'len(posargs_) == 2']
    ok = len(sel) == 1 and norm(sel[0].body[0]) == '%s, %s = posargs_' % (R['spec_text'], R['target_text'])
    ctx.ob(ok, mu, 'two positional arguments are (spec, target) in that order')
    em = [n for n in ast.walk(mu.node) if isinstance(n, ast.If) and norm(n.test) == 'not %s' % R['spec_text']]
    ok = len(em) == 1 and norm(em[0].body[0]) == '%s = Path()' % R['spec']
    ctx.ob(ok, mu, 'no spec means the identity path')
    hu = ctx.unit('cli.mw_handle_target')
    e = hu.node.body[0]
    nxt = hu.node.body[1] if len(hu.node.body) > 1 else None
    ok = (isinstance(e, ast.If) or isinstance(nxt, ast.If))
    first_if = next((n for n in hu.node.body if isinstance(n, ast.If)), None)
    ok = first_if is not None and norm(first_if.test) == 'not %s' % hu.params[0] and norm(first_if.body[0]) == 'return {}'
    ctx.ob(ok, hu, 'no target text means an empty object')
    ctx.floor(7)


@rule('C19.8')
def unreadable_target_file_is_a_usage_error(ctx):
    """reading the target file fails in two ways: the file cannot be opened / read (OSError) or its
    bytes are not text in the default encoding (UnicodeDecodeError, a ValueError).  Both are "an
    unreadable target" and must reach the user as a usage error, not as a traceback"""
    p = ctx.program
    u = ctx.unit('cli.mw_get_target')
    cfg = ctx.cfg(u)
    reads = [n for n in cfg.nodes if n.kind in ('stmt', 'with') and n.ast is not None and any(
        isinstance(c, ast.Call) and is_name(c.func, 'open') and c.args and is_name(c.args[0], 'target_file') for c in ast.walk(n.ast))]
    ctx.require(len(reads) >= 1, 'mw_get_target: the read of the target file not found')
    # every statement that opens or reads the file (``open(..).read()``, or ``with open(..) as f: f.read()``)
    nodes = set(reads)
    for n in reads:
        if n.kind == 'with':
            nodes.update(x for x in cfg.nodes if x.ast is not None and any(x.ast is y for y in ast.walk(n.ast)) and x.kind == 'stmt')
    for n in sorted(nodes, key=lambda x: x.lineno):
        hs = cfg.handlers_reached_from(n)
        for cls_ in ('OSError', 'UnicodeDecodeError'):
            cov = [h for h in hs if handler_covers(cfg, h, cls_)]
            ok = bool(cov)
            if ok:
                # ... and converted
                ok = all(any(isinstance(s, ast.Raise) and isinstance(s.exc, ast.Call) and is_name(s.exc.func, 'UsageError')
                             for s in ast.walk(h.ast)) for h in cov)
            ctx.ob(ok, u, 'a target file that cannot be read (%s) is reported as a usage error: %s' % (cls_, norm(n.ast)[:50]),
                   '' if ok else '%s escapes as a traceback' % cls_, node=n.ast)
    ctx.floor(2)


FS_PROBES = {'os.path.isfile', 'os.path.exists', 'os.path.isdir', 'os.path.islink', 'os.access', 'os.stat', 'os.lstat',
             'os.path.getsize', 'os.listdir', 'os.scandir', 'glob.glob', 'pathlib.Path'}


STDIN_STATE_PROBES = {'select.select', 'select.poll', 'os.fstat', 'os.get_blocking', 'os.set_blocking', 'fcntl.fcntl', 'fcntl.ioctl'}


@rule('C19.9')
def target_source_is_chosen_by_the_arguments(ctx):
    """where the target comes from is decided by the command line alone -- a target argument is
    data, --target-file names a file, '-' / no argument means standard input -- and whether a
    named file can be read is found out by opening it.  The CLI therefore does not probe the file
    system: an ``os.path.isfile`` test turns an argument that happens to name a file into that
    file's content, or refuses readable non-regular files (pipes, /dev/stdin)"""
    p = ctx.program
    n = 0
    # the three stages and every cli helper they call (a probe moved into a helper is still a probe)
    todo, units = ['cli.mw_get_target', 'cli.mw_handle_target', 'cli.glom_cli'], []
    while todo:
        q = todo.pop()
        if q in [x.qualname for x in units] or q not in p.units:
            continue
        u = ctx.unit(q)
        units.append(u)
        for c in calls_in(u):
            cq = callee_qual(p, u, c)
            if cq and cq.startswith('cli.') and cq in p.units:
                todo.append(cq)
    for u in units:
        for c in calls_in(u):
            n += 1
            cq = callee_qual(p, u, c)
            bad = cq in FS_PROBES or cq.startswith('os.path.') or cq.startswith('pathlib.')
            if bad:
                ctx.ob(False, u, 'the CLI does not probe the file system: %s' % norm(c)[:60],
                       'the source of the target would depend on what exists in the current directory', node=c)
            # ... nor the *state* of standard input: whether the producer of a pipe has written yet
            # is a race (select / poll / peek); the one documented test is "is it a terminal"
            timing = cq in STDIN_STATE_PROBES or cq.startswith('select.') or cq.startswith('selectors.') \
                or (isinstance(c.func, ast.Attribute) and c.func.attr in ('peek', 'readable', 'seekable', 'fileno')
                    and norm(c.func.value) in ('sys.stdin', 'sys.stdin.buffer'))
            if timing:
                ctx.ob(False, u, 'standard input is read when the arguments say so, whatever its momentary state: %s' % norm(c)[:60],
                       'a slow producer (`slow | glom`) is taken for "no input": the target silently becomes {}', node=c)
    u = ctx.unit('cli.mw_get_target')
    opens = [c for c in calls_in(u) if is_name(c.func, 'open')]
    ok = len(opens) == 2 and all(c.args and is_name(c.args[0]) and c.args[0].id in ('spec_file', 'target_file') for c in opens)
    ctx.ob(ok, u, 'only the files named by --spec-file / --target-file are opened: %s' % [norm(c) for c in opens])
    rebound = [x.id for x in u.own_nodes() if isinstance(x, ast.Name) and isinstance(x.ctx, ast.Store) and x.id in ('spec_file', 'target_file')]
    ctx.ob(not rebound, u, 'the file options are used as given', '' if not rebound else '%s rebound' % rebound)
    ctx.ob(n >= 10, u, 'calls screened: %d' % n)
    ctx.floor(3)


# the command line's flags: name -> (how the text is parsed, value when the flag is absent)
CLI_FLAGS = {
    '--target-file': ('str', None), '--target-format': ('str', 'json'),
    '--spec-file': ('str', None), '--spec-format': ('str', 'python'),
    '--indent': ('int', 2),
    '--scalar': (True, Ellipsis), '--debug': (True, Ellipsis), '--inspect': (True, Ellipsis),
}


@rule('C19.10')
def flags_are_parsed_by_builtins(ctx):
    """what reaches glom_cli for a flag is the builtin conversion of its text: --indent is an int
    (json.dumps treats a str indent as the indent text itself: "-1" would prefix every line with
    "-1"), the file / format flags are the text as typed, the switches are True when present; the
    value of an absent flag is the documented default"""
    from ..program import Builtin
    from ..util import kwarg
    p = ctx.program
    u = ctx.unit('cli.get_command')
    seen = {}
    for c in calls_in(u):
        if isinstance(c.func, ast.Attribute) and c.func.attr == 'add' and c.args and isinstance(c.args[0], ast.Constant) \
                and isinstance(c.args[0].value, str) and c.args[0].value.startswith('--'):
            seen[c.args[0].value] = c
    ctx.require(set(CLI_FLAGS) <= set(seen), 'get_command: flag declarations not found (%s)' % sorted(set(CLI_FLAGS) - set(seen)))
    for name, (parse, missing) in sorted(CLI_FLAGS.items()):
        c = seen[name]
        pa = kwarg(c, 'parse_as', 1)
        ms = kwarg(c, 'missing')
        if parse is True:
            ok = isinstance(pa, ast.Constant) and pa.value is True and ms is None
            want = 'a switch (parse_as=True)'
        else:
            ok = is_name(pa, parse) and isinstance(p.resolve_name(u, pa.id), Builtin) \
                and isinstance(ms, ast.Constant) and ms.value == missing and type(ms.value) is type(missing)
            want = 'parsed by builtin %s, %r when absent' % (parse, missing)
        ctx.ob(ok, u, '%s is %s: %s' % (name, want, norm(c)[:80]),
               '' if ok else 'the value handed to glom_cli is not %s' % want, node=c)
    ctx.floor(8)


@rule('C19.11')
def spec_text_becomes_the_spec(ctx):
    """the spec handed to glom() is what the spec text denotes in its format: for ``python`` a text
    that does not *start* with a literal's opening character is a path string (the first
    character decides, position 0), and the value of a ``python-full`` expression is the value
    its helper returns -- the compiled expression's result, not None"""
    from ..util import expand_locals
    p = ctx.program
    u = ctx.unit('cli.mw_get_target')
    R = mw_roles(ctx)
    st = R['spec_text']
    tests = [n for n in u.own_nodes() if isinstance(n, ast.Compare) and isinstance(n.left, ast.Subscript) and is_name(n.left.value, st)
             and isinstance(n.ops[0], (ast.In, ast.NotIn))]
    ctx.require(len(tests) == 1, 'mw_get_target: the literal-or-path test on the spec text not found')
    t = tests[0]
    idx0 = isinstance(t.left.slice, ast.Constant) and t.left.slice.value == 0
    opening = {e.value for e in t.comparators[0].elts if isinstance(e, ast.Constant)} if isinstance(t.comparators[0], (ast.Tuple, ast.List, ast.Set)) else set()
    ctx.ob(idx0, u, 'the first character of the spec text decides between literal and path: %s' % norm(t.left),
           '' if idx0 else 'a later character is looked at: "[T]" would be taken for a path string, "a[" for a literal', node=t)
    ok = opening == {'"', "'", '[', '{', '('}
    ctx.ob(ok, u, 'literal specs open with a quote, bracket, brace or parenthesis: %s' % sorted(opening))
    fu = ctx.unit('cli._eval_python_full_spec')
    fcfg = ctx.cfg(fu)
    rets = [r for r in fu.own_nodes() if isinstance(r, ast.Return)]
    vals = [expand_locals(fcfg, fcfg.node_of(r), r.value) if r.value is not None else None for r in rets]
    ok = bool(rets) and all(isinstance(v, ast.Call) and callee_qual(p, fu, v) == 'cli._compile_code' for v in vals)
    ctx.ob(ok, fu, 'a python-full spec is the value of the compiled expression: %s' % [norm(r) for r in rets],
           '' if ok else 'the evaluated spec is dropped: glom() would run with None (or something else) as the spec')
    calls = [c for c in calls_in(u) if callee_qual(p, u, c) == 'cli._eval_python_full_spec']
    ok = len(calls) == 1 and isinstance(stmt_of(calls[0]), ast.Assign) and is_name(stmt_of(calls[0]).targets[0], R['spec']) \
        and len(calls[0].args) == 1 and is_name(calls[0].args[0], st)
    ctx.ob(ok, u, 'and becomes the spec: %s' % [norm(stmt_of(c)) for c in calls])
    ctx.floor(4)
