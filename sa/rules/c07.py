"""C07 -- scope bindings are lexically scoped, chain forward, never outlive the call."""
import ast

from . import rule, info
from ..program import AnalysisError, src, norm, ClassInfo
from ..pattern import match, matches
from ..util import (exclusive, polarity, is_name, calls_in, callee_qual, deref, ancestors, evaluator_calls, stmt_of, parent)

info('C07',
     explanation='Static decision of: every frame write goes to a frame owned by the writing evaluation '
                 '(its scope parameter, the child it created, or the chained sibling it was handed), never '
                 'through UP / ROOT / .parents / maps[k>0] except the enumerated error bookkeeping; the '
                 'caller\'s scope mapping only flows into copying sinks; the per-call root frame and its '
                 'globals / path / error list are allocated inside glom(); Vars retains nothing; the '
                 'evaluator creates one child frame per sub-evaluation linked UP to its parent; chain_child '
                 'is applied exactly by tuple/Pipe steps, Switch values and match-dict values and every other '
                 'sub-evaluation receives the function\'s own frame; Ref binds before recursing; S(...)/A '
                 'pass the target through.',
     decided=['C07.1 writes go to the own frame', 'C07.2 caller scope copied', 'C07.3 per-call roots fresh',
              'C07.4 Vars does not retain', 'C07.5 child frame per evaluation', 'C07.6 who chains', 'C07.7 Ref',
              'C07.8 binders pass the target through'],
     not_decided=['the visibility relation itself (ChainMap semantics over the frame tree pinned down here)'])

INTERNAL_FRAME_WRITES = {
    # (unit, key) bookkeeping writes that legitimately address another frame's own map
    ('core._glom', 'core.LAST_CHILD_SCOPE'), ('core._glom', 'core.CHILD_ERRORS'), ('core._glom', 'core.CUR_ERROR'),
    ('core.chain_child', 'core.NO_PYFRAME'), ('core.chain_child', 'core.CHILD_ERRORS'),
    ('core.chain_child', 'core.MODE'),      # the recycler's mode reset demanded by C08.3
}


def scope_units(ctx):
    out = []
    for u in ctx.program.package_units():
        x = u
        names = set()
        while x is not None:
            names |= set(x.all_params)
            x = x.parent
        if 'scope' in names:
            out.append(u)
    return out


def _base_root(e):
    while isinstance(e, (ast.Subscript, ast.Attribute)):
        e = e.value
    return e


def frame_writes(ctx, u):
    """(stmt/call node, base expr, key expr or None, kind) for writes whose
    base is rooted at a scope variable"""
    out = []
    from ..util import scope_vars
    scope_names = scope_vars(ctx.program, u)
    for n in u.own_nodes():
        if isinstance(n, (ast.Assign, ast.AugAssign)):
            tg = n.targets if isinstance(n, ast.Assign) else [n.target]
            for t in tg:
                if isinstance(t, ast.Subscript) and is_name(_base_root(t.value)) and _base_root(t.value).id in scope_names:
                    out.append((n, t.value, t.slice, 'store'))
        elif isinstance(n, ast.Delete):
            for t in n.targets:
                if isinstance(t, ast.Subscript) and is_name(_base_root(t.value)) and _base_root(t.value).id in scope_names:
                    out.append((n, t.value, t.slice, 'del'))
        elif isinstance(n, ast.Call) and isinstance(n.func, ast.Attribute) and \
                n.func.attr in ('update', 'setdefault', 'pop', 'clear', 'popitem', 'append', 'extend') \
                and is_name(_base_root(n.func.value)) and _base_root(n.func.value).id in scope_names:
            out.append((n, n.func.value, n.args[0] if n.args and n.func.attr in ('setdefault', 'pop') else None, n.func.attr))
    return out


@rule('C07.1')
def own_frame_writes(ctx):
    p = ctx.program
    total = 0
    user_binding_sites = 0
    for u in scope_units(ctx):
        cfg = ctx.cfg(u)
        for n, base, key, kind in frame_writes(ctx, u):
            total += 1
            k = p.scope_key(u, key) if key is not None else None
            if isinstance(base, ast.Name):
                # a frame owned by this evaluation: the scope parameter, a new child, or the chained sibling
                node = cfg.node_containing(n)
                defs = cfg.reaching_defs(node, base.id) if node is not None else []
                owned = True
                why = []
                if not defs and base.id not in u.locals:
                    defs = []     # closure variable of the enclosing glomit: its scope parameter
                for dn, val in defs:
                    if isinstance(val, tuple) and val[0] == 'param':
                        continue
                    if isinstance(val, ast.Call) and isinstance(val.func, ast.Attribute) and val.func.attr == 'new_child':
                        continue
                    if isinstance(val, ast.Call) and callee_qual(p, u, val) == 'core.chain_child':
                        continue
                    if isinstance(val, ast.Subscript) and p.scope_key(u, val.slice) == 'core.LAST_CHILD_SCOPE' \
                            and u.qualname == 'core.chain_child':
                        continue
                    if isinstance(val, ast.Subscript) and isinstance(val.value, ast.Attribute) and val.value.attr == 'maps' \
                            and isinstance(val.slice, ast.Constant) and val.slice.value == 0 and u.qualname == 'core._glom':
                        continue     # pmap = parent.maps[0]
                    if isinstance(val, ast.Subscript) and p.scope_key(u, val.slice) == 'core.UP' and u.qualname == 'core._glom':
                        continue     # the NO_PYFRAME walk (error bookkeeping)
                    owned = False
                    why.append(norm(val) if isinstance(val, ast.AST) else str(val))
                ctx.ob(owned, u, 'frame write goes to a frame this evaluation owns: %s' % norm(n),
                       '' if owned else '%s may be %s' % (base.id, why), node=n)
                if owned and (k is None or k.startswith("'") or k.startswith('tuple(')) and kind in ('store', 'update'):
                    user_binding_sites += 1
            else:
                # through .maps[..] / [UP] / [ROOT] / .parents: only enumerated bookkeeping
                inner_key = None
                for x in ast.walk(base):
                    if isinstance(x, ast.Subscript):
                        kk = p.scope_key(u, x.slice)
                        if kk and kk.startswith('core.'):
                            inner_key = kk
                kk = k or inner_key
                ok = (u.qualname, kk) in INTERNAL_FRAME_WRITES
                ctx.ob(ok, u, 'a write addressing another frame is enumerated error bookkeeping: %s' % norm(n),
                       '' if ok else 'write through %s (key %s) is not in the permitted table' % (src(base), kk), node=n)
    ctx.require(total >= 25, 'only %d frame writes found' % total)
    if user_binding_sites < 5:
        raise AnalysisError('C07.1: only %d user-visible binding sites found (floor 5)' % user_binding_sites)
    # no write through the lookup-only views anywhere
    for u in scope_units(ctx):
        for n in u.own_nodes():
            if isinstance(n, ast.Attribute) and n.attr == 'parents':
                ctx.ob(False, u, 'no use of .parents views for writing: %s' % norm(n), node=n)
    # UP / ROOT are only read
    for u in p.package_units():
        for n in u.own_nodes():
            if isinstance(n, (ast.Assign, ast.AugAssign)):
                tg = n.targets if isinstance(n, ast.Assign) else [n.target]
                for t in tg:
                    if isinstance(t, ast.Subscript) and isinstance(t.value, ast.Subscript) \
                            and p.scope_key(u, t.value.slice) in ('core.UP', 'core.ROOT'):
                        ctx.ob(False, u, 'no binding is written into the parent / root frame: %s' % norm(n), node=n)
    ctx.floor(25)


@rule('C07.2')
def caller_scope_copied(ctx):
    p = ctx.program
    n = 0
    # glom(): kwargs.pop('scope', {})
    u = ctx.unit('core.glom')
    pops = [c for c in calls_in(u) if isinstance(c.func, ast.Attribute) and c.func.attr in ('pop', 'get') and c.args
            and isinstance(c.args[0], ast.Constant) and c.args[0].value == 'scope']
    ctx.require(len(pops) == 1, "glom(): kwargs.pop('scope', ...) not found")
    par = parent(pops[0])
    ok = isinstance(par, ast.Call) and isinstance(par.func, ast.Attribute) and par.func.attr == 'update' \
        and pops[0] in par.args
    ctx.ob(ok, u, "the caller's scope only flows into <root frame>.update(...): %s" % norm(par if ok else pops[0]), node=pops[0])
    if ok:
        cfg = ctx.cfg(u)
        recv = deref(cfg, cfg.node_containing(par), par.func.value)
        okr = isinstance(recv, ast.Call) and isinstance(recv.func, ast.Attribute) and recv.func.attr == 'new_child'
        ctx.ob(okr, u, 'the receiving mapping is the root frame created in this call: %s' % norm(recv), node=par)
    n += 1
    # Spec.glom
    u = ctx.unit('core.Spec.glom')
    cm = [c for c in calls_in(u) if callee_qual(p, u, c) == 'collections.ChainMap']
    ctx.require(len(cm) == 1, 'Spec.glom: ChainMap construction not found')
    cfg = ctx.cfg(u)
    a = cm[0].args[0] if cm[0].args else None
    d = deref(cfg, cfg.node_containing(cm[0]), a) if a is not None else None
    ok = isinstance(d, ast.Call) and is_name(d.func, 'dict')
    ctx.ob(ok, u, 'Spec.glom puts a copy (dict(self.scope)) under the ChainMap, not the mapping itself: %s' % (norm(d) if d is not None else None),
           node=cm[0])
    gets = [c for c in calls_in(u) if isinstance(c.func, ast.Attribute) and c.func.attr in ('get', 'pop') and c.args
            and isinstance(c.args[0], ast.Constant) and c.args[0].value == 'scope']
    for g in gets:
        par = parent(g)
        ok = isinstance(par, ast.Call) and isinstance(par.func, ast.Attribute) and par.func.attr == 'update'
        ctx.ob(ok, u, "the scope keyword only flows into .update(): %s" % norm(par if ok else g), node=g)
    # Spec.glomit: scope.update(self.scope)
    u = ctx.unit('core.Spec.glomit')
    uses = [x for x in u.own_nodes() if isinstance(x, ast.Attribute) and x.attr == 'scope' and is_name(x.value, u.params[0])]
    ctx.require(uses, 'Spec.glomit does not use self.scope')
    for x in uses:
        par = parent(x)
        ok = isinstance(par, ast.Call) and isinstance(par.func, ast.Attribute) and par.func.attr == 'update' \
            and is_name(par.func.value, u.params[2]) and x in par.args
        ctx.ob(ok, u, 'Spec(scope=...) is copied into the evaluation\'s own frame: %s' % norm(par), node=x)
    # Spec.__init__ keeps the mapping (read-only afterwards, see C06.2)
    # Glommer
    u = ctx.unit('core.Glommer.__init__')
    cm = [c for c in calls_in(u) if callee_qual(p, u, c) == 'collections.ChainMap']
    ok = len(cm) == 1 and cm[0].args and isinstance(cm[0].args[0], ast.Call) and is_name(cm[0].args[0].func, 'dict')
    ctx.ob(ok, u, 'Glommer freezes a copy of the scope it was given: %s' % [norm(c) for c in cm])
    u = ctx.unit('core.Glommer.glom')
    cs = [c for c in calls_in(u) if callee_qual(p, u, c) == 'core.glom']
    ok = len(cs) == 1 and any(k.arg == 'scope' and isinstance(k.value, ast.Attribute) and k.value.attr == 'scope' for k in cs[0].keywords)
    ctx.ob(ok, u, 'Glommer.glom passes its scope through glom(scope=...), which copies it: %s' % [norm(c) for c in cs])
    ctx.floor(7)


@rule('C07.3')
def per_call_roots(ctx):
    p = ctx.program
    u = ctx.unit('core.glom')
    roots = [c for c in calls_in(u) if isinstance(c.func, ast.Attribute) and c.func.attr == 'new_child']
    ctx.require(len(roots) == 1, 'glom(): root frame construction not found')
    r = roots[0]
    ok = p.global_qualname(u, r.func.value) == 'core._DEFAULT_SCOPE' and r.args and isinstance(r.args[0], ast.Dict)
    ctx.ob(ok, u, 'the root frame is a new child of the default scope built from a dict display: %s' % src(r, 60), node=r)
    if not ok:
        return
    d = r.args[0]
    seen = {}
    for k, v in zip(d.keys, d.values):
        seen[p.scope_key(u, k)] = v
    g = seen.get("'globals'")
    ok = isinstance(g, ast.Call) and callee_qual(p, u, g) == 'core.ScopeVars' and all(
        isinstance(a, ast.Dict) and not a.keys for a in g.args)
    ctx.ob(ok, u, "S.globals is a ScopeVars allocated in this call: %s" % (norm(g) if g is not None else None), node=g)
    ce = seen.get('core.CHILD_ERRORS')
    ctx.ob(isinstance(ce, ast.List) and not ce.elts, u, 'the root error list is allocated in this call', node=ce)
    pa = seen.get('core.Path')
    ok = isinstance(pa, ast.Call) and isinstance(pa.func, ast.Attribute) and pa.func.attr == 'pop' and len(pa.args) == 2 \
        and isinstance(pa.args[1], ast.List) and not pa.args[1].elts
    ctx.ob(ok, u, 'the path list defaults to a new list per call: %s' % (norm(pa) if pa is not None else None), node=pa)
    md = seen.get('core.MODE')
    ctx.ob(md is not None and p.global_qualname(u, md) == 'core.AUTO', u, 'the root mode is AUTO', node=md)
    mm = seen.get('core.MIN_MODE')
    ctx.ob(isinstance(mm, ast.Constant) and mm.value is None, u, 'no argument mode is in force at the root', node=mm)
    # UP / ROOT / T bound on the root itself
    cfg = ctx.cfg(u)
    rootvar = None
    st = stmt_of(r)
    if isinstance(st, ast.Assign) and is_name(st.targets[0]):
        rootvar = st.targets[0].id
    for key, want in (('core.UP', rootvar), ('core.ROOT', rootvar), ('core.T', u.params[0])):
        ss = [n for n in u.own_nodes() if isinstance(n, ast.Assign) and isinstance(n.targets[0], ast.Subscript)
              and is_name(n.targets[0].value, rootvar) and p.scope_key(u, n.targets[0].slice) == key]
        ctx.ob(len(ss) == 1 and is_name(ss[0].value, want), u, 'root[%s] is %s: %s' % (key, want, [norm(s) for s in ss]))
    # the evaluator is started on the root frame with the caller's target and spec
    cs = [c for c in calls_in(u) if callee_qual(p, u, c) == 'core._glom']
    ok = len(cs) == 1 and [a.id if isinstance(a, ast.Name) else None for a in cs[0].args] == [u.params[0], u.params[1], rootvar]
    ctx.ob(ok, u, 'evaluation starts at the root frame: %s' % [norm(c) for c in cs])
    # the default scope (shared by every call, copied into every Glommer) holds what is meant to be
    # process-wide and nothing per call: the evaluator and the default registry
    mod = p.modules['glom.core']
    keys = []
    for st in mod.tree.body:
        for c in ast.walk(st):
            if isinstance(c, ast.Call) and isinstance(c.func, ast.Attribute) and c.func.attr in ('update', 'setdefault', '__setitem__') \
                    and is_name(c.func.value, '_DEFAULT_SCOPE'):
                for a in c.args:
                    if isinstance(a, ast.Dict):
                        keys += [norm(k) for k in a.keys if k is not None]
                    else:
                        keys.append(norm(a))
            if isinstance(st, ast.Assign) and c is st and any(isinstance(t, ast.Subscript) and is_name(t.value, '_DEFAULT_SCOPE') for t in st.targets):
                keys += [norm(t.slice) for t in st.targets if isinstance(t, ast.Subscript)]
            if isinstance(st, ast.Assign) and c is st and any(is_name(t, '_DEFAULT_SCOPE') for t in st.targets):
                for d in ast.walk(st.value):
                    if isinstance(d, ast.Dict):
                        keys += [norm(k) for k in d.keys if k is not None]
    extra = sorted(set(keys) - {'glom', 'TargetRegistry'})
    ctx.ob(not extra and {'glom', 'TargetRegistry'} <= set(keys), 'glom/core.py',
           'the process-wide default scope holds the evaluator and the default registry only: %s' % sorted(set(keys)),
           '' if not extra else '%s in the default scope is shared by every call (and copied by reference into every Glommer)' % extra)
    ctx.floor(9)


@rule('C07.4')
def vars_no_retain(ctx):
    p = ctx.program
    u = ctx.unit('core.Vars.glomit')
    r = [n for n in u.own_nodes() if isinstance(n, ast.Return)]
    ok = len(r) == 1 and isinstance(r[0].value, ast.Call) and callee_qual(p, u, r[0].value) == 'core.ScopeVars'
    ctx.ob(ok, u, 'Vars yields a new ScopeVars on every evaluation: %s' % [norm(x) for x in r])
    su = ctx.unit('core.ScopeVars.__init__')
    base, defaults = su.params[1], su.params[2]
    if ok:
        # ... built from its own base and defaults, each in its place (the defaults are applied on
        # top of the base mapping: swapped, an explicit default would lose against the base)
        c = r[0].value
        got = {}
        for i, a in enumerate(c.args):
            if i + 1 < len(su.params):
                got[su.params[i + 1]] = a
        for k in c.keywords:
            got[k.arg] = k.value
        okp = all(isinstance(got.get(nm), ast.Attribute) and is_name(got[nm].value, u.params[0]) and got[nm].attr == nm
                  for nm in (base, defaults))
        ctx.ob(okp, u, 'the namespace is built from (self.%s, self.%s) in that order: %s' % (base, defaults, norm(c)),
               '' if okp else 'base and defaults are exchanged or replaced')
        # the update order inside the constructor: base first, then the defaults on top
        stores = [n for n in su.node.body if isinstance(n, (ast.Assign, ast.Expr))]
        first = next((n for n in stores if base in {x.id for x in ast.walk(n) if isinstance(x, ast.Name)}), None)
        second = next((n for n in stores if defaults in {x.id for x in ast.walk(n) if isinstance(x, ast.Name)}), None)
        oko = first is not None and second is not None and su.node.body.index(first) < su.node.body.index(second)
        ctx.ob(oko, su, 'the defaults are applied after the base mapping')
    for pn in (base, defaults):
        uses = [x for x in su.own_nodes() if isinstance(x, ast.Name) and x.id == pn and isinstance(x.ctx, ast.Load)]
        ctx.require(uses, 'ScopeVars.__init__ does not use %s' % pn)
        for x in uses:
            par = parent(x)
            ok = isinstance(par, ast.Call) and ((is_name(par.func, 'dict') and x in par.args) or
                                                 (isinstance(par.func, ast.Attribute) and par.func.attr == 'update' and x in par.args))
            ctx.ob(ok, su, 'ScopeVars copies %s (dict()/update), it does not keep the mapping: %s' % (pn, norm(par)), node=x)
    ctx.floor(3)


@rule('C07.5')
def child_frame(ctx):
    p = ctx.program
    u = ctx.unit('core._glom')
    cfg = ctx.cfg(u)
    childs = [n for n in u.own_nodes() if isinstance(n, ast.Assign) and isinstance(n.value, ast.Call)
              and isinstance(n.value.func, ast.Attribute) and n.value.func.attr == 'new_child']
    ctx.require(len(childs) == 1, '_glom: child frame not found')
    c = childs[0].value
    recv = deref(cfg, cfg.node_of(childs[0]), c.func.value)       # ``parent = scope`` names the frame given
    ctx.ob(is_name(recv, u.params[2]) and not ancestors_in_loop(childs[0]), u,
           'every evaluation creates one child of the frame it was given: %s' % src(childs[0], 60), node=childs[0])
    d = c.args[0] if c.args and isinstance(c.args[0], ast.Dict) else None
    ctx.require(d is not None, '_glom: frame dict display not found')
    keys = {p.scope_key(u, k): v for k, v in zip(d.keys, d.values)}
    up = keys.get('core.UP')
    node = cfg.node_of(childs[0])
    upd = deref(cfg, node, up) if up is not None else None
    ctx.ob(is_name(upd, u.params[2]), u, 'the child links UP to the frame it was created from: %s' % (norm(up) if up is not None else None), node=up)
    # the frame display is evaluated per call (a display, not a shared object)
    ctx.ob(isinstance(d, ast.Dict), u, 'the frame map is a fresh dict display')
    ctx.floor(3)


def ancestors_in_loop(n):
    return [a for a in ancestors(n) if isinstance(a, (ast.For, ast.While))]


CHAINERS = {'core._handle_tuple', 'matching.Switch.glomit', 'matching._handle_dict'}


@rule('C07.6')
def who_chains(ctx):
    p = ctx.program
    sites = []
    for u in p.package_units():
        for c in calls_in(u):
            if callee_qual(p, u, c) == 'core.chain_child':
                sites.append((u, c))
    got = {u.qualname for u, _ in sites}
    ctx.ob(got == CHAINERS, 'package', 'chain_child is applied exactly by tuple/Pipe steps, Switch values and match-dict values',
           'call sites in: %s' % sorted(got))
    for u, c in sites:
        ok = len(c.args) == 1 and is_name(c.args[0]) and c.args[0].id in ('scope',)
        ctx.ob(ok, u, 'the chained frame is derived from the function\'s own frame: %s' % norm(c), node=c)
    # Switch / match-dict: the chained frame goes to the *value* spec only
    u = ctx.unit('matching.Switch.glomit')
    for c in evaluator_calls(p, u):
        chained = isinstance(c.args[2], ast.Call) and callee_qual(p, u, c.args[2]) == 'core.chain_child'
        is_val = is_name(c.args[1], 'valspec') or (isinstance(c.args[1], ast.Name) and 'val' in c.args[1].id)
        ctx.ob(chained == is_val, u, 'Switch chains the key\'s bindings into its own value spec only: %s' % norm(c), node=c)
    u = ctx.unit('matching._handle_dict')
    for c in evaluator_calls(p, u):
        chained = isinstance(c.args[2], ast.Call) and callee_qual(p, u, c.args[2]) == 'core.chain_child'
        is_val = isinstance(c.args[1], ast.Subscript)
        ctx.ob(chained == is_val, u, 'a match-dict key chains its bindings into its own value spec only: %s' % norm(c), node=c)
    # every other evaluator call passes the function's own frame unchanged
    n_plain = 0
    for u in p.package_units():
        if u.qualname in CHAINERS or u.module.short in ('cli',):
            continue
        top = u
        while top.parent is not None:
            top = top.parent
        for c in evaluator_calls(p, u):
            if len(c.args) < 3:
                continue
            n_plain += 1
            a = c.args[2]
            ok = isinstance(a, ast.Name)
            if ok:
                owner = u
                while owner is not None and a.id not in owner.locals:
                    owner = owner.parent
                ok = owner is not None and a.id in owner.all_params and not _rebound(ctx, owner, a.id)
            ctx.ob(ok, u, 'a non-chaining sub-evaluation receives the function\'s own frame: %s' % norm(c),
                   '' if ok else 'the frame argument is not the unmodified scope parameter', node=c)
    if n_plain < 30:
        raise AnalysisError('C07.6: only %d non-chaining evaluator calls found (floor 30)' % n_plain)
    # _handle_tuple: the chained frame becomes the frame of the next step
    u = ctx.unit('core._handle_tuple')
    cfg = ctx.cfg(u)
    ev = evaluator_calls(p, u)[0]
    node = cfg.node_containing(ev)
    sc = ev.args[2]
    defs = cfg.reaching_defs(node, sc.id) if isinstance(sc, ast.Name) else []
    ok = bool(defs) and all(isinstance(v, ast.Call) and callee_qual(p, u, v) == 'core.chain_child' for _, v in defs)
    ctx.ob(ok, u, 'each tuple step runs in the frame chained from the previous step: %s' % norm(ev), node=ev)
    ctx.floor(36)


def _rebound(ctx, unit, name):
    cfg = ctx.cfg(unit)
    for n in cfg.nodes:
        for nm, _ in cfg.defs_at(n):
            if nm == name and n is not cfg.entry:
                return True
    return False


@rule('C07.7')
def ref(ctx):
    p = ctx.program
    u = ctx.unit('core.Ref.glomit')
    cfg = ctx.cfg(u)
    scope = u.params[2]
    stores = [n for n in u.own_nodes() if isinstance(n, ast.Assign) and isinstance(n.targets[0], ast.Subscript)
              and is_name(n.targets[0].value, scope)]
    ev = evaluator_calls(p, u)
    other = [c for c in calls_in(u) if isinstance(c.func, ast.Attribute) and is_name(c.func.value, scope)
             and c.func.attr in ('setdefault', 'update', 'get', 'pop')]
    ctx.ob(len(stores) == 1 and not [c for c in other if c.func.attr in ('setdefault', 'update', 'pop')], u,
           'Ref(name, spec) binds by an unconditional store into its own frame: %s' % [norm(s_) for s_ in stores] ,
           '' if len(stores) == 1 else 'binding through %s: a conditional or searching write does not shadow an outer '
           'binding of the same name (ChainMap.setdefault looks through every enclosing frame)' % [norm(c) for c in other])
    if len(ev) != 1 or len(stores) != 1:
        return
    st = stores[0]
    key = deref(cfg, cfg.node_of(st), st.targets[0].slice)
    ok = isinstance(key, ast.Tuple) and len(key.elts) == 2 and p.global_qualname(u, key.elts[0]) == 'core.Ref' \
        and isinstance(key.elts[1], ast.Attribute) and key.elts[1].attr == 'name'
    ctx.ob(ok, u, 'the binding key is (Ref, name): %s' % norm(key), node=st)
    en = cfg.node_containing(ev[0])
    sn = cfg.node_of(st)
    # on the defining path the store precedes the evaluation
    pth = cfg.find_path(cfg.entry, {en}, avoid={sn}, labels=lambda l: l != 'exc')
    reads = [n for n in u.own_nodes() if isinstance(n, ast.Assign) and isinstance(n.value, ast.Subscript)
             and is_name(n.value.value, scope)]
    ok = len(reads) == 1
    if ok and pth is not None:
        # the only path avoiding the store is the lookup path
        rn = cfg.node_of(reads[0])
        ok = any(n is rn for n, _ in pth)
    ctx.ob(ok, u, 'Ref(name, spec) binds in its own frame before evaluating; Ref(name) looks the binding up',
           'paths to the evaluation: store or lookup')
    if reads:
        k2 = deref(cfg, cfg.node_of(reads[0]), reads[0].value.slice)
        ctx.ob(norm(k2) == norm(key), u, 'lookup and binding use the same key: %s' % norm(k2))
    sub = ev[0].args[1]
    ctx.ob(is_name(sub) and is_name(ev[0].args[0], u.params[1]) and is_name(ev[0].args[2], scope), u,
           'the referenced spec is evaluated on the current target in this frame: %s' % norm(ev[0]))
    ctx.ob(is_name(st.value, sub.id if isinstance(sub, ast.Name) else None), u, 'the bound value is the spec that is evaluated: %s' % norm(st))
    ctx.floor(5)


@rule('C07.8')
def binders_pass_through(ctx):
    p = ctx.program
    from .c01 import model
    m, _w = model(ctx)
    root = m.root_var
    # S(k=spec): scope.update({k: arg_val(target, v, scope)...}); return target
    u = ctx.unit('core._t_eval')
    cfg = ctx.cfg(u)
    target, scope = u.params[0], u.params[2]
    ups = [c for c in calls_in(u) if isinstance(c.func, ast.Attribute) and c.func.attr == 'update' and is_name(c.func.value, scope)]
    ctx.ob(len(ups) == 1, u, 'S(a=.., b=..) evaluates all its keyword specs before binding any of them (one scope.update of a '
           'comprehension): a later keyword never sees an earlier one of the same call',
           '' if len(ups) == 1 else 'found %d scope.update(...) calls' % len(ups))
    if len(ups) != 1:
        return
    up = ups[0]
    a = up.args[0] if up.args else None
    ok = isinstance(a, ast.DictComp) and isinstance(a.value, ast.Call) and callee_qual(p, u, a.value) == 'core.arg_val' \
        and is_name(a.value.args[0], target) and is_name(a.value.args[2], scope) and is_name(a.key)
    ctx.ob(ok, u, 'S(name=spec) binds name -> value of spec on the current target, in this frame: %s' % norm(up), node=up)
    un = cfg.node_containing(up)
    nxt = [s for s, lab in un.succ if lab == 'next']
    ok = len(nxt) == 1 and isinstance(nxt[0].ast, ast.Return) and is_name(nxt[0].ast.value, target)
    ctx.ob(ok, u, 'S(...) passes the target through: %s' % (norm(nxt[0].ast) if nxt else None))
    g = [x for x in ancestors(up) if isinstance(x, ast.If)]
    ok = bool(g) and ('%s is S' % root) in norm(g[0].test) and "== '('" in norm(g[0].test)
    ctx.ob(ok, u, 'the binding form applies to S(...) as the first step only: %s' % (norm(g[0].test) if g else None))
    # A: assignment then return target; on the scope itself always setitem
    asg = [c for c in calls_in(u) if callee_qual(p, u, c) == 'core._assign_op']
    ctx.require(len(asg) == 1, '_t_eval: A-root assignment not found')
    kw = {k.arg: k.value for k in asg[0].keywords}
    ok = is_name(kw.get('val'), target) and is_name(kw.get('scope'), scope)
    ctx.ob(ok, u, 'A assigns the current target: %s' % norm(asg[0]), node=asg[0])
    an = cfg.node_containing(asg[0])
    nxt = [s for s, lab in an.succ if lab == 'next']
    ok = len(nxt) == 1 and isinstance(nxt[0].ast, ast.Return) and is_name(nxt[0].ast.value, target)
    ctx.ob(ok, u, 'A passes the target through: %s' % (norm(nxt[0].ast) if nxt else None))
    ok = False
    for t in cfg.nodes:
        if t.kind == 'test':
            pol = polarity(t.ast, '%s is A' % root)
            if pol and cfg.dominates(t, an) and an in exclusive(cfg, t, pol):
                ok = True
    ctx.ob(ok, u, 'assignment happens exactly for root A')
    forced = [n for n in u.own_nodes() if isinstance(n, ast.If) and isinstance(n.test, ast.Compare)
              and isinstance(n.test.ops[0], ast.Is) and is_name(n.test.comparators[0], scope)]
    ok = len(forced) == 1 and len(forced[0].body) == 1 and isinstance(forced[0].body[0], ast.Assign) \
        and isinstance(forced[0].body[0].value, ast.Constant) and forced[0].body[0].value.value == '['
    ctx.ob(ok, u, 'assigning directly on the scope is always a key binding in this frame: %s' % [norm(f) for f in forced])
    # Let
    lu = ctx.unit('core.Let.glomit')
    r = [n for n in lu.own_nodes() if isinstance(n, ast.Return)]
    ctx.ob(len(r) == 1 and is_name(r[0].value, lu.params[1]), lu, 'Let passes the target through')
    # Regex binds its named groups in its own frame
    ru = ctx.unit('matching.Regex.glomit')
    ups = [c for c in calls_in(ru) if isinstance(c.func, ast.Attribute) and c.func.attr == 'update' and is_name(c.func.value, ru.params[2])]
    ctx.ob(len(ups) == 1, ru, 'Regex binds named groups in its own frame: %s' % [norm(c) for c in ups])
    # Pipe: the steps are evaluated as they were given -- a nested Pipe stays one step with its own
    # frame, so names it binds end with it
    pu = ctx.unit('core.Pipe.glomit')
    pr = [n for n in pu.own_nodes() if isinstance(n, ast.Return)]
    okp = len(pr) == 1 and isinstance(pr[0].value, ast.Call) and callee_qual(p, pu, pr[0].value) == 'core._handle_tuple' \
        and len(pr[0].value.args) == 3 and is_name(pr[0].value.args[0], pu.params[1]) \
        and matches(pr[0].value.args[1], '%s.steps' % pu.params[0]) and is_name(pr[0].value.args[2], pu.params[2])
    ctx.ob(okp, pu, 'Pipe evaluates its own steps unchanged as one chain: %s' % [norm(x) for x in pr],
           '' if okp else 'the steps handed to the chain evaluator are not self.steps itself (nested chains would lose their frame)')
    ctx.floor(9)


@rule('C07.14')
def nested_evaluation_carries_scope(ctx):
    """a spec that hands a bound ``Spec(x).glom`` to library code (First's key function) starts a
    nested top-level evaluation; the enclosing scope reaches it only through the scope= argument,
    so the callable is always built as partial(Spec(x).glom, scope=S) evaluated per run -- a bare
    bound method would run the key spec in a fresh scope (S.name / S.globals unreadable)"""
    p = ctx.program
    n = 0
    for u in p.package_units():
        for a in u.own_nodes():
            if not (isinstance(a, ast.Attribute) and a.attr == 'glom' and isinstance(a.value, ast.Call)
                    and callee_qual(p, u, a.value) == 'core.Spec'):
                continue
            n += 1
            par = parent(a)
            if isinstance(par, ast.Call) and par.func is a:
                ok = any(k.arg in ('scope', None) for k in par.keywords)
                ctx.ob(ok, u, 'a nested Spec(..).glom(..) call passes the scope on: %s' % norm(par)[:80], node=a)
                continue
            ok = False
            for anc in ancestors(a):
                if isinstance(anc, ast.Call) and callee_qual(p, u, anc) == 'core.Call' and anc.args and \
                        p.global_qualname(u, anc.args[0]) in ('functools.partial', 'partial'):
                    kw = [k.value for k in anc.keywords if k.arg == 'kwargs'] + list(anc.args[2:3])
                    for d in kw:
                        if isinstance(d, ast.Dict):
                            for k, v in zip(d.keys, d.values):
                                if isinstance(k, ast.Constant) and k.value == 'scope' and p.global_qualname(u, v) == 'core.S':
                                    ok = True
            ctx.ob(ok, u, 'a bound Spec(..).glom used as a callable is wrapped in partial(.., scope=S), built per evaluation: %s' % norm(a)[:60],
                   '' if ok else 'the key spec runs in a fresh scope: S.<name>, S.globals and Vars of the enclosing call are invisible', node=a)
    ctx.require(n >= 1, 'no nested Spec(..).glom reference found (First.__init__)')
    ctx.floor(1)


@rule('C07.17')
def scope_lookup_shortcut_takes_names_only(ctx):
    """the first step of an S / A expression is looked up in the scope by ``_s_first_magic`` with
    the step's argument *as recorded*, bypassing the argument evaluation every other step gets.
    That is sound only for steps whose recorded argument is a name by construction (attribute
    access, a Path segment); a subscript step records an arbitrary operand -- S[T['name']] --
    which must be evaluated first"""
    from .c01 import model
    from .c02 import producers
    p = ctx.program
    m, w = model(ctx)
    u = m.unit
    cfg = m.cfg
    sm = [c for c in calls_in(u) if callee_qual(p, u, c) == 'core._s_first_magic']
    ctx.require(len(sm) == 1, '_t_eval: the scope lookup of the first step not found (%d)' % len(sm))
    node = cfg.node_containing(sm[0])
    raw = set()
    for t in cfg.nodes:
        if t.kind != 'test' or not (node in exclusive(cfg, t, 'true') or node in exclusive(cfg, t, 'false')):
            continue
        for x in ast.walk(t.ast):
            if isinstance(x, ast.Compare) and isinstance(x.left, ast.Subscript) and is_name(x.left.value, m.ops_var):
                for c in x.comparators:
                    for k in ast.walk(c):
                        if isinstance(k, ast.Constant) and isinstance(k.value, str):
                            raw.add(k.value)
    ctx.require(raw, '_t_eval: the op codes routed to the scope lookup not found')
    # op codes whose producer records a caller-supplied operand of any type
    arbitrary = {}
    for pu, code, call in producers(ctx):
        if pu.name in ('__getattr__', '__') or pu.qualname == 'core.Path.__init__':
            continue
        a = call.args[w.op_index + 1] if len(call.args) > w.op_index + 1 else None
        if a is not None and not (isinstance(a, ast.Constant)):
            arbitrary.setdefault(code, pu.qualname)
    bad = sorted(raw & set(arbitrary))
    ctx.ob(not bad, u, 'only name-carrying steps take the unevaluated scope lookup: %s' % sorted(raw),
           '' if not bad else '%s records an arbitrary operand (%s): S[<spec>] is looked up by the spec object itself' % (bad, [arbitrary[b] for b in bad]),
           node=sm[0])
    ctx.floor(1)
