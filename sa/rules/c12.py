"""C12 -- delete removes exactly the addressed element, or nothing."""
import ast

from . import rule, info
from ..program import AnalysisError, src, norm, ClassInfo
from ..tables import MISS
from ..util import (locals_from_attrs, is_name, calls_in, callee_qual, deref, ancestors, evaluator_calls, stmt_of, parent,
                    handler_outcomes, completes_normally, handler_covers, in_handler_of, raised_class, is_subclass,
                    cls_name, class_names_of_handler)
from .common import option_usage
from ..pattern import match, matches

info('C12',
     explanation='Static decision of: every deletion primitive of Delete._del_one (del dest[arg], delattr, the '
                 'registered delete handler) sits under handlers that cover the miss classes of that primitive, '
                 'and each such handler consults ignore_missing and otherwise raises PathDeleteError(<caught>, '
                 'path, arg); a PathAccessError from fetching the parent is re-raised unless ignore_missing and '
                 'the deletion happens only on the success (else) path; the same object is returned; default '
                 'delete handlers.',
     decided=['C12.1 missing-element handling per addressing style', 'C12.2 parent-miss path', 'C12.3 options honoured',
              'C12.4 same object back', 'C12.5 default delete handlers'],
     not_decided=['effect equality with Python del for arbitrary containers'])


@rule('C12.1')
def miss_classes(ctx):
    p = ctx.program
    u = ctx.unit('mutation.Delete._del_one')
    cfg = ctx.cfg(u)
    dest, arg = u.params[1], u.params[3] if len(u.params) > 3 else None
    prims = []
    for n in cfg.nodes:
        if n.kind != 'stmt':
            continue
        st = n.ast
        if isinstance(st, ast.Delete) and isinstance(st.targets[0], ast.Subscript) and is_name(st.targets[0].value, dest):
            prims.append(('delitem', n, st))
        for c in [x for x in ast.walk(st) if isinstance(x, ast.Call)]:
            q = callee_qual(p, u, c)
            if q == 'builtins.delattr' and c.args and is_name(c.args[0], dest):
                prims.append(('delattr', n, c))
            elif q.startswith('local:') and c.args and is_name(c.args[0], dest):
                d = deref(cfg, n, c.func)
                if isinstance(d, ast.Call) and isinstance(d.func, ast.Attribute) and d.func.attr == 'get_handler' \
                        and isinstance(d.args[0], ast.Constant) and d.args[0].value == 'delete':
                    prims.append(('delete-handler', n, c))
    kinds = {k for k, _, _ in prims}
    gh = [c for c in calls_in(u) if isinstance(c.func, ast.Attribute) and c.func.attr == 'get_handler' and c.args
          and isinstance(c.args[0], ast.Constant) and c.args[0].value == 'delete']
    per_dest = bool(gh) and all(len(c.args) > 1 and is_name(c.args[1], dest) for c in gh) and 'delete-handler' in kinds
    ctx.ob(per_dest, u, "the 'delete' handler is looked up for the very object being deleted from, at each deletion: %s" % [norm(c) for c in gh],
           '' if per_dest else 'a handler chosen once (or kept on the spec) is applied to destinations of other types')
    ctx.require(kinds >= {'delitem', 'delattr'}, 'Delete._del_one: deletion primitives found: %s' % sorted(kinds))
    seen = {}
    for kind, node, expr in prims:
        hs = cfg.handlers_reached_from(node)
        for miss in MISS[kind]:
            cov = [h for h in hs if handler_covers(cfg, h, miss)]
            ctx.ob(bool(cov), u, '%s `%s`: a missing element (%s) is caught' % (kind, norm(expr), miss),
                   '' if cov else 'handlers reached: %s -- %s escapes as a raw exception, and ignore_missing does not apply'
                   % ([class_names_of_handler(cfg, h) for h in hs], miss), node=expr)
            for h in cov:
                seen.setdefault(h, kind)
    for h, kind in seen.items():
        reads = [x for x in ast.walk(h.ast) if isinstance(x, ast.Attribute) and x.attr == 'ignore_missing']
        ctx.ob(len(reads) == 1, u, '%s miss handler consults ignore_missing' % kind, node=h.ast)
        out = handler_outcomes(cfg, h)
        ok = 'normal' in out and any(k.startswith('raise-new') for k in out) and \
            all(k == 'normal' or k.startswith('raise-new') for k in out)
        ctx.ob(ok, u, '%s miss handler either ignores or raises' % kind, 'outcomes %s' % sorted(out), node=h.ast)
        rs = [r for r in ast.walk(h.ast) if isinstance(r, ast.Raise)]
        for r in rs:
            ok = is_subclass(raised_class(p, u, r), 'PathDeleteError') and isinstance(r.exc, ast.Call) \
                and len(r.exc.args) == 3 and is_name(r.exc.args[0], h.ast.name) \
                and isinstance(r.exc.args[1], ast.Attribute) and r.exc.args[1].attr == 'path' and is_name(r.exc.args[2], 'arg')
            ctx.ob(ok, u, 'a miss raises PathDeleteError(<caught>, path, arg): %s' % norm(r), node=r)
            g = [a for a in ancestors(r) if isinstance(a, ast.If)]
            ok = bool(g) and norm(g[0].test) == 'not self.ignore_missing' and r in g[0].body
            ctx.ob(ok, u, 'the error is raised exactly when ignore_missing is off', node=r)
    # dispatch covers the three final step kinds and the primitive matches the kind
    by = {}
    for n in ast.walk(u.node):
        if isinstance(n, ast.If) and isinstance(n.test, ast.Compare) and is_name(n.test.left, 'op') \
                and isinstance(n.test.comparators[0], ast.Constant):
            by[n.test.comparators[0].value] = n
    ctx.ob(set(by) == {'[', '.', 'P'}, u, 'deletion dispatches on the three final step kinds: %s' % sorted(by))
    pk = {'[': 'delitem', '.': 'delattr', 'P': 'delete-handler'}
    for code, b in by.items():
        if pk.get(code) not in kinds:
            continue
        inside = [k for k, n, e in prims if any(e is x or (isinstance(e, ast.stmt) and e is x) for s in b.body for x in ast.walk(s))]
        ctx.ob(inside == [pk.get(code)], u, '%r deletes with %s' % (code, pk.get(code)), 'found %s' % inside)
    # the primitive's operands
    for kind, node, expr in prims:
        if kind == 'delitem':
            ctx.ob(is_name(expr.targets[0].slice, 'arg'), u, 'item deletion addresses dest[arg]: %s' % norm(expr))
        else:
            ctx.ob([a.id if isinstance(a, ast.Name) else None for a in expr.args] == [dest, 'arg'], u,
                   '%s is applied to (dest, arg): %s' % (kind, norm(expr)))
    ctx.floor(24)


@rule('C12.2')
def parent_miss(ctx):
    p = ctx.program
    u = ctx.unit('mutation.Delete.glomit')
    cfg = ctx.cfg(u)
    evs = evaluator_calls(p, u)
    ctx.require(len(evs) == 1, 'Delete.glomit: expected one parent fetch')
    en = cfg.node_containing(evs[0])
    hs = cfg.handlers_reached_from(en)
    ok = len(hs) == 1 and p.global_qualname(u, hs[0].ast.type) == 'core.PathAccessError'
    ctx.ob(ok, u, 'only a PathAccessError of the parent fetch is special-cased: except %s'
           % [src(h.ast.type) for h in hs if h.ast.type is not None])
    for h in hs:
        out = handler_outcomes(cfg, h)
        ctx.ob(set(out) <= {'raise-bare', 'raise-var', 'normal', 'return'} and ('normal' in out or 'return' in out)
               and len(out) == 2, u,
               'a missing parent re-raises unless ignored', 'outcomes %s' % sorted(out))
        # an ignored miss hands back the target untouched
        for r in [x for x in ast.walk(h.ast) if isinstance(x, ast.Return)]:
            ctx.ob(is_name(r.value, u.params[1]), u, 'an ignored miss returns the target: %s' % norm(r), node=r)
        for r in [x for x in ast.walk(h.ast) if isinstance(x, ast.Raise)]:
            g = [a for a in ancestors(r) if isinstance(a, ast.If)]
            ok = bool(g) and norm(g[0].test) == 'not self.ignore_missing'
            ctx.ob(ok and (r.exc is None or is_name(r.exc, h.ast.name)), u, 'the access error propagates unchanged exactly when ignore_missing is off')
    tr = [n for n in ast.walk(u.node) if isinstance(n, ast.Try)]
    ctx.require(len(tr) == 1, 'Delete.glomit: try not found')
    t = tr[0]
    dels = [c for c in calls_in(u) if callee_qual(p, u, c) == 'mutation._apply_for_each']
    ok = len(dels) == 1
    if ok:
        dn = cfg.node_containing(dels[0])
        # reached from the fetch's normal completion, never from the miss handler, and not guarded by it
        ok = all(cfg.find_path(h, {dn}) is None for h in hs) and cfg.dominates(en, dn) \
            and not any(h in cfg.handlers_reached_from(dn) for h in hs)
    ctx.ob(ok, u, 'the deletion runs only when the parent was fetched, outside the fetch\'s handler: %s' % [norm(d) for d in dels])
    roles = {}
    roles.update(locals_from_attrs(u, ('op', 'arg', 'path')))
    from .c11 import assign_roles
    ar = assign_roles(ctx, u)
    split = {'dt': ar['dest_target'], 'dp': ar['dest_path']} if 'root_split' in ar else None
    if dels:
        d = dels[0]
        lam = d.args[0]
        ok = isinstance(lam, ast.Lambda) and isinstance(lam.body, ast.Call) and isinstance(lam.body.func, ast.Attribute) \
            and lam.body.func.attr == '_del_one' and [a.id if isinstance(a, ast.Name) else None for a in lam.body.args] == \
            [lam.args.args[0].arg, roles.get('op'), roles.get('arg'), u.params[2]]
        ctx.ob(ok, u, 'each match is deleted with (dest, op, arg, scope): %s' % norm(lam))
        st = stmt_of(evs[0])
        dv = st.targets[0].id if isinstance(st, ast.Assign) and is_name(st.targets[0]) else None
        ctx.ob(is_name(d.args[2], dv) and is_name(d.args[1], roles.get('path')), u, 'the fetched parent(s) are what is deleted from')
    ctx.ob(split is not None and is_name(evs[0].args[0], split['dt']) and is_name(evs[0].args[1], split['dp']), u,
           'the parent is fetched through the parent path')
    ctx.ob(split is not None, u, 'T-rooted destinations start at the target, S-rooted ones at the enclosing scope')
    ctx.floor(8)


@rule('C12.3')
def options(ctx):
    option_usage(ctx, ['mutation.Delete'])
    p = ctx.program
    n = 0
    for q in ('mutation.Delete._del_one', 'mutation.Delete.glomit'):
        u = ctx.unit(q)
        n += len([x for x in u.own_nodes() if isinstance(x, ast.Attribute) and x.attr == 'ignore_missing'])
    ctx.ob(n >= 4, 'mutation.Delete', 'ignore_missing is consulted by all four miss handlers (%d reads)' % n)
    du = ctx.unit('mutation.delete')
    rets = [n for n in du.own_nodes() if isinstance(n, ast.Return)]
    ok = len(rets) == 1 and isinstance(rets[0].value, ast.Call) and callee_qual(p, du, rets[0].value) == 'core.glom'
    if ok:
        c = rets[0].value
        sp = c.args[1]
        ok = is_name(c.args[0], du.params[0]) and isinstance(sp, ast.Call) and callee_qual(p, du, sp) == 'mutation.Delete' \
            and is_name(sp.args[0], du.params[1]) and any(k.arg == 'ignore_missing' and is_name(k.value, 'ignore_missing') for k in sp.keywords)
    ctx.ob(ok, du, 'delete() is glom(obj, Delete(path, ignore_missing=ignore_missing)): %s' % [norm(r) for r in rets])
    ctx.floor(3)


@rule('C12.4')
def same_object(ctx):
    u = ctx.unit('mutation.Delete.glomit')
    rets = [n for n in u.own_nodes() if isinstance(n, ast.Return)]
    cfg = ctx.cfg(u)
    rb = any(nm == u.params[1] for n in cfg.nodes if n is not cfg.entry for nm, _ in cfg.defs_at(n))
    ctx.ob(len(rets) >= 1 and all(is_name(r.value, u.params[1]) for r in rets) and not rb, u,
           'Delete returns the object it was given: %s' % [norm(r) for r in rets])
    ru = ctx.unit('mutation.Delete._del_one')
    ctx.ob(not [n for n in ru.own_nodes() if isinstance(n, ast.Return) and n.value is not None], ru, 'deleting yields nothing of its own')
    ctx.floor(2)


@rule('C12.5')
def default_delete_handlers(ctx):
    p = ctx.program
    u = ctx.unit('mutation._delete_autodiscover')
    from .c11 import discovery_table
    discovery_table(ctx, u, '__delitem__', {'none': 'False', 'attr': 'delattr', 'seq': '_del_sequence_item', 'item': 'operator.delitem'},
                    '_UNASSIGNABLE_BASE_TYPES', 'delete')
    su = ctx.unit('mutation._del_sequence_item')
    st = [n for n in su.own_nodes() if isinstance(n, ast.Delete)]
    ok = len(st) == 1 and norm(st[0]) == 'del %s[int(%s)]' % tuple(su.params)
    ctx.ob(ok, su, 'sequence deletion coerces the index with int(): %s' % [norm(s) for s in st])
    ctx.floor(2)
