"""C09 -- Match succeeds exactly on conforming targets and returns them unchanged."""
import ast

from . import rule, info
from ..program import AnalysisError, src, norm, ClassInfo
from ..util import (exclusive, handler_body_nodes, polarity, dispatch_chain, choice_leaves, search_loop_rejects, is_name, calls_in, callee_qual, deref, ancestors, evaluator_calls, stmt_of, parent,
                    handler_outcomes, completes_normally, enclosing_trys, handler_covers, in_handler_of)
from .common import option_usage, raise_discipline
from ..pattern import match, matches

info('C09',
     explanation='Static decision of: raise-class discipline in the match-mode evaluation functions (every '
                 'rejection is a MatchError, type rules raise TypeMatchError, caught GlomErrors are only '
                 're-raised); no effect in matching.py has a target-reachable base; every return of the '
                 'dispatcher is the target itself or a container allocated there with the pattern\'s type; '
                 'matches() and verify() run the same evaluation; Match(default=) yields its default exactly '
                 'on GlomError; constructor options are consulted at evaluation; structure of the dict / '
                 'sequence / tuple / callable / equality branches (first-match loops with for-else rejection, '
                 'required keys checked after the loop, positional zip).',
     decided=['C09.1 raise classes', 'C09.2 target never modified', 'C09.3 results fresh or the target',
              'C09.4 one decision procedure', 'C09.5 default', 'C09.6 options honoured', 'C09.7 dict branch structure',
              'C09.8 dispatcher structure'],
     not_decided=['soundness / completeness of the matching relation (key precedence, Required/Optional interplay)'])

MATCH_UNITS = ['matching._glom_match', 'matching._handle_dict', 'matching.Regex.glomit', 'matching.Optional.glomit',
               'matching._MType.glomit', 'matching._MSubspec.glomit', 'matching._MExpr.glomit',
               'matching.Switch.glomit', 'matching.Match.glomit']


@rule('C09.1')
def raise_classes(ctx):
    n = raise_discipline(ctx, MATCH_UNITS, 'MatchError')
    if n < 18:
        raise AnalysisError('C09.1 matched %d raise sites, confirmed floor is 18' % n)
    # the error classes themselves
    c = ctx.cls('matching.TypeMatchError')
    ctx.ob(c.is_subclass_of('MatchError') and c.is_subclass_of('TypeError'), c, 'TypeMatchError is a MatchError and a TypeError')
    ctx.floor(22)


@rule('C09.2')
def target_untouched(ctx):
    an = ctx.analysis
    effs = [e for e in an.all_effects() if e.unit.module.short == 'matching']
    bad = 0
    data_params = ('target', 'key', 'val', 'item', 'sub_target')
    for e in effs:
        hit = [t for t in e.origins if (t[0] in ('param', 'reach') and t[1] in data_params) or t == ('frame', 'core.T')]
        if hit:
            bad += 1
            ctx.ob(False, e.unit, 'matching never writes into the target: %s' % e.text(),
                   '%s on %s reaching %s' % (e.kind, src(e.base), sorted(hit)[:3]), node=e.node)
    ctx.ob(bad == 0, 'glom/matching.py', '%d effect sites in matching.py, none with a target-reachable base' % len(effs))
    if len(effs) < 25:
        raise AnalysisError('C09.2: only %d effect sites found in matching.py (floor 25)' % len(effs))
    # Optional defaults are filled into the *result*, not the target
    u = ctx.unit('matching._handle_dict')
    stores = [n for n in u.own_nodes() if isinstance(n, ast.Assign) and isinstance(n.targets[0], ast.Subscript)]
    rets = [n for n in u.own_nodes() if isinstance(n, ast.Return)]
    res = rets[0].value.id if len(rets) == 1 and isinstance(rets[0].value, ast.Name) else None
    for s in stores:
        ctx.ob(is_name(s.targets[0].value, res), u, 'dict matching stores only into its result: %s' % norm(s), node=s)
    ctx.floor(3)


@rule('C09.3')
def results(ctx):
    p = ctx.program
    u = ctx.unit('matching._glom_match')
    cfg = ctx.cfg(u)
    target, spec = u.params[0], u.params[1]
    for r in [n for n in u.own_nodes() if isinstance(n, ast.Return)]:
        v = r.value
        kind = None
        if is_name(v, target):
            kind = 'the target itself'
        elif isinstance(v, ast.Call) and callee_qual(p, u, v) == 'matching._handle_dict':
            kind = 'the dict matcher\'s result'
        elif isinstance(v, ast.Call) and isinstance(v.func, ast.Call) and is_name(v.func.func, 'type') \
                and is_name(v.func.args[0], spec):
            kind = 'a new container of the pattern\'s type'
        elif isinstance(v, ast.Call) and is_name(v.func, 'tuple'):
            kind = 'a new tuple'
        elif isinstance(v, ast.Name):
            defs = cfg.reaching_defs(cfg.node_of(r), v.id)
            if defs and all(isinstance(d, ast.List) and not d.elts for _, d in defs):
                kind = 'a list allocated here'
        ctx.ob(kind is not None, u, 'match returns %s: %s' % (kind or 'something else', norm(r)), node=r)
    # the collection branch, case by case on the pattern's type: a list pattern returns the list
    # of sub-results, a set / frozenset pattern a container of *its own* type built from them
    import builtins
    from ..util import case_paths
    coll = [n for n in u.own_nodes() if isinstance(n, ast.If) and isinstance(n.test, ast.Call) and is_name(n.test.func, 'isinstance')
            and len(n.test.args) == 2 and is_name(n.test.args[0], spec) and isinstance(n.test.args[1], ast.Tuple)
            and {x.id for x in n.test.args[1].elts if isinstance(x, ast.Name)} >= {'list', 'set', 'frozenset'}]
    ctx.require(len(coll) == 1, '_glom_match: list / set / frozenset branch not found')

    def decider(case):
        ty = getattr(builtins, case)

        def classes(e):
            out = []
            for x in (e.elts if isinstance(e, (ast.Tuple, ast.List, ast.Set)) else [e]):
                if not (isinstance(x, ast.Name) and isinstance(getattr(builtins, x.id, None), type)):
                    return None
                out.append(getattr(builtins, x.id))
            return out

        def decide(t):
            if isinstance(t, ast.BoolOp):
                vals = [decide(v) for v in t.values]
                if isinstance(t.op, ast.And):
                    return False if False in vals else (True if all(v is True for v in vals) else None)
                return True if True in vals else (False if all(v is False for v in vals) else None)
            if isinstance(t, ast.UnaryOp) and isinstance(t.op, ast.Not):
                v = decide(t.operand)
                return None if v is None else not v
            if isinstance(t, ast.Call) and is_name(t.func, 'isinstance') and len(t.args) == 2 and is_name(t.args[0], spec):
                cs = classes(t.args[1])
                return None if cs is None else issubclass(ty, tuple(cs))
            if isinstance(t, ast.Compare) and len(t.ops) == 1 and norm(t.left) == 'type(%s)' % spec:
                cs = classes(t.comparators[0])
                if cs is None:
                    return None
                o = t.ops[0]
                if isinstance(o, (ast.Is, ast.Eq, ast.In)):
                    return ty in cs
                if isinstance(o, (ast.IsNot, ast.NotEq, ast.NotIn)):
                    return ty not in cs
            return None
        return decide
    for case in ('list', 'set', 'frozenset'):
        outs, _ = case_paths(coll[0].body, decider(case))
        shown, good = [], True
        for kind, e, st, env in outs:
            if kind != 'return':
                continue
            txt = norm(e)
            shown.append(txt)
            if case == 'list':
                good = good and (txt == '[]' or isinstance(e, (ast.List, ast.ListComp)) or matches(e, 'list($$x)'))
            else:
                good = good and (matches(e, 'type(%s)($$x)' % spec) or matches(e, '%s($$x)' % case))
        ctx.ob(good and bool(shown), u, 'a %s pattern returns a %s of the sub-results: %s' % (case, case, [s_[:40] for s_ in shown]),
               '' if good else 'the result is not rebuilt with the pattern\'s own type: a %s pattern hands back a list '
               '(unhashable in key / element position)' % case, node=coll[0])
    # what is collected into the containers: the sub-results
    apps = [c for c in calls_in(u) if isinstance(c.func, ast.Attribute) and c.func.attr == 'append']
    for a in apps:
        ok = a.args and isinstance(a.args[0], ast.Call) and p.is_evaluator_call(u, a.args[0])
        ctx.ob(ok, u, 'containers collect the matched sub-results: %s' % norm(a), node=a)
    hu = ctx.unit('matching._handle_dict')
    rets = [n for n in hu.own_nodes() if isinstance(n, ast.Return)]
    ok = len(rets) == 1 and isinstance(rets[0].value, ast.Name)
    if ok:
        hcfg = ctx.cfg(hu)
        defs = hcfg.reaching_defs(hcfg.node_of(rets[0]), rets[0].value.id)
        ok = bool(defs) and all(isinstance(d, ast.Dict) and not d.keys for _, d in defs)
    ctx.ob(ok, hu, 'dict matching returns a dict allocated there: %s' % [norm(r) for r in rets])
    # leaf specs return the target itself
    for q in ('matching.Regex.glomit', 'matching.Optional.glomit', 'matching._MType.glomit',
              'matching._MSubspec.glomit', 'matching._MExpr.glomit'):
        lu = ctx.unit(q)
        rr = [n for n in lu.own_nodes() if isinstance(n, ast.Return)]
        ctx.ob(bool(rr) and all(is_name(r.value, lu.params[1]) for r in rr), lu,
               '%s returns the target itself: %s' % (lu.cls.name, [norm(r) for r in rr]))
    ctx.floor(12)


@rule('C09.4')
def one_procedure(ctx):
    p = ctx.program
    vu, mu = ctx.unit('matching.Match.verify'), ctx.unit('matching.Match.matches')
    calls = {}
    for u in (vu, mu):
        cs = [c for c in calls_in(u) if callee_qual(p, u, c) == 'core.glom']
        ok = len(cs) == 1 and len(cs[0].args) == 2 and is_name(cs[0].args[0], u.params[1]) \
            and is_name(cs[0].args[1], u.params[0]) and not cs[0].keywords
        ctx.ob(ok, u, '%s evaluates glom(target, self): %s' % (u.name, [norm(c) for c in cs]))
        calls[u] = cs
    r = [n for n in vu.own_nodes() if isinstance(n, ast.Return)]
    ctx.ob(len(r) == 1 and calls[vu] and r[0].value is calls[vu][0], vu, 'verify returns the evaluation result')
    cfg = ctx.cfg(mu)
    hs = [n for n in cfg.nodes if n.kind == 'handler']
    ok = len(hs) == 1 and ctx.program.global_qualname(mu, hs[0].ast.type) == 'core.GlomError'
    ctx.ob(ok, mu, 'matches converts exactly GlomError: except %s' % [src(h.ast.type) for h in hs if h.ast.type is not None])
    if hs:
        rets = [s for s in ast.walk(hs[0].ast) if isinstance(s, ast.Return)]
        ctx.ob(len(rets) == 1 and isinstance(rets[0].value, ast.Constant) and rets[0].value.value is False, mu,
               'a rejection gives False')
    hb = set()
    for h in hs:
        hb |= set(handler_body_nodes(cfg, h))
    tr = [n.ast for n in cfg.nodes if n.kind == 'stmt' and isinstance(n.ast, ast.Return) and n not in hb]
    ctx.ob(len(tr) >= 1 and all(isinstance(r.value, ast.Constant) and r.value.value is True for r in tr), mu,
           'acceptance gives True')
    ctx.floor(6)


@rule('C09.5')
def match_default(ctx):
    p = ctx.program
    u = ctx.unit('matching.Match.glomit')
    cfg = ctx.cfg(u)
    evs = evaluator_calls(p, u)
    ctx.require(len(evs) == 1, 'Match.glomit: expected one evaluation')
    node = cfg.node_containing(evs[0])
    hs = cfg.handlers_reached_from(node)
    ok = len(hs) == 1 and p.global_qualname(u, hs[0].ast.type) == 'core.GlomError'
    ctx.ob(ok, u, 'the default applies to GlomError rejections: except %s' % [src(h.ast.type) for h in hs if h.ast.type is not None])
    for h in hs:
        out = handler_outcomes(cfg, h)
        ctx.ob(set(out) in ({'raise-bare', 'normal'}, {'raise-bare', 'return'}), u,
               'without a default the rejection propagates unchanged', 'outcomes %s' % sorted(out))
        for r in [s for s in ast.walk(h.ast) if isinstance(s, ast.Raise)]:
            # on the edge where ``self.default is _MISSING`` holds -- however the test is written
            rn = cfg.node_of(r)
            ok = False
            shown = None
            for t in cfg.nodes:
                if t.kind == 'test':
                    pol = polarity(t.ast, '%s.default is _MISSING' % u.params[0])
                    if pol:
                        shown = norm(t.ast)
                        if rn in exclusive(cfg, t, pol):
                            ok = True
            ctx.ob(ok, u, 're-raise exactly when no default was given: %s' % shown, node=r)
        avs = [c for c in ast.walk(h.ast) if isinstance(c, ast.Call) and callee_qual(p, u, c) == 'core.arg_val']
        ok = len(avs) == 1 and is_name(avs[0].args[0], u.params[1]) and isinstance(avs[0].args[1], ast.Attribute) \
            and avs[0].args[1].attr == 'default' and is_name(avs[0].args[2], u.params[2])
        ctx.ob(ok, u, 'the default is evaluated as an argument on the current target: %s' % [norm(a) for a in avs])
    rets = [n for n in u.own_nodes() if isinstance(n, ast.Return)]

    def is_result(r):
        # the evaluation's value or the evaluated default, directly or through a local
        vals = [v for _, v in cfg.reaching_defs(cfg.node_of(r), r.value.id)] if is_name(r.value) else [r.value]
        return bool(vals) and all(v is evs[0] or (isinstance(v, ast.Call) and callee_qual(p, u, v) == 'core.arg_val')
                                  for v in vals)
    ctx.ob(len(rets) >= 1 and all(r.value is not None and is_result(r) for r in rets), u,
           'Match returns the matched value or the default: %s' % [norm(r) for r in rets])
    ctx.floor(5)


@rule('C09.6')
def options(ctx):
    option_usage(ctx, ['matching.Match', 'matching.Optional', 'matching.Required', 'matching.Switch', 'matching._Bool',
                       'matching.Regex', 'matching._MSubspec', 'matching._MExpr', 'matching.Not'],
                 external_readers=['matching._handle_dict', 'matching._precedence', 'matching._MExpr.glomit'])
    # Regex: flags and func are consumed by the constructor: the compiled matcher
    u = ctx.unit('matching.Regex.__init__')
    p = ctx.program
    comp = [c for c in calls_in(u) if callee_qual(p, u, c) == 're.compile']
    ok = bool(comp) and all(len(c.args) == 2 and is_name(c.args[1], 'flags') for c in comp)
    ctx.ob(ok, u, 'Regex compiles its pattern with the given flags: %s' % [norm(c) for c in comp])
    sel = {}
    for n in u.own_nodes():
        if isinstance(n, ast.If) and isinstance(n.test, ast.Compare) and is_name(n.test.left, 'func') \
                and isinstance(n.test.ops[0], ast.Is):
            which = p.global_qualname(u, n.test.comparators[0])
            a = n.body[0]
            if isinstance(a, ast.Assign) and isinstance(a.value, ast.Attribute):
                sel[which] = a.value.attr
    ctx.ob(sel.get('re.match') == 'match' and sel.get('re.search') == 'search', u,
           'func=re.match / re.search select the same-named method: %s' % sel)
    fm = [n for n in u.own_nodes() if isinstance(n, ast.Assign) and isinstance(n.value, ast.Attribute) and n.value.attr == 'fullmatch']
    ctx.ob(bool(fm), u, 'the default is a full match')
    gu = ctx.unit('matching.Regex.glomit')
    cs = [c for c in calls_in(gu) if isinstance(c.func, ast.Attribute) and c.func.attr == 'match_func']
    ctx.ob(len(cs) == 1 and is_name(cs[0].args[0], gu.params[1]), gu, 'Regex applies the selected matcher to the target')
    ctx.floor(12)


@rule('C09.7')
def dict_branch(ctx):
    p = ctx.program
    u = ctx.unit('matching._handle_dict')
    cfg = ctx.cfg(u)
    target, spec, scope = u.params[:3]
    # type rule first
    first = next((n for n in u.node.body if isinstance(n, (ast.If, ast.For, ast.While, ast.Try))), None)
    ok = isinstance(first, ast.If) and norm(first.test) == 'not isinstance(%s, dict)' % target
    ctx.ob(ok, u, 'a dict pattern demands a dict target first: %s' % (norm(first.test) if isinstance(first, ast.If) else None))
    loops = [n for n in u.own_nodes() if isinstance(n, ast.For)]
    outer = [l for l in loops if norm(l.iter) == '%s.items()' % target]
    ctx.require(len(outer) == 1, 'match dict: loop over target.items() not found')
    outer = outer[0]
    inner = [l for l in loops if l is not outer and any(l is x for x in ast.walk(outer))]
    ctx.require(len(inner) == 1, 'match dict: inner loop over the spec keys not found')
    inner = inner[0]
    it = deref(cfg, cfg.node_of(inner), inner.iter)
    ctx.ob(is_name(it, spec), u, 'spec keys are tried in the spec\'s own order: for %s in %s' % (src(inner.target), src(inner.iter)))
    # for-else rejection
    ok, why, _ = search_loop_rejects(cfg, cfg.node_of(inner), cfg.node_of(outer))
    ctx.ob(ok, u, 'a target key matching no spec key is rejected, a matched one is not', why)
    # first match wins: break after storing the value and discarding the requirement
    breaks = [n for n in ast.walk(inner) if isinstance(n, ast.Break)]
    evs = evaluator_calls(p, u)
    key_ev = [e for e in evs if is_name(e.args[0], outer.target.elts[0].id)]
    val_ev = [e for e in evs if is_name(e.args[0], outer.target.elts[1].id)]
    ctx.ob(len(key_ev) == 1 and len(val_ev) == 1 and len(breaks) == 1, u,
           'one key evaluation, one value evaluation, one break per target item')
    if len(key_ev) == 1 and len(val_ev) == 1 and len(breaks) == 1:
        kn, vn, bn = cfg.node_containing(key_ev[0]), cfg.node_containing(val_ev[0]), cfg.node_of(breaks[0])
        ctx.ob(cfg.dominates(kn, vn) and cfg.dominates(vn, bn), u, 'the value is matched only after its key matched, then the search stops')
        # key failure -> next spec key
        hs = cfg.handlers_reached_from(kn)
        ok = len(hs) == 1 and p.global_qualname(u, hs[0].ast.type) == 'core.GlomError' and \
            set(handler_outcomes(cfg, hs[0])) <= {'normal', 'continue'}
        ctx.ob(ok, u, 'a key that does not match moves on to the next spec key')
        # value failure is not swallowed by the key handler
        vh = cfg.handlers_reached_from(vn)
        ctx.ob(not vh, u, 'a value that does not match its chosen key\'s pattern rejects the target (not retried)',
               'value evaluation is under handlers %s' % [src(h.ast.type) for h in vh if h.ast.type is not None])
        # value spec = spec[<the spec key that matched>]
        vs = val_ev[0].args[1]
        ok = isinstance(vs, ast.Subscript) and is_name(vs.value, spec) and is_name(vs.slice, inner.target.id)
        ctx.ob(ok, u, 'the value pattern is the one stored under the matching spec key: %s' % norm(vs))
        # Required(key) is unwrapped for matching
        ks = key_ev[0].args[1]
        kdefs = cfg.reaching_defs(kn, ks.id) if isinstance(ks, ast.Name) else []
        forms = sorted(norm(leaf) for _, v in kdefs if isinstance(v, ast.AST) for leaf in choice_leaves(v))
        ctx.ob(forms == sorted([inner.target.id, inner.target.id + '.key']), u,
               'the key pattern is the spec key, unwrapped when Required: %s' % forms)
        disc = [c for c in calls_in(u) if isinstance(c.func, ast.Attribute) and c.func.attr == 'discard']
        dn_ = cfg.node_containing(disc[0]) if disc else None
        ok = len(disc) == 1 and is_name(disc[0].args[0], inner.target.id) and cfg.dominates(kn, dn_) \
            and cfg.find_path(kn, {dn_}, labels=lambda l: l == 'exc') is None and cfg.dominates(dn_, bn)
        ctx.ob(ok, u, 'a matched spec key is no longer required: %s' % [norm(d) for d in disc])
    # required: == constants not Optional, or Required(...)
    req = [n for n in u.own_nodes() if isinstance(n, ast.SetComp)]
    ok = len(req) == 1 and bool(req[0].generators[0].ifs) and matches(
        req[0].generators[0].ifs[0], '_precedence($k) == 0 and type($k) is not Optional or type($k) is Required')
    ctx.ob(ok, u, 'required keys: == constants unless Optional, and Required(...) keys: %s'
           % (norm(req[0].generators[0].ifs[0]) if req and req[0].generators[0].ifs else None))
    # the requirement test comes after the loop and raises
    reqvar = None
    for n in u.own_nodes():
        if isinstance(n, ast.Assign) and n.value in req and is_name(n.targets[0]):
            reqvar = n.targets[0].id
    tail = [n for n in u.node.body if isinstance(n, ast.If) and is_name(n.test, reqvar)]
    ok = len(tail) == 1 and isinstance(tail[0].body[0], ast.Raise) and u.node.body.index(tail[0]) > u.node.body.index(outer)
    ctx.ob(ok, u, 'missing required keys reject the target after all items were seen')
    # defaults: Optional(key, default) fills result for absent keys via arg_val
    dc = [n for n in u.own_nodes() if isinstance(n, ast.DictComp)]
    ok = len(dc) == 1 and bool(dc[0].generators[0].ifs)
    if ok:
        b = match(dc[0].key, '$k.key')
        ok = b is not None and matches(dc[0].value, '$k.default', b) and \
            matches(dc[0].generators[0].ifs[0], 'type($k) is Optional and $k.default is not _MISSING', b)
    ctx.ob(ok, u, 'defaults come from Optional keys that carry one: %s' % [norm(d) for d in dc])
    avs = [c for c in calls_in(u) if callee_qual(p, u, c) == 'core.arg_val']
    ok = len(avs) == 1 and is_name(avs[0].args[0], target)
    fl = [a for a in ancestors(avs[0]) if isinstance(a, ast.For)] if avs else []
    ok = ok and bool(fl) and matches(fl[0].iter, 'set($d) - set($r)')
    if ok:
        st_ = stmt_of(avs[0])
        ok = isinstance(st_, ast.Assign) and st_.value is avs[0] and len(fl[0].body) == 1 and fl[0].body[0] is st_ \
            and matches(st_, '$r[$k] = arg_val(%s, $d[$k], %s)' % (target, scope))
    ctx.ob(ok, u, 'exactly the keys absent from the result receive their default, always evaluated as an argument: for ... in %s'
           % (norm(fl[0].iter) if fl else None))
    ctx.floor(14)


@rule('C09.8')
def dispatcher(ctx):
    p = ctx.program
    u = ctx.unit('matching._glom_match')
    cfg = ctx.cfg(u)
    target, spec, scope = u.params[:3]
    chain, _tail = dispatch_chain(u.node.body)
    ctx.require(chain, '_glom_match: dispatch chain not found')
    tests = [norm(c.test) for c in chain]
    want = ['isinstance(%s, type)' % spec, 'isinstance(%s, dict)' % spec, 'isinstance(%s, (list, set, frozenset))' % spec,
            'isinstance(%s, tuple)' % spec, 'callable(%s)' % spec, '%s != %s' % (target, spec)]
    ctx.ob(tests == want, u, 'dispatch order: type, dict, list/set/frozenset, tuple, callable, equality', 'got %s' % tests)
    if tests != want:
        return
    ty, di, seq, tup, cal, eq = chain
    B = lambda n: ast.Module(body=n.body, type_ignores=[])
    # type rule
    g0 = ty.body[0] if ty.body and isinstance(ty.body[0], ast.If) else None
    ok = g0 is not None and polarity(g0.test, 'isinstance(%s, %s)' % (target, spec)) is not None \
        and all(isinstance(x, (ast.If, ast.Return)) for x in ty.body) and len(ty.body) <= 2 \
        and (len(ty.body) == 1 or is_name(ty.body[1].value, target))
    ctx.ob(ok, u, 'a type pattern is decided by isinstance(target, spec)')
    # sequence: type check, any-alternative per item
    ok = isinstance(seq.body[0], ast.If) and norm(seq.body[0].test) == 'not isinstance(%s, type(%s))' % (target, spec)
    ctx.ob(ok, u, 'a list/set pattern demands a target of the pattern\'s own type')
    loops = [n for n in ast.walk(B(seq)) if isinstance(n, ast.For)]
    ok = len(loops) == 2 and is_name(loops[0].iter, target) and is_name(loops[1].iter, spec) and loops[1] in list(ast.walk(loops[0]))
    ctx.ob(ok, u, 'every item is tried against the alternatives in order')
    if ok:
        inner = loops[1]
        evs = [c for c in ast.walk(inner) if isinstance(c, ast.Call) and p.is_evaluator_call(u, c)]
        ok2 = len(evs) == 1 and is_name(evs[0].args[0], loops[0].target.id) and is_name(evs[0].args[1], inner.target.id)
        ctx.ob(ok2, u, 'alternatives are matched against the item: %s' % [norm(e) for e in evs])
        br = [n for n in ast.walk(inner) if isinstance(n, ast.Break)]
        if evs and br:
            ctx.ob(cfg.dominates(cfg.node_containing(evs[0]), cfg.node_of(br[0])), u, 'the first matching alternative ends the search for that item')
        hs = cfg.handlers_reached_from(cfg.node_containing(evs[0])) if evs else []
        ok3 = len(hs) == 1 and p.global_qualname(u, hs[0].ast.type) == 'core.GlomError' and \
            set(handler_outcomes(cfg, hs[0])) <= {'normal', 'continue'}
        ctx.ob(ok3, u, 'a failing alternative moves on to the next one')
        ok4, why, _ = search_loop_rejects(cfg, cfg.node_of(inner), cfg.node_of(loops[0]))
        ctx.ob(ok4, u, 'an item matching no alternative rejects the target, a matched one does not', why)
    # tuple: type, length, positional zip
    tb = tup.body
    ok = isinstance(tb[0], ast.If) and norm(tb[0].test) == 'not isinstance(%s, tuple)' % target \
        and isinstance(tb[1], ast.If) and norm(tb[1].test) == 'len(%s) != len(%s)' % (target, spec)
    ctx.ob(ok, u, 'a tuple pattern demands a tuple of the same length')
    # the positional iteration: a for loop or (normal form of an append loop) a list comprehension
    zl = []
    for n in ast.walk(B(tup)):
        if isinstance(n, ast.For):
            zl.append((n.target, n.iter, n))
        elif isinstance(n, ast.ListComp) and len(n.generators) == 1 and not n.generators[0].ifs:
            zl.append((n.generators[0].target, n.generators[0].iter, n))
    ok = len(zl) == 1 and norm(zl[0][1]) == 'zip(%s, %s)' % (target, spec) and isinstance(zl[0][0], ast.Tuple)
    ctx.ob(ok, u, 'tuple items are matched positionally: for %s in %s' % (src(zl[0][0]) if zl else None, norm(zl[0][1]) if zl else None))
    if ok:
        evs = [c for c in ast.walk(zl[0][2]) if isinstance(c, ast.Call) and p.is_evaluator_call(u, c)]
        a, b = [e.id for e in zl[0][0].elts]
        ctx.ob(len(evs) == 1 and is_name(evs[0].args[0], a) and is_name(evs[0].args[1], b), u,
               'item i is matched against pattern i: %s' % [norm(e) for e in evs])
    # callable: truthy result accepts; exception or falsy rejects with MatchError
    cfs = [c for c in ast.walk(B(cal)) if isinstance(c, ast.Call) and is_name(c.func, spec)]
    ok = len(cfs) == 1 and len(cfs[0].args) == 1 and is_name(cfs[0].args[0], target)
    ctx.ob(ok, u, 'a predicate is applied to the target: %s' % [norm(c) for c in cfs])
    if ok:
        cn = cfg.node_containing(cfs[0])
        hs = cfg.handlers_reached_from(cn)
        ctx.ob(len(hs) == 1 and handler_covers(cfg, hs[0], 'Exception') and
               all(k.startswith('raise-new') for k in handler_outcomes(cfg, hs[0])), u,
               'a predicate that raises rejects the target with a MatchError')
        # the test on the predicate's result: the call itself, or a local holding it / its bool()
        tnode, pol = None, None
        if cn.kind == 'test':
            tnode, pol = cn, polarity(cn.ast, norm(cfs[0]))
        elif cn.kind == 'stmt' and isinstance(cn.ast, ast.Assign) and is_name(cn.ast.targets[0]) \
                and (cn.ast.value is cfs[0] or matches(cn.ast.value, 'bool(%s)' % norm(cfs[0]))):
            v = cn.ast.targets[0].id
            for t in cfg.nodes:
                if t.kind == 'test' and polarity(t.ast, v) and cfg.dominates(cn, t):
                    tnode, pol = t, polarity(t.ast, v)
        ctx.ob(tnode is not None and pol is not None, u, 'the predicate\'s truth value decides')
        okf = False
        if tnode is not None and pol:
            other = 'false' if pol == 'true' else 'true'
            rets = {x for x in cfg.nodes if x.kind == 'stmt' and isinstance(x.ast, ast.Return)}
            acc = [x for x in rets if is_name(x.ast.value, target)
                   and cfg.find_path(tnode, {x}, labels=lambda l: l != 'exc', start_labels=lambda l, y=pol: l == y) is not None]
            rej = cfg.find_path(tnode, rets, labels=lambda l: l != 'exc', start_labels=lambda l, y=other: l == y)
            okf = bool(acc) and rej is None
        ctx.ob(okf, u, 'a falsy predicate result rejects the target')
    # equality
    ok = len(eq.body) == 1 and isinstance(eq.body[0], ast.Raise)
    ctx.ob(ok, u, 'anything else is compared with ==: `%s` rejects' % norm(eq.test))
    last = u.node.body[-1]
    ctx.ob(isinstance(last, ast.Return) and is_name(last.value, target), u, 'an accepted scalar / type / equality match returns the target')
    ctx.floor(16)


@rule('C09.14')
def regex_target_types(ctx):
    """Regex accepts a target exactly when ``type(target) in _RE_TYPES``; re works on both text
    types, so the table must list str and bytes (a bytes pattern on a conforming bytes target is a
    match, not a type rejection)"""
    p = ctx.program
    mod = p.modules['glom.matching']
    have = set()
    n = 0
    for st in ast.walk(mod.tree):
        tg = None
        if isinstance(st, ast.Assign) and any(is_name(t, '_RE_TYPES') for t in st.targets):
            tg = st.value
        elif isinstance(st, ast.AugAssign) and is_name(st.target, '_RE_TYPES') and isinstance(st.op, ast.Add):
            tg = st.value
        if tg is None:
            continue
        n += 1
        srcs = [tg]
        # computed by a module-level helper: what the helper can put into the table
        if isinstance(tg, ast.Call) and is_name(tg.func) and ('matching.' + tg.func.id) in p.units:
            srcs.append(p.units['matching.' + tg.func.id].node)
        for root in srcs:
            for x in ast.walk(root):
                if isinstance(x, ast.Name) and x.id in ('str', 'bytes'):
                    have.add(x.id)
                # ``for sample in ("", b""): .. type(sample)``: the types of the literal samples
                if isinstance(x, ast.For) and isinstance(x.iter, (ast.Tuple, ast.List)) and is_name(x.target) \
                        and all(isinstance(e, ast.Constant) for e in x.iter.elts) \
                        and any(isinstance(c, ast.Call) and is_name(c.func, 'type') and c.args and is_name(c.args[0], x.target.id)
                                for b in x.body for c in ast.walk(b)):
                    have |= {type(e.value).__name__ for e in x.iter.elts if isinstance(e.value, (str, bytes))}
    ctx.require(n >= 1, 'matching._RE_TYPES: definition not found')
    u = ctx.unit('matching.Regex.glomit')
    uses = [x for x in u.own_nodes() if isinstance(x, ast.Compare) and any(is_name(c, '_RE_TYPES') for c in x.comparators)]
    ctx.ob(bool(uses), u, 'the target type is tested against the table: %s' % [norm(x) for x in uses])
    ok = have >= {'str', 'bytes'}
    ctx.ob(ok, 'glom/matching.py', 'both text types are valid Regex targets: %s' % sorted(have),
           '' if ok else 'a %s target is rejected before the pattern is tried' % sorted({'str', 'bytes'} - have))
    ctx.floor(2)


@rule('C09.18')
def precedence_classes(ctx):
    """dict-pattern keys are tried constants first, then spec objects, then classes, and a key is
    *required* exactly when it is a constant.  "Is a class" is ``isinstance(key, type)``: classes
    with a metaclass (every ABC, every Enum) are classes too; an exact ``type(key) is type`` test
    would file them as constants -- required keys compared with ``==``"""
    u = ctx.unit('matching._precedence')
    cfg = ctx.cfg(u)
    prm = u.params[0]
    rets = {}
    for n in cfg.nodes:
        if n.kind == 'stmt' and isinstance(n.ast, ast.Return) and isinstance(n.ast.value, ast.Constant):
            rets.setdefault(n.ast.value.value, []).append(n)
        elif n.kind == 'stmt' and isinstance(n.ast, ast.Return) and is_name(n.ast.value):
            # single-exit form: the places where the returned variable gets its constant
            for dn, dv in cfg.reaching_defs(n, n.ast.value.id):
                if isinstance(dv, ast.Constant):
                    rets.setdefault(dv.value, []).append(dn)
    ctx.ob(set(rets) >= {0, 1, 2}, u, 'three classes of keys: %s' % sorted(rets))

    # the key under test: the parameter, or a local unwrapped from it (``key = match.key if ..``)
    keyvars = {prm}
    for n in u.own_nodes():
        if isinstance(n, ast.Assign) and is_name(n.targets[0]) and any(is_name(x, prm) for x in ast.walk(n.value)):
            keyvars.add(n.targets[0].id)

    def guarded(nodes, template):
        for n in nodes:
            ok = False
            for t in cfg.nodes:
                if t.kind == 'test':
                    for kv in keyvars:
                        pol = polarity(t.ast, template.replace('@K', kv))
                        if pol and n in exclusive(cfg, t, pol):
                            ok = True
            if not ok:
                return False
        return bool(nodes)
    prm = '@K'
    ok = guarded(rets.get(2, []), 'isinstance(%s, type)' % prm)
    ctx.ob(ok, u, 'a key is a class when isinstance(key, type)',
           '' if ok else 'classes are not recognised by isinstance: a class with a metaclass (ABC, Enum) is taken for a constant')
    ok = guarded(rets.get(1, []), "hasattr(%s, 'glomit')" % prm)
    ctx.ob(ok, u, 'a key is a spec object when it has a glomit')
    exact = [norm(x) for x in u.own_nodes() if isinstance(x, ast.Compare) and isinstance(x.ops[0], (ast.Is, ast.IsNot, ast.Eq))
             and is_name(x.comparators[0], 'type')]
    ctx.ob(not exact, u, 'no exact-type test stands in for "is a class"', '' if not exact else str(exact))
    ctx.floor(4)


@rule('C09.27')
def optional_keys_match_by_equality(ctx):
    """an Optional key accepts exactly the target keys equal to it (``==``, as the plain literal
    key does): the rejection is decided by ``target != self.key`` alone.  A further type test
    makes ``Optional(1)`` miss the key ``1.0`` / ``True`` that the required key ``1`` accepts"""
    u = ctx.unit('matching.Optional.glomit')
    cfg = ctx.cfg(u)
    tgt = u.params[1]
    raises = {n for n in cfg.nodes if n.kind == 'stmt' and isinstance(n.ast, ast.Raise)}
    ctx.require(raises, 'Optional.glomit: rejection not found')
    tests = [t for t in cfg.nodes if t.kind == 'test']
    pols = [(t, polarity(t.ast, '%s != self.key' % tgt)) for t in tests]
    good = [t for t, e in pols if e and cfg.find_path(t, raises, labels=lambda l: l != 'exc', start_labels=lambda l, y=e: l == y) is not None]
    others = [norm(t.ast) for t, e in pols if not e]
    ok = len(good) == 1 and not others
    ctx.ob(ok, u, 'an Optional key rejects exactly the keys that are != to it: %s' % [norm(t.ast) for t in tests],
           '' if ok else 'further / other conditions decide: %s' % (others or [norm(t.ast) for t in tests]), node=u.node)
    ctx.floor(1)
