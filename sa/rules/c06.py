"""C06 -- non-mutating specs are pure: inputs untouched, outcome independent of history."""
import ast

from . import rule, info
from ..program import AnalysisError, src, norm, ClassInfo
from ..util import (is_name, calls_in, callee_qual, deref, ancestors, evaluator_calls, units_of_class, stmt_of)

info('C06',
     explanation='Whole-package effect inventory from an allocation-site points-to analysis with '
                 'interprocedural mutation summaries: (1) the only effect sites whose base may denote a '
                 'target-reachable object are the mutation API; (2) no method of a spec-lifetime class '
                 'other than its constructor writes to self or stores data derived from its arguments in '
                 'self; (3) the set of module/class-level objects written from inside functions is closed '
                 '(Path._CACHE, Path._STAR_WARNED, registry state through register/register_op); (4) memo '
                 'discipline for Path.from_text (key completeness incl. PATH_STAR, overflow path returns '
                 'the same computation); (5) the caller\'s scope mapping is only read; (6) per-evaluation '
                 'state (_ArgValuator) is allocated per evaluation; mutable default arguments.',
     decided=['C06.1 who may write target-reachable objects', 'C06.2 specs not written after construction',
              'C06.3 closed shared-state inventory', 'C06.4 memo discipline', 'C06.5 caller mappings only read (C07.2)',
              'C06.6 per-evaluation state'],
     not_decided=['equality of outcomes across histories as such (follows only under the assumption that user '
                  'callables and registered handlers are pure)'],
     assumptions=['points-to analysis is field-insensitive for fresh containers; dict keys are not tracked'])

TARGET_PARAMS = ('target', 't', 'item', 'child', 'obj', 'dest', 'cur', 'val', 'iterator', 'iterable', 'it')


def _target_region(tok):
    if tok[0] in ('param', 'reach') and tok[1] in ('target',):
        return True
    if tok[0] == 'frame' and tok[1] in ('core.T',):
        return True
    return False


def _spec_region(tok):
    return tok[0] in ('param', 'reach') and tok[1] in ('spec', 'subspec', 'arg')


SPEC_LIFETIME_EXEMPT = {
    # class -> reason
    'core.TargetRegistry': 'registry: shared mutable by design, governed by C13',
    'core._ArgValuator': 'ephemeral: constructed per arg_val call (C06.6)',
    'core.ScopeVars': 'runtime value object created per evaluation',
    'core._BBRepr': 'reprlib.Repr subclass configured in its constructor',
    'core.Glommer': 'configuration object; register() is an explicit registration API',
}
CTOR_NAMES = ('__init__', '__new__', '__setstate__', '__init_subclass__')


@rule('C06.1')
def target_writers(ctx):
    an = ctx.analysis
    effs = an.all_effects()
    api = an.sanctioned
    n_target = 0
    n_api = 0
    for e in effs:
        hits = [t for t in e.origins if _target_region(t)]
        if not hits:
            continue
        q = e.unit.qualname
        root = q
        allowed = any(q == a or q.startswith(a + '.') for a in api)
        if allowed:
            n_api += 1
            ctx.ob(True, e.unit, 'mutation API writes its destination: %s' % e.text(), node=e.node)
            continue
        n_target += 1
        ctx.ob(False, e.unit, 'no write to a target-reachable object outside the mutation API: %s' % e.text(),
               '%s on %s whose abstract objects include %s%s'
               % (e.kind, src(e.base), sorted(hits)[:3], (' (via %s)' % e.via.qualname) if e.via else ''), node=e.node)
    # calls reaching the mutation API come only from the interpreter's A-root and from Assign/Delete
    callers_ok = ('core._t_eval', 'mutation.Assign.glomit', 'mutation.Delete.glomit')
    for u, call, cu in an.api_calls:
        ok = any(u.qualname == c or u.qualname.startswith(c + '.') for c in callers_ok) or u.qualname in api
        ctx.ob(ok, u, 'the mutation API is reached only from Assign / Delete / the A-root: %s' % norm(call),
               '' if ok else '%s calls %s' % (u.qualname, cu.qualname), node=call)
    ctx.require(n_api >= 2, 'mutation API effect sites not found (%d)' % n_api)
    ctx.ob(True, 'package', 'effect inventory: %d effect sites classified, %d in the mutation API, %d stray target writes'
           % (len(effs), n_api, n_target))
    ctx.note('effect sites classified: %d' % len(effs))
    ctx.shared['n_effects'] = len(effs)
    if len(effs) < 300:
        raise AnalysisError('C06.1: only %d effect sites found in the package (confirmed floor 300)' % len(effs))
    # element regions: iteration items of the target and evaluator results are target-reachable too
    # (their tokens are ('reach','target'), covered above)
    # embedded positive example: a handler sorting its target in place must be reported
    from ..program import Program
    from ..dataflow import Analysis
    from ..tables import mutation_api
    srcs = dict(ctx.program.sources)
    probe = srcs['glom/core.py'].replace("    ret = []\n    base_path = scope[Path]\n",
                                          "    ret = []\n    target.sort()\n    base_path = scope[Path]\n", 1)
    if probe != srcs['glom/core.py']:
        srcs['glom/core.py'] = probe
        p2 = Program(srcs)
        an2 = Analysis(p2, sanctioned=mutation_api(p2))
        found = any(e.unit.qualname == 'core._handle_list' and any(_target_region(t) for t in e.origins)
                    for e in an2.all_effects())
        if not found:
            raise AnalysisError('C06.1 positive example (target.sort() in _handle_list) was not detected')
        ctx.ob(True, 'selfcheck', 'embedded positive example `target.sort()` in _handle_list is detected')


def spec_lifetime_classes(ctx):
    p = ctx.program
    out = []
    for c in p.classes.values():
        if c.module.short in ('tutorial', 'cli'):
            continue
        if c.is_subclass_of('BaseException'):
            continue
        if c.qualname in SPEC_LIFETIME_EXEMPT:
            continue
        if any(c.find_method(m) for m in ('glomit', 'agg', '_glomit', '_fold', '_agg')) or \
                c.qualname in ('core.Path', 'core.TType', 'matching.Required', 'matching._MType'):
            out.append(c)
    return out


@rule('C06.2')
def specs_not_written(ctx):
    an = ctx.analysis
    classes = spec_lifetime_classes(ctx)
    ctx.require(len(classes) >= 36, 'only %d spec-lifetime classes found' % len(classes))
    an.all_effects()
    by_unit = {}
    for e in an.all_effects():
        by_unit.setdefault(e.unit, []).append(e)
    for c in classes:
        bad = 0
        units = units_of_class(ctx.program, c)
        for u in units:
            top = u
            while top.parent is not None:
                top = top.parent
            if top.name in CTOR_NAMES:
                continue
            selfname = top.self_name()
            if not selfname or top.is_classmethod():
                continue
            for e in by_unit.get(u, []):
                if any(t[0] in ('param', 'reach') and t[1] == selfname for t in e.origins):
                    bad += 1
                    ctx.ob(False, u, 'a spec is not written after construction: %s' % e.text(),
                           '%s on %s (object reachable from %s) in method %s of spec class %s'
                           % (e.kind, src(e.base), selfname, top.name, c.name), node=e.node)
        if not bad:
            ctx.ob(True, c, 'no method of %s writes to the spec after construction (%d units)' % (c.name, len(units)))
    # spec parameters of mode functions / handlers are not written
    for q in ('core.AUTO', 'core.FILL', 'core._handle_dict', 'core._handle_list', 'core._handle_tuple',
              'matching._glom_match', 'matching._handle_dict', 'grouping.GROUP', 'core._ArgValuator.mode',
              'core._t_eval', 'core._glom'):
        u = ctx.unit(q)
        bad = [e for e in by_unit.get(u, []) if any(_spec_region(t) or (t[0] in ('param', 'reach') and t[1] == '_t')
                                                    for t in e.origins)]
        # GROUP keys accumulators by id(spec): tree[...] stores are on the tree, not the spec
        for e in bad:
            ctx.ob(False, u, 'the spec argument is not written: %s' % e.text(),
                   '%s on %s' % (e.kind, src(e.base)), node=e.node)
        if not bad:
            ctx.ob(True, u, 'the spec argument of %s is only read' % u.name)
    ctx.floor(45)


ALLOWED_GLOBAL_WRITERS = {
    # (unit qualname, global object prefix) -> reason
    ('core.Path.from_text', 'core.Path._CACHE'): 'path parse memo (C06.4)',
    ('core.Path.from_text.<nested>', 'core.Path'): 'one-time deprecation warning flag _STAR_WARNED',
    ('core.register', 'core._DEFAULT_SCOPE'): 'explicit registration API (registrations are an input of C06)',
    ('core.register_op', 'core._DEFAULT_SCOPE'): 'explicit registration API',
}


@rule('C06.3')
def closed_inventory(ctx):
    an = ctx.analysis
    p = ctx.program
    seen = set()
    for e in an.all_effects():
        g = sorted({t[1] for t in e.origins if t[0] in ('global', 'greach')})
        if not g:
            continue
        if e.unit.module.short == 'cli':
            continue
        for obj in g:
            uq_here = e.unit.qualname
            if e.unit.parent is not None and e.unit.parent.qualname == 'core.Path.from_text':
                uq_here = 'core.Path.from_text.<nested>'
            ok = any(uq_here == uq and obj.startswith(pref) for (uq, pref) in ALLOWED_GLOBAL_WRITERS)
            key = (e.unit.qualname, obj)
            if ok:
                if key not in seen:
                    ctx.ob(True, e.unit, 'allow-listed shared-state write: %s -> %s' % (e.text(), obj), node=e.node)
                seen.add(key)
            else:
                ctx.ob(False, e.unit, 'no function writes module/class-level state outside the allow-list: %s' % e.text(),
                       '%s writes %s (%s)' % (e.unit.qualname, obj, e.kind), node=e.node)
    # `global` / `nonlocal` statements, module attribute stores
    for u in p.package_units():
        for n in u.own_nodes():
            if isinstance(n, (ast.Global, ast.Nonlocal)):
                ctx.ob(False, u, 'no global/nonlocal rebinding: %s' % norm(n), node=n)
    # mutable default arguments are shared across calls
    n_defaults = 0
    for u in p.package_units():
        if u.module.short == 'cli':
            continue
        a = u.node.args
        for d in list(a.defaults) + [x for x in a.kw_defaults if x is not None]:
            n_defaults += 1
            mutable = isinstance(d, (ast.List, ast.Dict, ast.Set, ast.ListComp, ast.DictComp, ast.SetComp)) or \
                (isinstance(d, ast.Call) and isinstance(d.func, ast.Name) and d.func.id in
                 ('list', 'dict', 'set', 'OrderedDict', 'ScopeVars', 'ChainMap', 'deque', 'defaultdict'))
            if mutable:
                ctx.ob(False, u, 'no mutable default argument: %s' % norm(d),
                       'a default evaluated once at definition time is state shared by every call', node=d)
    ctx.ob(True, 'package', '%d default-argument expressions examined, none allocates a mutable object' % n_defaults)
    # kwargs.pop('x', <mutable>) fallbacks are evaluated per call: fine.  Class-level mutable attributes:
    for c in p.classes.values():
        if c.module.short in ('tutorial', 'cli'):
            continue
        for name, vals in c.attrs.items():
            for v in vals:
                if isinstance(v, (ast.List, ast.Dict, ast.Set)) or \
                        (isinstance(v, ast.Call) and isinstance(v.func, ast.Name) and v.func.id in ('list', 'dict', 'set', 'OrderedDict')):
                    ok = (c.qualname, name) in (('core.Path', '_CACHE'),)
                    ctx.ob(ok, c, 'class-level mutable attribute %s.%s is allow-listed' % (c.name, name),
                           '' if ok else 'new shared mutable class attribute', node=v)
    # module-level mutable objects written from functions are covered above; list them
    ctx.floor(4)


@rule('C06.4')
def memo_discipline(ctx):
    p = ctx.program
    from .c01 import from_text_units
    u, cu = from_text_units(ctx)
    cfg = ctx.cfg(u)
    text = u.params[1]
    # cache selection by PATH_STAR: every reassignable global the computation reads is in the key or selection
    reads = set()
    for n in cu.own_nodes():
        if isinstance(n, ast.Name) and isinstance(n.ctx, ast.Load):
            d = p.resolve_name(cu, n.id)
            if d.kind == 'var' and getattr(d, 'owner', None) is None:
                # module-level variable: reassignable?
                if len(d.values) >= 1 and d.name.isupper() and not d.name.startswith('_'):
                    reads.add(d.name)
    sel = [n for n in u.own_nodes() if isinstance(n, ast.Assign) and isinstance(n.value, ast.Subscript)
           and isinstance(n.value.value, ast.Attribute) and n.value.value.attr == '_CACHE']
    ctx.require(len(sel) == 1 and is_name(sel[0].targets[0]), 'from_text: cache selection not found')
    cache = sel[0].targets[0].id
    selkeys = {x.id for x in ast.walk(sel[0].value.slice) if isinstance(x, ast.Name)}
    for g in sorted(reads):
        ctx.ob(g in selkeys, u, 'public module switch %s read by the parser selects the cache partition' % g,
               '' if g in selkeys else 'the memo would return a Path parsed under a different %s' % g, node=sel[0])
    ctx.require(reads, 'from_text.create reads no module switch (PATH_STAR expected)')
    # the partitions exist for both values of the switch
    pc = ctx.cls('core.Path')
    cv = pc.attrs.get('_CACHE', [])
    ok = len(cv) == 1 and isinstance(cv[0], ast.Dict) and \
        sorted(k.value for k in cv[0].keys if isinstance(k, ast.Constant)) == [False, True] and \
        all(isinstance(v, ast.Dict) and not v.keys for v in cv[0].values)
    ctx.ob(ok, pc, 'one empty cache partition per value of the switch: %s' % [norm(v) for v in cv])
    # stored under the text itself; value is create() of that same text
    stores = [n for n in u.own_nodes() if isinstance(n, ast.Assign) and isinstance(n.targets[0], ast.Subscript)
              and is_name(n.targets[0].value, cache)]
    ok = len(stores) == 1 and is_name(stores[0].targets[0].slice, text) and isinstance(stores[0].value, ast.Call) \
        and is_name(stores[0].value.func, cu.name) and not stores[0].value.args
    ctx.ob(ok, u, 'the memo stores create() under the unmodified text: %s' % [norm(s) for s in stores])
    # create() closes over the same text (no normalisation)
    ctx.ob(not [n for n in cu.own_nodes() if isinstance(n, ast.Name) and n.id == text and isinstance(n.ctx, ast.Store)]
           and not [n for n in u.own_nodes() if isinstance(n, ast.Name) and n.id == text and isinstance(n.ctx, ast.Store)],
           u, 'the text is never rebound between key and computation')
    # lookups
    rets = [n for n in u.own_nodes() if isinstance(n, ast.Return)]
    for r in rets:
        v = r.value
        if isinstance(v, ast.Subscript):
            ctx.ob(is_name(v.value, cache) and is_name(v.slice, text), u, 'a hit returns the entry of this text: %s' % norm(r), node=r)
        else:
            ok = isinstance(v, ast.Call) and is_name(v.func, cu.name)
            g = [a for a in ancestors(r) if isinstance(a, ast.If)]
            okg = any(isinstance(x.test, ast.Compare) and 'len(%s)' % cache in norm(x.test) for x in g)
            ctx.ob(ok and okg, u, 'on overflow the same computation is returned uncached: %s' % norm(r), node=r)
    over = [r for r in rets if isinstance(r.value, ast.Call) and is_name(r.value.func, cu.name)]
    ctx.ob(len(over) == 1, u, 'a full memo is bypassed (the path is built and returned uncached), never evicted',
           '' if len(over) == 1 else 'no `return create()` on the overflow path')
    evict = [c for c in calls_in(u) if isinstance(c.func, ast.Attribute) and c.func.attr in ('clear', 'pop', 'popitem')
             and is_name(c.func.value, cache)]
    ctx.ob(not evict, u, 'the memo never evicts entries', '%s' % [norm(c) for c in evict])
    # membership test guards the store: a dominating `text [not] in cache` test whose "present"
    # edge cannot reach the store
    tests = []
    for n in cfg.nodes:
        if n.kind == 'test' and isinstance(n.ast, ast.Compare) and len(n.ast.ops) == 1 \
                and isinstance(n.ast.ops[0], (ast.In, ast.NotIn)) and is_name(n.ast.left, text) \
                and is_name(n.ast.comparators[0], cache):
            tests.append((n, 'true' if isinstance(n.ast.ops[0], ast.In) else 'false'))
    ok = bool(tests) and bool(stores)
    for st in stores:
        sn = cfg.node_of(st)
        guarded = False
        for t, present in tests:
            if cfg.dominates(t, sn) and cfg.find_path(t, {sn}, start_labels=lambda lab, e=present: lab == e,
                                                      labels=lambda lab: lab != 'exc') is None:
                guarded = True
        ok = ok and guarded
    ctx.ob(ok, u, 'the memo is consulted first: the entry is computed and stored only when the text is not in the cache: %s'
           % [norm(t.ast) for t, _ in tests])
    # no eviction / mutation of cached Paths: nobody else touches _CACHE
    others = []
    for uu in p.package_units():
        if uu in (u, cu):
            continue
        for n in uu.own_nodes():
            if isinstance(n, ast.Attribute) and n.attr == '_CACHE':
                others.append((uu, n))
    ctx.ob(not others, u, 'nobody else touches Path._CACHE', 'also used in %s' % [x[0].qualname for x in others])
    # the registry memo: see C13.1/C13.2
    ctx.floor(8)


@rule('C06.6')
def per_evaluation_state(ctx):
    p = ctx.program
    sites = []
    for u in p.package_units():
        for c in calls_in(u):
            if callee_qual(p, u, c) == 'core._ArgValuator':
                sites.append((u, c))
    au = ctx.unit('core.arg_val')
    ctx.ob(any(u is au for u, _ in sites), au, 'arg_val constructs its own argument valuator',
           '' if any(u is au for u, _ in sites) else 'no _ArgValuator() in arg_val: the valuator (and its id()-keyed cycle memo) '
           'is shared between evaluations, so a memo entry left by one call is seen by the next')
    installs = [n for n in au.own_nodes() if isinstance(n, ast.Assign) and isinstance(n.targets[0], ast.Subscript)
                and p.scope_key(au, n.targets[0].slice) == 'core.MIN_MODE' and isinstance(n.value, ast.Attribute)]
    for n in installs:
        ok = isinstance(n.value.value, ast.Call)
        ctx.ob(ok, au, 'the installed mode function belongs to a valuator created in this call: %s' % norm(n),
               '' if ok else '%s is not allocated here' % src(n.value.value), node=n)
    for u, c in sites:
        ok = u.qualname == 'core.arg_val'
        ctx.ob(ok, u, 'the argument valuator (with its cycle memo) is constructed per arg_val call: %s' % norm(c),
               '' if ok else 'constructed in %s' % u.qualname, node=c)
        if ok:
            st = [a for a in ancestors(c) if isinstance(a, ast.stmt)][0]
            # it only flows into the frame's MIN_MODE slot (as its bound method)
            okf = isinstance(st, ast.Assign) and isinstance(st.targets[0], ast.Subscript) \
                and p.scope_key(u, st.targets[0].slice) == 'core.MIN_MODE' and isinstance(st.value, ast.Attribute) \
                and st.value.value is c
            ctx.ob(okf, u, 'it is installed only as this frame\'s MIN_MODE: %s' % norm(st), node=st)
    # module-level instances would be shared
    for mod in p.modules.values():
        for st in mod.tree.body:
            for c in [x for x in ast.walk(st) if isinstance(x, ast.Call)] if isinstance(st, (ast.Assign, ast.Expr)) else []:
                if isinstance(c.func, ast.Name) and c.func.id == '_ArgValuator':
                    ctx.ob(False, mod.relpath, 'no module-level argument valuator: %s' % norm(st))
    # Fold / Group accumulators: see C15.1 / C16.1
    # per-call root objects of glom(): see C07.3
    ctx.floor(2)


MATERIALISERS = {'dict', 'list', 'tuple', 'OrderedDict', 'frozenset', 'set'}


@rule('C06.18')
def vars_base_consumed_at_construction(ctx):
    """Vars(base) may be given a one-shot iterable of pairs.  Every evaluation builds its
    ScopeVars with dict(base); if the first evaluation were the one to drain the iterator the
    second evaluation of the same spec object would see different bindings.  The constructor
    therefore consumes / materialises base itself before storing it (``dict(base)``), so that
    all evaluations agree."""
    u = ctx.unit('core.Vars.__init__')
    cfg = ctx.cfg(u)
    base = u.params[1]
    stores = [n for n in cfg.nodes if n.kind == 'stmt' and isinstance(n.ast, ast.Assign)
              and isinstance(n.ast.targets[0], ast.Attribute) and is_name(n.ast.targets[0].value, u.params[0])
              and base in {x.id for x in ast.walk(n.ast.value) if isinstance(x, ast.Name)}]
    ctx.require(len(stores) == 1, 'Vars.__init__: the store of base not found')

    def materialises(e):
        return isinstance(e, ast.Call) and is_name(e.func) and e.func.id in MATERIALISERS and len(e.args) == 1 and is_name(e.args[0], base)
    st = stores[0]
    ok = materialises(st.ast.value)
    wit = None
    if not ok:
        mats = {n for n in cfg.nodes if n.ast is not None and n.kind == 'stmt' and any(materialises(x) for x in ast.walk(n.ast))}
        ok, wit = cfg.must_pass(cfg.entry, {st}, mats, labels=lambda l: l != 'exc')
        ok = ok and bool(mats)
    ctx.ob(ok, u, 'base is consumed (dict(base)) on every path before it is stored: %s' % norm(st.ast),
           '' if ok else 'a one-shot iterable stored as it is: the first evaluation drains it, later evaluations of the same spec see no bindings',
           node=st.ast)
    gu = ctx.unit('core.Vars.glomit')
    reads = [n for n in gu.own_nodes() if isinstance(n, ast.Attribute) and is_name(n.value, gu.params[0]) and n.attr == st.ast.targets[0].attr]
    ctx.ob(bool(reads), gu, 'evaluation reads the stored base (%d)' % len(reads))
    ctx.floor(2)


MUTATORS = {'append', 'extend', 'insert', 'pop', 'popitem', 'remove', 'clear', 'update', 'setdefault', 'move_to_end',
            'sort', 'reverse', 'add', 'discard', '__setitem__', '__delitem__', 'appendleft', 'rotate'}
LOOKUP_UNITS = ('core.TargetRegistry.get_handler', 'core.TargetRegistry._get_closest_type', 'core.TargetRegistry.get_type_map')


@rule('C06.19')
def lookup_is_read_only(ctx):
    """resolving a handler reads the registrations and writes only the lookup memo: the type maps
    and the (order-sensitive) type trees are changed by register() / register_op() alone.  A
    lookup that reorders or fills them ("probe the hot branch first", "remember the default map")
    makes later resolutions depend on which targets were looked up before"""
    n = 0
    for q in LOOKUP_UNITS:
        u = ctx.unit(q)
        cfg = ctx.cfg(u)
        selfn = u.params[0]
        writes = []
        for x in u.own_nodes():
            if isinstance(x, (ast.Assign, ast.AugAssign, ast.AnnAssign, ast.Delete)):
                tg = x.targets if isinstance(x, (ast.Assign, ast.Delete)) else [x.target]
                for t in tg:
                    for e in (t.elts if isinstance(t, ast.Tuple) else [t]):
                        if isinstance(e, (ast.Attribute, ast.Subscript)):
                            writes.append((e, x))
            elif isinstance(x, ast.Call) and isinstance(x.func, ast.Attribute) and x.func.attr in MUTATORS:
                writes.append((x.func.value, x))
        for e, st in writes:
            n += 1
            memo = isinstance(e, ast.Subscript) and norm(e.value) == '%s._type_cache' % selfn and isinstance(st, ast.Assign)
            root = e
            while isinstance(root, (ast.Attribute, ast.Subscript, ast.Call)):
                root = root.value if not isinstance(root, ast.Call) else root.func
            fresh = False
            if isinstance(root, ast.Name) and root.id not in u.all_params:
                at = cfg.node_of(st) if not isinstance(st, ast.Call) else cfg.node_of(stmt_of(st))
                defs = [v for _, v in cfg.reaching_defs(at, root.id)]
                fresh = bool(defs) and all(isinstance(v, (ast.List, ast.Dict, ast.Set, ast.ListComp, ast.DictComp, ast.SetComp, ast.Constant))
                                           or (isinstance(v, ast.Call) and is_name(v.func) and v.func.id in ('list', 'dict', 'set', 'sorted', 'OrderedDict') )
                                           for v in defs)
            ok = memo or fresh
            ctx.ob(ok, u, '%s writes only the lookup memo: %s' % (u.name, norm(st)[:70]),
                   'the memo entry' if memo else 'a container built here' if fresh else
                   'a lookup changes the registry itself (%s): the next resolution depends on the lookups made before it' % norm(e)[:50], node=st)
    u = ctx.unit(LOOKUP_UNITS[0])
    ctx.require(n >= 1, 'get_handler: memo store not found')
    ctx.ob(True, u, 'writes examined in %s: %d' % (', '.join(q.rsplit('.', 1)[1] for q in LOOKUP_UNITS), n))
    ctx.floor(2)
