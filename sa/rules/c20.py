"""C20 -- concurrent and re-entrant glom calls behave exactly as when run alone."""
import ast

from . import rule, info
from ..program import AnalysisError, src, norm, ClassInfo
from ..callgraph import reachable_from
from ..util import (is_name, calls_in, callee_qual, deref, ancestors, stmt_of, parent, kwarg)

info('C20',
     explanation='Static decision of: no ambient call state (over the call-graph closure of glom()/the evaluator '
                 'through all four indirections, no function contains a global/nonlocal statement or writes a '
                 'module/class-level object other than the allow-listed memos); memos are monotone under '
                 'evaluation (no reachable function deletes, clears, pops or rebinds a memo; each memo write is '
                 'a single subscript store; the registration API that rebinds the registry memo is not reachable '
                 'from an evaluation); per-call frames and roots (the default scope is only read: every call '
                 'works on a new child map; see also C07.3/C07.5/C06.6); finalisation reads thread-local '
                 'interpreter state and writes only the exception instance.',
     decided=['C20.1 no ambient call state', 'C20.2 memos monotone under evaluation', 'C20.3 default scope only read',
              'C20.4 finalisation is thread-local'],
     not_decided=['schedules as such; the claim is the standard one (no shared mutable state => no interference) and '
                  'assumes CPython\'s atomic dict store'],
     assumptions=['a single dict subscript store / lookup is atomic under the GIL',
                  'Sample() uses the process-wide random module by design (documented non-determinism)'])

MEMO_ATTRS = ('_CACHE', '_type_cache', '_STAR_WARNED')
REGISTRATION = {'core.register', 'core.register_op', 'core.TargetRegistry.register', 'core.TargetRegistry.register_op',
                'core.TargetRegistry._register_fuzzy_type', 'core.TargetRegistry._register_default_types',
                'core.TargetRegistry._register_builtin_ops', 'core.Glommer.register'}


def closure(ctx):
    c = ctx.shared.get('c20_closure')
    if c is None:
        p = ctx.program
        roots = [p.unit('core.glom'), p.unit('core._glom')]
        # callbacks built by spec builders (Iter stages, Check closures) run during evaluation
        spec_classes = set(p.glomit_classes())
        for u in p.package_units():
            if u.parent is not None:
                top = u
                while top.parent is not None:
                    top = top.parent
                if top.cls in spec_classes:
                    roots.append(u)
        c = ctx.shared['c20_closure'] = reachable_from(p, roots)
    return c


@rule('C20.1')
def no_ambient_state(ctx):
    p = ctx.program
    an = ctx.analysis
    reach, modes, evals = closure(ctx)
    ctx.require(len(reach) >= 110, 'call-graph closure of glom() has only %d functions' % len(reach))
    ctx.require({'core.AUTO', 'core.FILL', 'matching._glom_match', 'grouping.GROUP', 'core._ArgValuator.mode'} <= {m.qualname for m in modes},
                'mode dispatch targets not discovered: %s' % sorted(m.qualname for m in modes))
    ctx.require({'core._glom', 'core.Inspect._trace'} <= {e.qualname for e in evals}, 'evaluator targets not discovered: %s' % sorted(e.qualname for e in evals))
    ctx.ob(True, 'package', 'call-graph closure of glom(): %d of %d functions (evaluator -> %s; modes -> %s; %d glomit implementations)'
           % (len(reach), len(p.units), sorted(e.name for e in evals), sorted(m.name for m in modes), len(p.glomit_impls())))
    for u in sorted(reach, key=lambda x: x.qualname):
        for n in u.own_nodes():
            if isinstance(n, (ast.Global, ast.Nonlocal)):
                ctx.ob(False, u, 'no global / nonlocal statement in an evaluation function: %s' % norm(n), node=n)
    by_unit = {}
    for e in an.all_effects():
        by_unit.setdefault(e.unit, []).append(e)
    n_glob = 0
    for u in sorted(reach, key=lambda x: x.qualname):
        if u.module.short in ('cli', 'tutorial'):
            continue
        for e in by_unit.get(u, []):
            gl = sorted({t[1] for t in e.origins if t[0] in ('global', 'greach')})
            for g in gl:
                n_glob += 1
                nested_ft = u.parent is not None and u.parent.qualname == 'core.Path.from_text'
                ok = (u.qualname == 'core.Path.from_text' and g.startswith('core.Path._CACHE')) or \
                     (nested_ft and g == 'core.Path')
                ctx.ob(ok, u, 'shared state written during evaluation is an allow-listed memo: %s' % e.text(),
                       '' if ok else '%s writes %s while evaluating: visible to concurrent / re-entrant calls' % (u.qualname, g), node=e.node)
    # stores through module attribute: `module.X = ...`
    for u in reach:
        for n in u.own_nodes():
            if isinstance(n, (ast.Assign, ast.AugAssign)):
                tg = n.targets if isinstance(n, ast.Assign) else [n.target]
                for t in tg:
                    if isinstance(t, ast.Attribute) and isinstance(t.value, ast.Name):
                        d = p.resolve_name(u, t.value.id)
                        if d.kind in ('module', 'class') and not (u.parent is not None and u.parent.qualname == 'core.Path.from_text'):
                            ctx.ob(False, u, 'no module / class attribute is rebound during evaluation: %s' % norm(n), node=n)
    ctx.floor(3)


@rule('C20.2')
def memos_monotone(ctx):
    p = ctx.program
    reach, modes, evals = closure(ctx)
    bad_reach = sorted(u.qualname for u in reach if u.qualname in REGISTRATION)
    ctx.ob(not bad_reach, 'package', 'the registration API (which rebinds the registry memo) is not reachable from an evaluation',
           'reachable: %s' % bad_reach)
    n_memo_sites = 0
    for u in sorted(reach, key=lambda x: x.qualname):
        for n in u.own_nodes():
            # delete / clear / pop / rebind of a memo
            if isinstance(n, ast.Delete):
                for t in n.targets:
                    if any(isinstance(x, ast.Attribute) and x.attr in MEMO_ATTRS for x in ast.walk(t)):
                        ctx.ob(False, u, 'no memo entry is deleted during evaluation: %s' % norm(n), node=n)
            if isinstance(n, ast.Call) and isinstance(n.func, ast.Attribute) and n.func.attr in ('clear', 'pop', 'popitem', 'update', 'setdefault'):
                if any(isinstance(x, ast.Attribute) and x.attr in MEMO_ATTRS for x in ast.walk(n.func.value)):
                    ctx.ob(False, u, 'no memo is cleared / popped during evaluation: %s' % norm(n), node=n)
            if isinstance(n, ast.Assign):
                for t in n.targets:
                    if isinstance(t, ast.Attribute) and t.attr in ('_CACHE', '_type_cache'):
                        ctx.ob(False, u, 'no memo is rebound during evaluation: %s' % norm(n), node=n)
                    if isinstance(t, ast.Subscript) and any(isinstance(x, ast.Attribute) and x.attr in MEMO_ATTRS for x in ast.walk(t.value)):
                        n_memo_sites += 1
                        ctx.ob(True, u, 'memo write is a single subscript store: %s' % norm(n), node=n)
    # Path.from_text writes through a local alias of the partition
    u = ctx.unit('core.Path.from_text')
    sel = [n for n in u.own_nodes() if isinstance(n, ast.Assign) and is_name(n.targets[0]) and isinstance(n.value, ast.Subscript)
           and isinstance(n.value.value, ast.Attribute) and n.value.value.attr == '_CACHE']
    cache = sel[0].targets[0].id if sel else None
    st = [n for n in u.own_nodes() if isinstance(n, ast.Assign) and isinstance(n.targets[0], ast.Subscript) and is_name(n.targets[0].value, cache)]
    ctx.ob(len(st) == 1 and u in reach, u, 'the path memo is filled by one subscript store: %s' % [norm(s) for s in st])
    ev = [n for n in u.own_nodes() if isinstance(n, (ast.Delete,)) or (isinstance(n, ast.Call) and isinstance(n.func, ast.Attribute)
          and n.func.attr in ('clear', 'pop', 'popitem') and is_name(n.func.value, cache))]
    ctx.ob(not ev, u, 'the path memo never evicts (overflow bypasses it instead)', '%s' % [norm(e) for e in ev])
    # what a racing reader can observe: the entry is complete when stored (value built before the store)
    kids = [k.name for k in u.children if not k.is_lambda]
    ok = bool(st) and isinstance(st[0].value, ast.Call) and isinstance(st[0].value.func, ast.Name) and st[0].value.func.id in kids
    ctx.ob(ok, u, 'an entry is fully built before it becomes visible (store of create()\'s result)')
    gh = ctx.unit('core.TargetRegistry.get_handler')
    ctx.ob(gh in reach, gh, 'handler lookup is part of the evaluation closure')
    ctx.floor(5)


@rule('C20.3')
def default_scope_only_read(ctx):
    p = ctx.program
    reach, modes, evals = closure(ctx)
    uses = []
    for u in p.package_units():
        for n in u.own_nodes():
            if isinstance(n, ast.Name) and n.id == '_DEFAULT_SCOPE' and isinstance(n.ctx, ast.Load):
                uses.append((u, n))
    ctx.require(len(uses) >= 4, 'uses of _DEFAULT_SCOPE not found')
    for u, n in uses:
        par = parent(n)
        if u in reach:
            ok = (isinstance(par, ast.Attribute) and par.attr == 'new_child') or \
                 (isinstance(par, ast.Call) and isinstance(par.func, ast.Attribute) and par.func.attr == 'pop' and n in par.args)
            ctx.ob(ok, u, 'during evaluation the default scope is only read / used as parent of a new map: %s' % src(stmt_of(n), 70), node=n)
        else:
            ctx.ob(u.qualname in REGISTRATION or u.qualname == 'core.Glommer.__init__', u,
                   'outside evaluation the default scope is touched only by registration / Glommer construction: %s' % src(stmt_of(n), 70), node=n)
    # every call gets its own root map and every evaluation its own child map (C07.3 / C07.5)
    g = ctx.unit('core.glom')
    nc = [c for c in calls_in(g) if isinstance(c.func, ast.Attribute) and c.func.attr == 'new_child']
    ctx.ob(len(nc) == 1 and isinstance(nc[0].args[0], ast.Dict), g, 'each glom() call builds its own root map')
    e = ctx.unit('core._glom')
    nc = [c for c in calls_in(e) if isinstance(c.func, ast.Attribute) and c.func.attr == 'new_child']
    ctx.ob(len(nc) == 1 and isinstance(nc[0].args[0], ast.Dict), e, 'each evaluation builds its own child map')
    # no function-attribute or default-argument state in the closure
    for u in reach:
        for n in u.own_nodes():
            if isinstance(n, ast.Assign):
                for t in n.targets:
                    if isinstance(t, ast.Attribute) and isinstance(t.value, ast.Name):
                        d = p.resolve_name(u, t.value.id)
                        if d.kind == 'func':
                            ctx.ob(False, u, 'no function-attribute state: %s' % norm(n), node=n)
    ctx.floor(6)


@rule('C20.4')
def finalisation(ctx):
    p = ctx.program
    u = ctx.unit('core.GlomError._finalize')
    calls = {callee_qual(p, u, c) for c in calls_in(u)}
    ctx.ob('sys.exc_info' in calls and 'traceback.format_exc' in calls, u,
           'finalisation reads the current thread\'s exception state: %s' % sorted(c for c in calls if c.startswith(('sys.', 'traceback.'))))
    an = ctx.analysis
    effs = [e for e in an.all_effects() if e.unit is u]
    bad = [e for e in effs if any(t[0] in ('global', 'greach') or (t[0] in ('param', 'reach') and t[1] != 'self') for t in e.origins)]
    ctx.ob(not bad and len(effs) >= 2, u, 'and writes only the exception instance (%d stores)' % len(effs), '%s' % [e.text() for e in bad])
    su = ctx.unit('core.GlomError.__str__')
    effs = [e for e in an.all_effects() if e.unit is su]
    bad = [e for e in effs if any(t[0] in ('global', 'greach') for t in e.origins)]
    ctx.ob(not bad, su, 'rendering the message caches only on the exception instance')
    # the wrapper class for foreign exceptions is created per call, not cached in a module-level table
    wu = ctx.unit('core.GlomError.wrap')
    effs = [e for e in an.all_effects() if e.unit is wu]
    bad = [e for e in effs if any(t[0] in ('global', 'greach') for t in e.origins)]
    ctx.ob(not bad, wu, 'wrapping creates its class per call and caches nothing globally')
    ctx.floor(4)


@rule('C20.21')
def module_level_closures_hold_no_state(ctx):
    """a function built once at import time by a repo function (``bbrepr = guard(..)``) is shared
    by every call and every thread: the closure variables of the builder are process-wide state.
    They may not be mutated by the returned function (a recursion guard keyed by id(obj) alone
    makes one thread's rendering appear as '...' in another's)"""
    p = ctx.program
    n = 0
    for mod in p.modules.values():
        if mod.short in ('tutorial',):
            continue
        for st in mod.tree.body:
            if not isinstance(st, ast.Assign):
                continue
            for c in ast.walk(st.value):
                if not isinstance(c, ast.Call):
                    continue
                f = c.func
                q = None
                if isinstance(f, ast.Name):
                    d = p.resolve_global(mod, f.id)
                    q = getattr(d, 'qualname', None) if d is not None and getattr(d, 'kind', None) == 'function' else None
                    if q is None and d is not None and getattr(d, 'unit', None) is not None:
                        q = d.unit.qualname
                bu = p.find_unit(q) if q else None
                if bu is None or bu.cls is not None:
                    continue
                inner = [x for x in bu.children if not x.is_lambda or True]
                if not inner:
                    continue
                n += 1
                blocals = set(bu.locals) | set(bu.params)
                for iu in inner:
                    for x in iu.own_nodes():
                        tgt = None
                        if isinstance(x, ast.Call) and isinstance(x.func, ast.Attribute) and is_name(x.func.value) \
                                and x.func.attr in ('add', 'discard', 'remove', 'append', 'pop', 'clear', 'update', 'setdefault', 'extend', 'insert', 'popitem'):
                            tgt = x.func.value.id
                        elif isinstance(x, (ast.Subscript,)) and isinstance(x.ctx, (ast.Store, ast.Del)) and is_name(x.value):
                            tgt = x.value.id
                        elif isinstance(x, ast.Nonlocal):
                            tgt = x.names[0]
                        if tgt and tgt in blocals and tgt not in iu.locals and tgt not in iu.params:
                            ctx.ob(False, iu, 'a function built at import time does not mutate the variables of its builder: %s' % norm(x)[:60],
                                   '%s = %s(..) at module level: %s is shared by all calls and threads' % (norm(st.targets[0]), bu.qualname, tgt), node=x)
    ctx.ob(True, 'package', 'module-level values built by repo closures examined: %d' % n)
    ctx.floor(1)
