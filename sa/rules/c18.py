"""C18 -- T and Path are faithful values: repr, pickle and slicing round-trip."""
import ast
import math

from . import rule, info
from ..program import AnalysisError, src, norm, ClassInfo
from ..affine import linear, NotAffine
from ..util import (exclusive, flows_into, string_pieces, values_on, polarity, is_name, calls_in, callee_qual, deref, ancestors, stmt_of, parent, kwarg)
from .c01 import model
from .c02 import producers
from ..pattern import match, matches

info('C18',
     explanation='Static decision of: formatter exhaustiveness (every non-arithmetic op code a producer records '
                 'has a formatting branch rendering the producing syntax); the three root tables cover {T, S, A} '
                 'and the pickle pair are mutual inverses; the pickle state is the whole state (__slots__ has no '
                 'other slot; root tag + every step); immutability (op tuples / path_t are stored only on '
                 'objects allocated in the storing function, in constructors / __setstate__, or at module level '
                 'for the three roots); the integer index guard of Path.__getitem__ rejects exactly the indices '
                 'len() excludes (threshold extraction by affine normalisation with len(ops) = 2n+1); equality / '
                 'startswith compare the op tuples; Path flattening; slice scaling.',
     decided=['C18.1 formatter exhaustiveness', 'C18.2 root tables', 'C18.3 pickle state is the whole state',
              'C18.4 immutability', 'C18.5 index guard agrees with len', 'C18.6 sequence views', 'C18.7 Path flattening',
              'C18.8 slice scaling'],
     not_decided=['eval(repr(x)) equality (needs execution)', 'out-of-range slicing (the property claims in-range only)'])


def _slice_renderings(stmts, xp):
    """abstract interpretation of the string built by _format_slice: returns
    [(step_is_None | None, pieces, return node)] where pieces are constant strings and
    ('part', attr) for ``'' if x.attr is None else bbrepr(x.attr)``, ('shown', attr) for
    ``bbrepr(x.attr)``, ('?', text) for anything else"""
    outs = []

    def attr_of(e):
        if isinstance(e, ast.Attribute) and is_name(e.value, xp) and e.attr in ('start', 'stop', 'step'):
            return e.attr
        return None

    def none_test(t, env):
        """-> (attr, True when the test holds for None)"""
        if isinstance(t, ast.Compare) and len(t.ops) == 1 and isinstance(t.comparators[0], ast.Constant) \
                and t.comparators[0].value is None and isinstance(t.ops[0], (ast.Is, ast.IsNot)):
            left = t.left
            if is_name(left) and isinstance(env.get(left.id), tuple) and env[left.id][0] == 'attr':
                return env[left.id][1], isinstance(t.ops[0], ast.Is)
            a = attr_of(left)
            if a:
                return a, isinstance(t.ops[0], ast.Is)
        return None, None

    def ev(e, env, lambdas, assume):
        if isinstance(e, ast.Constant) and isinstance(e.value, str):
            return [e.value] if e.value else []
        if isinstance(e, ast.BinOp) and isinstance(e.op, ast.Add):
            return ev(e.left, env, lambdas, assume) + ev(e.right, env, lambdas, assume)
        if isinstance(e, ast.Name) and isinstance(env.get(e.id), list):
            return list(env[e.id])
        if isinstance(e, ast.JoinedStr):
            out = []
            for v in e.values:
                if isinstance(v, ast.FormattedValue):
                    if v.conversion != -1 and v.conversion != 115 or v.format_spec is not None:
                        out.append(('?', norm(v)))
                    else:
                        out += ev(v.value, env, lambdas, assume)
                else:
                    out += ev(v, env, lambdas, assume)
            return out
        if isinstance(e, ast.IfExp):
            a, holds_for_none = none_test(e.test, env)
            if a:
                if_none, if_set = (e.body, e.orelse) if holds_for_none else (e.orelse, e.body)
                if a in assume:
                    return ev(if_none if assume[a] else if_set, env, lambdas, assume)
                pn, ps = ev(if_none, env, lambdas, assume), ev(if_set, env, lambdas, assume)
                if pn == [] and ps == [('shown', a)]:
                    return [('part', a)]
            return [('?', norm(e))]
        if isinstance(e, ast.Call):
            if is_name(e.func, 'bbrepr') and len(e.args) == 1 and not e.keywords:
                a = attr_of(e.args[0])
                if a is None and is_name(e.args[0]) and isinstance(env.get(e.args[0].id), tuple):
                    a = env[e.args[0].id][1]
                if a:
                    return [('shown', a)]
            if is_name(e.func) and e.func.id in lambdas and len(e.args) == 1 and not e.keywords:
                lam = lambdas[e.func.id]
                a = attr_of(e.args[0])
                if a and len(lam.args.args) == 1:
                    env2 = dict(env)
                    env2[lam.args.args[0].arg] = ('attr', a)
                    return ev(lam.body, env2, lambdas, assume)
            if isinstance(e.func, ast.Attribute) and e.func.attr == 'join' and isinstance(e.func.value, ast.Constant) \
                    and isinstance(e.func.value.value, str) and len(e.args) == 1 \
                    and isinstance(e.args[0], (ast.List, ast.Tuple)):
                out = []
                for i, x in enumerate(e.args[0].elts):
                    if i and e.func.value.value:
                        out.append(e.func.value.value)
                    out += ev(x, env, lambdas, assume)
                return out
        if isinstance(e, ast.BinOp) and isinstance(e.op, ast.Mod) and isinstance(e.left, ast.Constant) \
                and isinstance(e.left.value, str):
            import re as _re
            args = list(e.right.elts) if isinstance(e.right, ast.Tuple) else [e.right]
            chunks = _re.split(r'(%s)', e.left.value)
            if sum(1 for c in chunks if c == '%s') == len(args) and '%' not in ''.join(c for c in chunks if c != '%s'):
                out = []
                for c in chunks:
                    if c == '%s':
                        out += ev(args.pop(0), env, lambdas, assume)
                    elif c:
                        out.append(c)
                return out
        return [('?', norm(e))]

    def run(stmts, env, lambdas, assume, depth=0):
        """returns True when every path through stmts returned"""
        for i, st in enumerate(stmts):
            if isinstance(st, ast.Assign) and len(st.targets) == 1 and is_name(st.targets[0]):
                if isinstance(st.value, ast.Lambda):
                    lambdas = dict(lambdas)
                    lambdas[st.targets[0].id] = st.value
                else:
                    env = dict(env)
                    env[st.targets[0].id] = ev(st.value, env, lambdas, assume)
                continue
            if isinstance(st, ast.AugAssign) and is_name(st.target) and isinstance(st.op, ast.Add) \
                    and isinstance(env.get(st.target.id), list):
                env = dict(env)
                env[st.target.id] = env[st.target.id] + ev(st.value, env, lambdas, assume)
                continue
            if isinstance(st, ast.Return):
                sn = assume.get('step')
                outs.append((sn, ev(st.value, env, lambdas, assume) if st.value is not None else [('?', 'None')], st))
                return True
            if isinstance(st, ast.If):
                a, holds_for_none = none_test(st.test, env)
                rest = stmts[i + 1:]
                branches = []
                if a and a in assume:
                    taken = st.body if assume[a] == holds_for_none else st.orelse
                    branches.append((taken, assume))
                elif a:
                    a1 = dict(assume)
                    a1[a] = holds_for_none
                    a2 = dict(assume)
                    a2[a] = not holds_for_none
                    branches += [(st.body, a1), (st.orelse, a2)]
                else:
                    outs.append((None, [('?', 'branch on ' + norm(st.test))], st))
                    return True
                done = True
                for body, asm in branches:
                    done = run(list(body) + rest, env, lambdas, asm, depth + 1) and done
                return done
            if isinstance(st, (ast.Expr, ast.Pass)) and not (isinstance(st, ast.Expr) and isinstance(st.value, ast.Call)):
                continue
            outs.append((None, [('?', norm(st))], st))
            return True
        if depth == 0 or True:
            outs.append((assume.get('step'), [('?', 'falls off the end')], stmts[-1] if stmts else None))
        return False

    run(stmts, {}, {}, {})
    return outs


def _resolve_step(pieces, step_none):
    out = []
    for pc in pieces:
        if pc == ('part', 'step'):
            if step_none:
                continue
            pc = ('shown', 'step')
        if isinstance(pc, str) and out and isinstance(out[-1], str):
            out[-1] += pc
        else:
            out.append(pc)
    return out



@rule('C18.1')
def formatter_exhaustive(ctx):
    p = ctx.program
    m, w = model(ctx)
    u = ctx.unit('core._format_t')
    from ..tinterp import dispatch_branches
    lp = [n for n in u.own_nodes() if isinstance(n, ast.While)]
    ctx.require(len(lp) == 1, '_format_t: step loop not found')
    from ..tinterp import find_fetch
    t = lp[0].test
    ff = find_fetch(lp[0].body, set(u.params), t.left.id) if isinstance(t, ast.Compare) and is_name(t.left) else None
    ctx.require(ff, '_format_t: `op, arg = path[i], path[i+1]` not found')
    opv, argv = ff[0], ff[1]
    elses = []
    brs = dispatch_branches(lp[0].body, opv, else_bodies=elses)
    handled = set()
    for b in brs:
        handled |= b.codes
    catch_all = any(not dispatch_branches(e, opv) for e in elses)
    codes = sorted({c for _, c, _ in producers(ctx)})
    structural = [c for c in codes if c in '.[(PxX']
    for c in structural:
        ctx.ob(c in handled, u, 'op code %r has its own formatting branch' % c,
               '' if c in handled else 'falls into the arithmetic else: rendered as a binary operator')
    for c in codes:
        ctx.ob(c in handled or catch_all, u, 'op code %r is rendered (no step is dropped from the repr)' % c)
    by = {}
    for b in brs:
        for c in b.codes:
            by.setdefault(c, b)
    # '.' -> '.' + arg
    b = by.get('.')
    ok = b is not None and len(b.body) == 1 and matches(b.body[0], "$pp.append('.' + %s)" % argv)
    ctx.ob(ok, u, "'.' renders as .name: %s" % ([norm(s) for s in b.body] if b else None))
    # '[' -> [index] with slices through _format_slice, tuples element-wise
    b = by.get('[')
    ok = False
    if b is not None:
        fs = [c for s in b.body for c in ast.walk(s) if isinstance(c, ast.Call) and callee_qual(p, u, c) == 'core._format_slice']
        js = [c for s in b.body for c in ast.walk(s) if isinstance(c, ast.JoinedStr)]
        ok = len(fs) == 2 and len(js) == 1 and norm(js[0]).startswith("f'[{") and norm(js[0]).endswith("}]'")
    ctx.ob(ok, u, "'[' renders as [index], slices via _format_slice (tuple indexes element-wise)")
    # '(' -> format_invocation(args=args, kwargs=kwargs, repr=bbrepr)
    b = by.get('(')
    ok = False
    if b is not None:
        fi = [c for s in b.body for c in ast.walk(s) if isinstance(c, ast.Call) and callee_qual(p, u, c) == 'core.format_invocation']
        un = [match(s_, '$a, $k = %s' % argv) for s_ in b.body]
        un = [x for x in un if x]
        ok = len(fi) == 1 and len(un) == 1 and {k.arg: norm(k.value) for k in fi[0].keywords} == \
            {'args': un[0]['a'], 'kwargs': un[0]['k'], 'repr': 'bbrepr'}
    ctx.ob(ok, u, "'(' renders as a call with its positional and keyword arguments")
    b = by.get('P')
    ok = b is not None and len(b.body) == 1 and isinstance(b.body[0], ast.Return) and callee_qual(p, u, b.body[0].value) == 'core._format_path'
    ctx.ob(ok, u, "a 'P' step switches to Path(...) notation for the whole expression")
    # _format_slice
    su = ctx.unit('core._format_slice')
    xp = su.params[0]
    guard = [n for n in su.node.body if isinstance(n, ast.If) and matches(n.test, 'type(%s) is not slice' % xp)
             and len(n.body) == 1 and isinstance(n.body[0], ast.Return) and matches(n.body[0].value, 'bbrepr(%s)' % xp)]
    ctx.ob(len(guard) == 1, su, 'indexes that are not slices render by bbrepr')
    rest = [st for st in su.node.body if st not in guard]
    outs = _slice_renderings(rest, xp)
    ctx.require(outs, '_format_slice: no rendering path found')
    want = {True: [('part', 'start'), ':', ('part', 'stop')],
            False: [('part', 'start'), ':', ('part', 'stop'), ':', ('shown', 'step')]}
    for step_none, pieces, node in outs:
        for sn in ([step_none] if step_none is not None else [True, False]):
            got = _resolve_step(pieces, sn)
            ok = got == want[sn]
            ctx.ob(ok, su, 'a slice with step %s renders as %s with None parts empty (0 and other falsy bounds kept)'
                   % ('None' if sn else 'given', 'start:stop' if sn else 'start:stop:step'),
                   '' if ok else 'renders as %s' % (got,), node=node)
    # _format_path: P args by repr, T chunks by _format_t
    fu = ctx.unit('core._format_path')
    jn = []
    for r in fu.own_nodes():
        if isinstance(r, ast.Return) and r.value is not None:
            pcs = string_pieces(deref(ctx.cfg(fu), ctx.cfg(fu).node_of(r), r.value))
            if pcs and len(pcs) == 3 and pcs[0] == ('lit', 'Path(') and pcs[2] == ('lit', ')') and pcs[1][0] == 'val' \
                    and pcs[1][2] == 's':
                j = deref(ctx.cfg(fu), ctx.cfg(fu).node_of(r), pcs[1][1])
                if matches(j, "', '.join($$x)"):
                    jn.append(r)
    ctx.ob(len(jn) == 1, fu, 'paths render as Path(<parts joined by comma>)')
    lc = [n for n in fu.own_nodes() if isinstance(n, (ast.ListComp, ast.GeneratorExp))]
    ok = len(lc) == 1 and isinstance(lc[0].elt, ast.IfExp) and not lc[0].generators[0].ifs
    if ok:
        b0 = match(lc[0].elt.body, '_format_t($pt)')
        ok = b0 is not None and matches(lc[0].elt.orelse, 'repr(%s)' % b0['pt']) and is_name(lc[0].generators[0].target, b0['pt'])
    ctx.ob(ok, fu, 'every part is rendered, T chunks as T expressions and path parts by repr: %s' % [norm(x) for x in lc])
    # T chunks are told from literal parts by being lists: a list cannot be a dict key, a tuple can
    if lc and isinstance(lc[0].elt, ast.IfExp):
        pol = polarity(lc[0].elt.test, 'type(%s) is list' % (b0['pt'] if ok and b0 else '$p'))
        ctx.ob(pol is not None, fu, 'chunks are recognised as `type(part) is list`: %s' % norm(lc[0].elt.test),
               '' if pol is not None else 'a literal path part of the marker type (e.g. a tuple key) would be rendered as a T chunk')
        accs = [n for n in fu.own_nodes() if isinstance(n, ast.Assign) and is_name(n.targets[0])
                and isinstance(n.value, (ast.List, ast.Tuple)) and not n.value.elts]
        ctx.ob(bool(accs) and all(isinstance(n.value, ast.List) for n in accs), fu,
               'the chunk and part accumulators are lists: %s' % [norm(n) for n in accs])
    ctx.floor(len(codes) + len(structural) + 7)


def _root_map(ctx, u, d):
    p = ctx.program
    out = {}
    for k, v in zip(d.keys, d.values):
        kk = p.global_qualname(u, k) if isinstance(k, ast.Name) else (k.value if isinstance(k, ast.Constant) else None)
        vv = p.global_qualname(u, v) if isinstance(v, ast.Name) else (v.value if isinstance(v, ast.Constant) else None)
        out[kk] = vv
    return out


@rule('C18.2')
def root_tables(ctx):
    maps = {}
    for q in ('core._format_t', 'core.TType.__getstate__', 'core.TType.__setstate__'):
        u = ctx.unit(q)
        ds = [n for n in u.own_nodes() if isinstance(n, ast.Dict) and len(n.keys) == 3]
        ctx.require(len(ds) == 1, '%s: root table not found' % q)
        maps[q] = _root_map(ctx, u, ds[0])
    roots = {'core.T', 'core.S', 'core.A'}
    f, g, s = maps['core._format_t'], maps['core.TType.__getstate__'], maps['core.TType.__setstate__']
    ctx.ob(set(f) == roots and set(f.values()) == {'T', 'S', 'A'} and all(k == 'core.' + v for k, v in f.items()), 'core._format_t',
           'the formatter names each root by its own letter: %s' % f)
    ctx.ob(set(g) == roots and len(set(g.values())) == 3, 'core.TType.__getstate__', 'pickling tags all three roots distinctly: %s' % g)
    inv = {v: k for k, v in g.items()}
    ctx.ob(s == inv, 'core.TType.__setstate__', 'unpickling is the inverse table: %s' % s)
    ctx.floor(3)


@rule('C18.3')
def pickle_state(ctx):
    m, w = model(ctx)
    c = ctx.cls('core.TType')
    sl = c.attrs.get('__slots__')
    ok = bool(sl) and isinstance(sl[0], ast.Tuple) and [e.value for e in sl[0].elts] == ['__ops__']
    ctx.ob(ok, c, 'the op tuple is the only slot: %s' % [norm(x) for x in sl or []])
    gu = ctx.unit('core.TType.__getstate__')
    r = [n for n in gu.node.body if isinstance(n, ast.Return)]
    ok = len(r) == 1
    if ok:
        v = r[0].value
        if isinstance(v, ast.Call) and is_name(v.func, 'tuple'):
            v = v.args[0]
        ok = isinstance(v, ast.BinOp) and isinstance(v.op, ast.Add) and isinstance(v.left, ast.Tuple) and len(v.left.elts) == 1 \
            and isinstance(v.right, ast.Subscript) and isinstance(v.right.slice, ast.Slice) and v.right.slice.upper is None \
            and isinstance(v.right.slice.lower, ast.Constant) and v.right.slice.lower.value == w.offset and v.right.slice.step is None
        if ok:
            tag = v.left.elts[0]
            ok = isinstance(tag, ast.Subscript) and isinstance(tag.slice, ast.Subscript) and isinstance(tag.slice.slice, ast.Constant) \
                and tag.slice.slice.value == 0
    ctx.ob(ok, gu, 'state = (root tag of ops[0],) + every step: %s' % [norm(x) for x in r])
    su = ctx.unit('core.TType.__setstate__')
    st = [n for n in su.node.body if isinstance(n, ast.Assign) and isinstance(n.targets[0], ast.Attribute)]
    ok = len(st) == 1 and isinstance(st[0].targets[0], ast.Attribute) and st[0].targets[0].attr == '__ops__' and is_name(st[0].targets[0].value, 'self')
    if ok:
        v = st[0].value
        ok = isinstance(v, ast.BinOp) and isinstance(v.left, ast.Tuple) and len(v.left.elts) == 1 and isinstance(v.right, ast.Subscript) \
            and is_name(v.right.value, su.params[1]) and isinstance(v.left.elts[0], ast.Subscript) \
            and isinstance(v.right.slice, ast.Slice) and isinstance(v.right.slice.lower, ast.Constant) \
            and v.right.slice.lower.value == w.offset and v.right.slice.upper is None and v.right.slice.step is None \
            and norm(v.left.elts[0].slice) == '%s[0]' % su.params[1]
    ctx.ob(ok, su, 'restored ops = (root for state[0],) + every step: %s' % [norm(x) for x in st])
    ctx.floor(3)


@rule('C18.4')
def immutability(ctx):
    p = ctx.program
    an = ctx.analysis
    n_ops = n_pt = 0
    for u in p.package_units():
        fl = None
        for n in u.own_nodes():
            if not isinstance(n, (ast.Assign, ast.AugAssign)):
                continue
            tg = n.targets if isinstance(n, ast.Assign) else [n.target]
            for t in tg:
                if isinstance(t, ast.Attribute) and t.attr in ('__ops__', 'path_t'):
                    fl = fl or an.flow(u)
                    toks = fl.orig_at(t.value)
                    fresh_only = all(k[0] in ('fresh', 'const') for k in toks) and any(k[0] == 'fresh' for k in toks)
                    top = u
                    while top.parent is not None:
                        top = top.parent
                    in_ctor = top.name in ('__init__', '__setstate__', '__new__') and is_name(t.value, top.self_name())
                    ok = fresh_only or in_ctor
                    if t.attr == '__ops__':
                        n_ops += 1
                    else:
                        n_pt += 1
                    ctx.ob(ok, u, '%s is stored only on an object allocated here or being constructed: %s' % (t.attr, norm(n)),
                           '' if ok else 'a T / Path that may be shared is modified in place', node=n)
    # module level: the three roots
    mod = p.modules['glom.core']
    roots = [st for st in mod.tree.body if isinstance(st, ast.Assign) and isinstance(st.targets[0], ast.Attribute) and st.targets[0].attr == '__ops__']
    ok = len(roots) == 3 and all(isinstance(st.value, ast.Tuple) and len(st.value.elts) == 1 and norm(st.value.elts[0]) == norm(st.targets[0].value) for st in roots)
    ctx.ob(ok, 'glom/core.py', 'each root\'s op tuple is (itself,): %s' % [norm(r) for r in roots])
    # no mutator is ever applied to an op tuple (tuples are immutable; a list would not be)
    w = ctx.shared.get('writer') or model(ctx)[1]
    ctx.ob(bool(w.tuple_elts), w.unit, 'steps are appended by tuple concatenation (a new tuple per child)')
    if n_ops < 5 or n_pt < 1:
        raise AnalysisError('C18.4: found %d __ops__ and %d path_t stores (floors 5 / 1)' % (n_ops, n_pt))
    # TType has no __setattr__/__delattr__ loophole beyond slots; T attributes starting with __ are reserved
    ctx.floor(8)


def _threshold(op, lhs, rhs):
    """lhs = (a, b) in i ; rhs = (c, d) in n ; both with coefficient 2 after
    substitution: returns k such that the comparison holds iff i >= n + k
    (for > / >=) or iff i <= n + k (for < / <=)"""
    a, b = lhs
    c, d = rhs
    if a != c or a <= 0:
        raise NotAffine('coefficients differ')
    diff = d - b
    if isinstance(op, ast.Gt):
        return ('ge', math.floor(diff / a) + 1)
    if isinstance(op, ast.GtE):
        return ('ge', math.ceil(diff / a))
    if isinstance(op, ast.Lt):
        return ('le', math.ceil(diff / a) - 1)
    if isinstance(op, ast.LtE):
        return ('le', math.floor(diff / a))
    raise NotAffine('unsupported comparison')


@rule('C18.5')
def index_guard(ctx):
    m, w = model(ctx)
    S, O = w.stride, w.offset
    u = ctx.unit('core.Path.__getitem__')
    cfg = ctx.cfg(u)
    idx = u.params[1]
    hs = [n for n in cfg.nodes if n.kind == 'handler']
    ctx.require(len(hs) == 1, 'Path.__getitem__: integer branch (except AttributeError) not found')
    h = hs[0].ast
    starts = [n for n in h.body if isinstance(n, ast.Assign) and is_name(n.targets[0]) and isinstance(n.value, ast.IfExp)]
    guards = [n for n in h.body if isinstance(n, ast.If) and isinstance(n.body[0], ast.Raise)]
    ctx.require(starts and len(guards) == 1, 'Path.__getitem__: start computation / guard not found')
    st = starts[0]
    sv = st.targets[0].id
    opsv = None
    for n in u.node.body:
        if isinstance(n, ast.Assign) and isinstance(n.value, ast.Attribute) and n.value.attr == '__ops__':
            opsv = n.targets[0].id
    ctx.require(opsv, 'Path.__getitem__: op tuple variable not found')

    def sub_len(e):
        # replace len(ops) by __L__
        if isinstance(e, ast.Call) and is_name(e.func, 'len') and is_name(e.args[0], opsv):
            return ast.Name(id='__L__', ctx=ast.Load())
        if isinstance(e, ast.BinOp):
            return ast.BinOp(left=sub_len(e.left), op=e.op, right=sub_len(e.right))
        return e
    ife = st.value
    ok = isinstance(ife.test, ast.Compare) and is_name(ife.test.left, idx) and isinstance(ife.test.ops[0], ast.GtE) \
        and isinstance(ife.test.comparators[0], ast.Constant) and ife.test.comparators[0].value == 0
    ctx.ob(ok, u, 'non-negative and negative indexes are scaled separately: %s' % norm(ife.test))
    # symbolic: i, n with L = S*n + O
    try:
        pos = linear(sub_len(ife.body), {idx: (1, 0), '__L__': (0, 0)})            # in i (L absent)
        neg_i = linear(sub_len(ife.orelse), {idx: (1, 0), '__L__': (0, 0)})        # i part
        neg_n = linear(sub_len(ife.orelse), {idx: (0, 0), '__L__': (S, O)})        # n part
    except NotAffine as e:
        raise AnalysisError('C18.5: start expression not affine: %s' % e)
    ctx.ob(pos == (S, O), u, 'index i >= 0 starts at op position %d*i + %d: %s' % (S, O, norm(ife.body)))
    ctx.ob(neg_i == (S, 0) and neg_n == (S, O), u, 'index i < 0 starts at %d*i + len(ops): %s' % (S, norm(ife.orelse)))
    # guard: a disjunction of linear comparisons over the index i and the path length n, whatever
    # they are written in (the scaled start, len(ops), len(self), i itself; ``not (a < i < b)``)
    selfn = u.params[0]

    def lin(e, region):
        """(a, b, c) with e == a*i + b*n + c in the given region ('pos': i >= 0, 'neg': i < 0)"""
        if isinstance(e, ast.Constant) and isinstance(e.value, int) and not isinstance(e.value, bool):
            return (0, 0, e.value)
        if is_name(e, idx):
            return (1, 0, 0)
        if is_name(e, sv):
            body = ife.body if region == 'pos' else ife.orelse
            return lin(body, region)
        if isinstance(e, ast.Call) and is_name(e.func, 'len') and len(e.args) == 1:
            if is_name(e.args[0], opsv):
                return (0, S, O)
            if is_name(e.args[0], selfn):
                return (0, 1, 0)
        if isinstance(e, ast.UnaryOp) and isinstance(e.op, ast.USub):
            x = lin(e.operand, region)
            return (-x[0], -x[1], -x[2])
        if isinstance(e, ast.BinOp) and isinstance(e.op, (ast.Add, ast.Sub)):
            x, y = lin(e.left, region), lin(e.right, region)
            sgn = 1 if isinstance(e.op, ast.Add) else -1
            return (x[0] + sgn * y[0], x[1] + sgn * y[1], x[2] + sgn * y[2])
        if isinstance(e, ast.BinOp) and isinstance(e.op, ast.Mult):
            x, y = lin(e.left, region), lin(e.right, region)
            if x[0] == 0 and x[1] == 0:
                return (x[2] * y[0], x[2] * y[1], x[2] * y[2])
            if y[0] == 0 and y[1] == 0:
                return (y[2] * x[0], y[2] * x[1], y[2] * x[2])
        raise NotAffine(src(e))

    NEG = {ast.Lt: ast.GtE, ast.LtE: ast.Gt, ast.Gt: ast.LtE, ast.GtE: ast.Lt}

    def atoms_of(t, negated=False):
        """the guard as a disjunction of (op, left, right)"""
        if isinstance(t, ast.UnaryOp) and isinstance(t.op, ast.Not):
            return atoms_of(t.operand, not negated)
        if isinstance(t, ast.BoolOp):
            if isinstance(t.op, ast.Or) != negated:        # Or, or a negated And: a disjunction
                return [x for v in t.values for x in atoms_of(v, negated)]
            raise AnalysisError('C18.5: unsupported guard term %s' % src(t))
        if isinstance(t, ast.Compare) and all(type(o) in NEG for o in t.ops):
            parts = []
            left = t.left
            for o, r in zip(t.ops, t.comparators):
                parts.append((NEG[type(o)] if negated else type(o), left, r))
                left = r
            if len(parts) > 1 and not negated:
                raise AnalysisError('C18.5: unsupported guard term %s' % src(t))    # a conjunction
            return parts
        raise AnalysisError('C18.5: unsupported guard term %s' % src(t))
    g = guards[0].test
    upper = lower = None
    try:
        for region in ('pos', 'neg'):
            for op, L_, R_ in atoms_of(g):
                x, y = lin(L_, region), lin(R_, region)
                d = (x[0] - y[0], x[1] - y[1], x[2] - y[2])
                # as  a*i + b*n + c >= 0  over the integers
                if op is ast.GtE:
                    a_, b_, c_ = d
                elif op is ast.Gt:
                    a_, b_, c_ = d[0], d[1], d[2] - 1
                elif op is ast.LtE:
                    a_, b_, c_ = -d[0], -d[1], -d[2]
                else:
                    a_, b_, c_ = -d[0], -d[1], -d[2] - 1
                if region == 'pos':
                    if a_ > 0 and b_ == -a_:
                        k = math.ceil(-c_ / a_)
                        upper = ('ge', k if upper is None else min(k, upper[1]))
                    elif a_ <= 0 and b_ <= 0 and c_ <= 0:
                        pass        # never true for i >= 0, n >= 0 (or only at i = n = 0, where i >= n holds anyway)
                    else:
                        raise AnalysisError('C18.5: unsupported guard term (%d*i + %d*n + %d >= 0 for i >= 0)' % (a_, b_, c_))
                else:
                    if a_ < 0 and b_ == a_:
                        k = math.floor(c_ / -a_)
                        lower = ('le', k if lower is None else max(k, lower[1]))
                    elif a_ >= 0 and b_ <= 0 and c_ <= 0 and (a_ > 0 or c_ < 0 or b_ < 0 and False):
                        pass        # never true for i <= -1, n >= 0
                    else:
                        raise AnalysisError('C18.5: unsupported guard term (%d*i + %d*n + %d >= 0 for i < 0)' % (a_, b_, c_))
    except NotAffine as e:
        raise AnalysisError('C18.5: guard not affine: %s' % e)
    ok = upper == ('ge', 0)
    ctx.ob(ok, u, 'the guard rejects exactly i >= len(path) for non-negative i: %s' % norm(g),
           '' if ok else 'with len(ops) = %d*n + %d the guard rejects i >= n + %s; index n (one past the end) is accepted and '
           'yields an empty Path instead of IndexError' % (S, O, upper[1] if upper else '?'), node=guards[0])
    ok = lower == ('le', -1)
    ctx.ob(ok, u, 'the guard rejects exactly i < -len(path) for negative i: %s' % norm(g),
           '' if ok else 'rejects i <= -n + %s' % (lower[1] if lower else '?'), node=guards[0])
    r = guards[0].body[0]
    ctx.ob(norm(r.exc.func) == 'IndexError', u, 'out-of-range indexes raise IndexError (like a tuple)')
    # stop = start + one step
    stops = [n for n in h.body if isinstance(n, ast.Assign) and is_name(n.targets[0]) and isinstance(n.value, ast.IfExp) and n is not st]
    ok = len(stops) == 1 and isinstance(stops[0].value, ast.IfExp)
    if ok:
        try:
            p2 = linear(sub_len(stops[0].value.body), {idx: (1, 0), '__L__': (0, 0)})
            n2 = linear(sub_len(stops[0].value.orelse), {idx: (1, 0), '__L__': (0, 0)})
            ok = p2 == (S, O + S) and n2 == (S, S)
        except NotAffine:
            ok = False
    ctx.ob(ok, u, 'an integer index selects exactly one (op, arg) step: %s' % [norm(s) for s in stops])
    ctx.floor(7)


@rule('C18.6')
def sequence_views(ctx):
    p = ctx.program
    u = ctx.unit('core.Path.__eq__')
    from ..util import decision_function, Undecidable
    import itertools
    other = u.params[1]
    P, T_ = 'type(%s) is Path' % other, 'type(%s) is TType' % other
    want = {(True, False): 'self.path_t.__ops__ == %s.path_t.__ops__' % other,
            (False, True): 'self.path_t.__ops__ == %s.__ops__' % other, (False, False): 'False'}
    try:
        atoms, decide = decision_function(u)
        ok = set(atoms) == {P, T_}
        got = {}
        if ok:
            for k in want:
                got[k] = decide({P: k[0], T_: k[1]})
                ok = ok and got[k] == ('return', want[k])
        detail = '' if ok else 'conditions %s, outcomes %s' % (atoms, got)
    except Undecidable as e:
        ok, detail = False, 'not a decision over the type of the other operand: %s' % e
    ctx.ob(ok, u, 'a Path equals a Path / T expression with the same op tuple', detail)
    ctx.ob(ok, u, 'and nothing else', detail)
    nu = ctx.unit('core.Path.__ne__')
    ctx.ob(norm(nu.node.body[-1]) == 'return not self == other', nu, '!= is the negation of ==')
    su = ctx.unit('core.Path.startswith')
    scfg = ctx.cfg(su)
    r = [n for n in su.own_nodes() if isinstance(n, ast.Return) and not (isinstance(n.value, ast.Constant))]
    ok = len(r) == 1
    if ok:
        b = match(r[0].value, 'self.path_t.__ops__[:len($o)] == $o')
        ok = b is not None
        if ok:
            ds = [v for _, v in scfg.reaching_defs(scfg.node_of(r[0]), b['o'])]
            ok = bool(ds) and all(isinstance(v, ast.Attribute) and v.attr == '__ops__' for v in ds)
    ctx.ob(ok, su, 'startswith compares the op-tuple prefix: %s' % [norm(x) for x in r])
    iu = ctx.unit('core.Path.items')
    r = [n for n in iu.node.body if isinstance(n, ast.Return)]
    ok = len(r) == 1 and isinstance(r[0].value, ast.Call) and is_name(r[0].value.func, 'tuple') and isinstance(r[0].value.args[0], ast.Call) \
        and is_name(r[0].value.args[0].func, 'zip')
    ctx.ob(ok, iu, 'items() pairs each op with its argument, as a tuple')
    # values() / items() are projections of the same step sequence __len__ and __getitem__ expose:
    # one entry per step, in position -- no step is filtered out or rewritten
    from ..util import expand_locals
    for q, shapes in (('core.Path.values', ('self.path_t.__ops__[2::2]', 'tuple(self.path_t.__ops__[2::2])')),
                      ('core.Path.items', ('tuple(zip(self.path_t.__ops__[1::2], self.path_t.__ops__[2::2]))',))):
        vu = ctx.unit(q)
        vcfg = ctx.cfg(vu)
        rr = [n for n in vu.own_nodes() if isinstance(n, ast.Return)]
        class _IdComp(ast.NodeTransformer):
            # [x for x in S] / (x for x in S), unfiltered: S itself as far as tuple() is concerned
            def visit_Call(self, c):
                self.generic_visit(c)
                if is_name(c.func, 'tuple') and len(c.args) == 1 and isinstance(c.args[0], (ast.ListComp, ast.GeneratorExp)):
                    g = c.args[0]
                    if len(g.generators) == 1 and not g.generators[0].ifs and is_name(g.generators[0].target) \
                            and is_name(g.elt, g.generators[0].target.id):
                        c.args[0] = g.generators[0].iter
                return c
        shown = [norm(_IdComp().visit(expand_locals(vcfg, vcfg.node_of(n), n.value))) if n.value is not None else 'None' for n in rr]
        shapes = tuple(s_.replace('self', vu.params[0]) for s_ in shapes)
        ok = bool(rr) and all(s_ in shapes for s_ in shown)
        ctx.ob(ok, vu, '%s() has one entry per step, in step order: %s' % (vu.name, shown),
               '' if ok else 'not the plain stride-2 projection of the op tuple (%s): it no longer lines up with len() / indexing'
               % ' / '.join(shapes))
    fu = ctx.unit('core.Path.from_t')
    st = [n for n in fu.own_nodes() if isinstance(n, ast.Assign) and isinstance(n.targets[0], ast.Attribute) and n.targets[0].attr == '__ops__']
    fcfg = ctx.cfg(fu)
    sv = deref(fcfg, fcfg.node_of(st[0]), st[0].value) if len(st) == 1 else None
    ok = sv is not None and matches(sv, '(T,) + $tp[1:]')
    if ok:
        tp = match(sv, '(T,) + $tp[1:]')['tp']
        ok = any(matches(n, '%s = self.path_t.__ops__' % tp) for n in fu.node.body if isinstance(n, ast.Assign))
    ctx.ob(ok, fu, 'from_t re-roots the same steps at T: %s' % [norm(s_) for s_ in st])
    gu = ctx.unit('core.Path.glomit')
    r = [n for n in gu.node.body if isinstance(n, ast.Return)]
    ok = len(r) == 1 and norm(r[0].value) == '_t_eval(%s, self.path_t, %s)' % (gu.params[1], gu.params[2])
    ctx.ob(ok, gu, 'a Path is evaluated as its T expression')
    ctx.floor(7)


@rule('C18.7')
def path_flattening(ctx):
    p = ctx.program
    m, w = model(ctx)
    u = ctx.unit('core.Path.__init__')
    cfg = ctx.cfg(u)
    parts = u.vararg
    lp = [n for n in u.own_nodes() if isinstance(n, ast.For)]
    ctx.require(len(lp) == 1, 'Path.__init__: part loop not found')
    # base and parts consumed, case by case: no parts / a leading T expression / any other first
    # part.  The statements before the loop are followed with the tests on the argument tuple
    # decided (if/else, default-then-override, offset variable, early return ... are all the same)
    from ..util import case_paths
    fins = [n for n in u.own_nodes() if isinstance(n, ast.Assign) and matches(n, 'self.path_t = $pt') and n not in list(ast.walk(lp[0]))]
    named = [n for n in fins if is_name(n.value)]
    ptv = named[-1].value.id if named else None
    ctx.require(ptv is not None, 'Path.__init__: running T expression not found')
    LEAD = 'isinstance(%s[0], TType)' % parts

    def decider(case):
        def decide(t):
            if isinstance(t, ast.BoolOp):
                vals = [decide(v) for v in t.values]
                if isinstance(t.op, ast.And):
                    return False if False in vals else (True if all(v is True for v in vals) else None)
                return True if True in vals else (False if all(v is False for v in vals) else None)
            if isinstance(t, ast.UnaryOp) and isinstance(t.op, ast.Not):
                v = decide(t.operand)
                return None if v is None else not v
            txt = norm(t)
            if txt in (parts, 'len(%s)' % parts, 'len(%s) > 0' % parts, 'len(%s) >= 1' % parts):
                return case != 'none'
            if txt == LEAD:
                return None if case == 'none' else case == 'lead'
            return None
        return decide
    want = {'lead': ('%s[0]' % parts, ('%s[1:]' % parts,)),
            'other': ('T', (parts, '%s[0:]' % parts, '%s[:]' % parts)),
            'none': ('T', (parts, '%s[0:]' % parts, '%s[1:]' % parts, '%s[:]' % parts))}
    verdict = {}
    for case in ('none', 'lead', 'other'):
        outs, subst = case_paths(u.node.body, decider(case), stop=lambda st: st is lp[0])
        good = bool(outs)
        shown = []
        for kind, e, st, env in outs:
            if kind == 'stop':
                base = norm(subst(ast.Name(id=ptv, ctx=ast.Load()), env))
                it = norm(subst(lp[0].iter, env))
                shown.append('%s + %s' % (base, it))
                good = good and base == want[case][0] and it in want[case][1]
            elif kind in ('return', 'fall') and case == 'none':
                stored = env.get('%s.path_t' % u.params[0])
                shown.append('stored %s' % (norm(stored) if stored is not None else None))
                good = good and stored is not None and norm(stored) == 'T'
            elif kind == 'raise' and case == 'none' and False:
                pass
            else:
                shown.append(kind)
                good = False
        verdict[case] = (good, shown)
    ctx.ob(verdict['lead'][0] and verdict['other'][0], u,
           'all parts after an optional leading T are consumed in order: %s / %s' % (verdict['lead'][1], verdict['other'][1]))
    ctx.ob(verdict['lead'][0] and verdict['other'][0], u, 'a leading T expression is the base, otherwise T itself')
    calls = [c for c in calls_in(u) if callee_qual(p, u, c) == 'core._t_child']
    ctx.ob(len(calls) == 2, u, 'two ways to extend: splice a recorded step, or add a path step')
    sp = [c for c in calls if isinstance(c.args[1], ast.Subscript)]
    pp = [c for c in calls if isinstance(c.args[1], ast.Constant)]
    bs = match(sp[0], '_t_child(%s, $$sub[$i], $$sub[$i + 1])' % ptv) if len(sp) == 1 else None
    ctx.ob(bs is not None, u, 'spliced steps keep their op and argument: %s' % [norm(c) for c in sp])
    ok = len(pp) == 1 and pp[0].args[1].value == 'P' and is_name(lp[0].target) and is_name(pp[0].args[2], lp[0].target.id) and is_name(pp[0].args[0], ptv)
    ctx.ob(ok, u, "any other part becomes a 'P' step holding the part itself: %s" % [norm(c) for c in pp])
    for c in calls:
        st = stmt_of(c)
        ctx.ob(isinstance(st, ast.Assign) and is_name(st.targets[0], ptv), u, 'the extended expression replaces the running one: %s' % norm(st))
    g = [n for n in ast.walk(lp[0]) if isinstance(n, ast.If) and 'is not T' in norm(n.test)]
    ok = len(g) == 1 and isinstance(g[0].body[0], ast.Raise)
    ctx.ob(ok, u, 'only T-rooted expressions can be spliced')
    wl = [n for n in ast.walk(lp[0]) if isinstance(n, ast.While)]
    ok = len(wl) == 1 and bs is not None and matches(wl[0].test, '%s < len(%s)' % (bs['i'], norm(bs['sub'])))
    ctx.ob(ok, u, 'every step of a spliced expression is copied: %s' % [norm(x.test) for x in wl])
    fin = u.node.body[-1]
    ctx.ob(ptv is not None and matches(fin, 'self.path_t = %s' % ptv), u, 'the result is stored once, at the end')
    ctx.ob(verdict['none'][0], u, 'Path() is T: %s' % verdict['none'][1])
    tu = ctx.unit('core._t_child')
    news = [c for c in calls_in(tu) if callee_qual(p, tu, c) == 'core.TType']
    r = [n for n in tu.node.body if isinstance(n, ast.Return)]
    ok = len(news) == 1 and len(r) == 1 and is_name(r[0].value, stmt_of(news[0]).targets[0].id)
    ctx.ob(ok, tu, 'every step yields a new T object')
    ctx.floor(11)


@rule('C18.8')
def slice_scaling(ctx):
    m, w = model(ctx)
    S, O = w.stride, w.offset
    u = ctx.unit('core.Path.__getitem__')
    idx = u.params[1]
    tr = [n for n in u.own_nodes() if isinstance(n, ast.Try)]
    ctx.require(len(tr) == 1, 'Path.__getitem__: slice branch not found')
    body = tr[0].body
    roles = {}
    for n in body:
        if isinstance(n, ast.Assign) and is_name(n.targets[0]):
            if matches(n.value, '%s.step' % idx):
                roles['step'] = n.targets[0].id
            b = match(n.value, '%s.start if %s.start is not None else $$d' % (idx, idx))
            if b:
                roles['start'] = n.targets[0].id
                roles['start_default'] = b['d']
            if matches(n.value, '%s.stop' % idx):
                roles['stop'] = n.targets[0].id
    ctx.require({'step', 'start', 'stop'} <= set(roles), 'Path.__getitem__: slice parts not found: %s' % sorted(roles))
    opsv = None
    for n in u.node.body:
        if isinstance(n, ast.Assign) and isinstance(n.value, ast.Attribute) and n.value.attr == '__ops__' and is_name(n.targets[0]):
            opsv = n.targets[0].id

    def scaled(name):
        out = []
        for n in body:
            for x in ast.walk(n):
                if isinstance(x, ast.Assign) and is_name(x.targets[0], name) and isinstance(x.value, ast.IfExp) \
                        and isinstance(x.value.test, ast.Compare) and isinstance(x.value.test.ops[0], ast.GtE):
                    out.append(x.value)
        return out
    for role in ('start', 'stop'):
        name = roles[role]
        es = scaled(name)
        ok = len(es) == 1
        if ok:
            try:
                t0 = es[0].test
                ok = is_name(t0.left, name) and isinstance(t0.comparators[0], ast.Constant) and t0.comparators[0].value == 0
                ok = ok and linear(es[0].body, {name: (1, 0)}) == (S, O)
                neg = es[0].orelse
                ok = ok and isinstance(neg, ast.BinOp) and isinstance(neg.op, ast.Add) and linear(neg.left, {name: (1, 0)}) == (S, 0) \
                    and matches(neg.right, 'len(%s)' % opsv)
            except NotAffine:
                ok = False
        ctx.ob(ok, u, 'slice %s k maps to op position %d*k + %d (from the end: %d*k + len(ops))' % (role, S, O, S), node=es[0] if es else None)
    ctx.ob(norm(roles['start_default']) == '0', u, 'a missing start means 0')
    g = [n for n in body if isinstance(n, ast.If) and matches(n.test, '%s is not None' % roles['stop'])]
    ctx.ob(len(g) == 1, u, 'a missing stop stays open-ended')
    st = [n for n in u.node.body if isinstance(n, ast.Assign) and isinstance(n.targets[0], ast.Attribute) and n.targets[0].attr == '__ops__']
    b = match(st[0].value, '(%s[0],) + $np' % opsv) if len(st) == 1 else None
    ctx.ob(b is not None, u, 'the result keeps the root and the selected steps: %s' % [norm(s_) for s_ in st])
    npv = b['np'] if b else None
    sel = [n for n in u.node.body if isinstance(n, ast.Assign) and is_name(n.targets[0], npv) and isinstance(n.value, ast.Subscript)]
    ok = len(sel) == 1 and matches(sel[0].value, '%s[%s:%s]' % (opsv, roles['start'], roles['stop']))
    ctx.ob(ok, u, 'steps are selected by one contiguous slice of the op tuple')
    stp = [n for n in ast.walk(u.node) if isinstance(n, ast.If) and matches(n.test, '%s is not None and %s != 1' % (roles['step'], roles['step']))]
    ok = len(stp) == 1 and (
        len(stp[0].body) == 2 and
        matches(stp[0].body[0], '%s = tuple(zip(%s[::%d], %s[1::%d]))[::%s]' % (npv, npv, S, npv, S, roles['step']))
        and matches(stp[0].body[1], '%s = sum(%s, ())' % (npv, npv))
        or len(stp[0].body) == 1 and
        matches(stp[0].body[0], '%s = sum(tuple(zip(%s[::%d], %s[1::%d]))[::%s], ())' % (npv, npv, S, npv, S, roles['step'])))
    ctx.ob(ok, u, 'a step regroups (op, arg) pairs before striding, then flattens them again')
    r = [n for n in u.node.body if isinstance(n, ast.Return)]
    ok = len(r) == 1 and st and isinstance(r[0].value, ast.Call) and callee_qual(ctx.program, u, r[0].value) == 'core.Path' \
        and is_name(r[0].value.args[0]) and is_name(st[0].targets[0].value, r[0].value.args[0].id)
    ctx.ob(ok, u, 'indexing and slicing return a new Path')
    ctx.floor(8)


PICKLE_PROTOCOL = ('__reduce__', '__reduce_ex__', '__getnewargs__', '__getnewargs_ex__', '__getstate__', '__setstate__',
                   '__copy__', '__deepcopy__')


@rule('C18.11')
def pickle_protocol_complete(ctx):
    """pickling / copying goes through the default object protocol (the whole instance state)
    except where TType maps its root to a name; any further protocol method on Path / TType
    must hand over the complete recorded state -- the op tuple or the T expression holding it --
    not a projection of it (values(), items(), a repr)"""
    p = ctx.program
    n = 0
    for cq, state in (('core.Path', 'path_t'), ('core.TType', '__ops__')):
        cls = ctx.cls(cq)
        for name in PICKLE_PROTOCOL:
            if not cls.defines(name):
                continue
            u = cls.methods[name]
            n += 1
            if name == '__setstate__':
                st = [x for x in u.own_nodes() if isinstance(x, ast.Assign) and isinstance(x.targets[0], ast.Attribute)
                      and x.targets[0].attr == state and is_name(x.targets[0].value, u.params[0])]
                ctx.ob(len(st) >= 1, u, '%s.%s restores %s' % (cls.name, name, state))
                continue
            rets = [r for r in u.own_nodes() if isinstance(r, ast.Return) and r.value is not None]
            def reads_state(e):
                return any(isinstance(x, ast.Attribute) and x.attr == state and is_name(x.value, u.params[0])
                           and not (isinstance(parent(x), ast.Attribute) and parent(x).attr in ('values', 'items'))
                           for x in ast.walk(e))
            # locals initialised from the state (``t_path = self.__ops__``) stand for it
            state_locals = {x.targets[0].id for x in u.own_nodes() if isinstance(x, ast.Assign) and is_name(x.targets[0])
                            and reads_state(x.value)}
            whole = [r for r in rets if reads_state(r.value) or (flows_into(u, [r.value]) & state_locals)]
            lossy = [r for r in rets if any(isinstance(x, ast.Call) and isinstance(x.func, ast.Attribute)
                                            and x.func.attr in ('values', 'items', '__repr__', '__len__')
                                            for x in ast.walk(r.value))]
            ok = bool(rets) and len(whole) == len(rets) and not lossy
            ctx.ob(ok, u, '%s.%s hands over the complete state (%s): %s' % (cls.name, name, state, [norm(r) for r in rets]),
                   '' if ok else 'the pickled / copied form is a projection of the op tuple: step kinds or the root are lost')
    ctx.floor(2)


@rule('C18.12')
def builtin_names_only_for_opaque_reprs(ctx):
    """bbrepr substitutes a builtin's *name* only when the ordinary repr is not a literal (it
    starts with ``<``); looked up first, the id-keyed table also catches interned literals that
    happen to be builtins' values (``''`` is ``builtins.__package__``, ``True`` is ``__debug__``)
    and ``repr(T[''])`` stops evaluating to an equal expression"""
    u = ctx.unit('core._BBRepr.repr1')
    cfg = ctx.cfg(u)
    x = u.params[1]
    looks = [n for n in cfg.nodes if n.kind in ('stmt', 'test') and any(
        isinstance(c, ast.Call) and isinstance(c.func, ast.Attribute) and c.func.attr == 'get'
        and is_name(c.func.value, '_BUILTIN_ID_NAME_MAP') for c in ast.walk(n.ast))]
    ctx.ob(len(looks) == 1, u, 'one lookup in the builtin-name table (%d)' % len(looks))
    tests = []
    for t in cfg.nodes:
        if t.kind == 'test':
            pol = polarity(t.ast, "$r.startswith('<')")
            if pol:
                tests.append((t, pol))
    ctx.ob(len(tests) == 1, u, "the ordinary repr is tested for the opaque form `<...>`: %s" % [norm(t.ast) for t, _ in tests])
    if len(looks) == 1 and len(tests) == 1:
        t, opaque = tests[0]
        ok = looks[0] in exclusive(cfg, t, opaque) and cfg.dominates(t, looks[0])
        ctx.ob(ok, u, 'the name table is consulted only for opaque reprs: %s' % norm(looks[0].ast),
               '' if ok else 'literals whose object identity coincides with a builtin value are rendered as that builtin\'s name')
        # the tested repr is Repr.repr1 of the same object
        rv = match(t.ast if not isinstance(t.ast, ast.UnaryOp) else t.ast.operand, "$r.startswith('<')")
        if rv:
            d = deref(cfg, t, ast.Name(id=rv['r'], ctx=ast.Load()))
            ok = isinstance(d, ast.Call) and 'repr1' in norm(d.func) and any(is_name(a, x) for a in d.args)
            ctx.ob(ok, u, 'the tested text is the ordinary repr of the same object: %s' % norm(d))
    ctx.floor(3)


@rule('C18.14')
def bbrepr_has_no_type_hooks(ctx):
    """reprlib.Repr dispatches ``repr1`` to a method named ``repr_<typename>`` when one exists.
    bbrepr must render every literal so that eval() gives it back, i.e. as the builtin repr does
    (only the size limits are lifted and builtins are named): _BBRepr therefore defines no
    ``repr_<type>`` hook of its own -- a compact ``slice(1)`` for ``slice(1, None)`` reads back as
    ``slice(None, 1)``"""
    c = ctx.cls('core._BBRepr')
    hooks = sorted(n for n in c.methods if n.startswith('repr_'))
    ctx.ob(not hooks, c, '_BBRepr adds no per-type rendering (methods: %s)' % sorted(c.methods),
           '' if not hooks else '%s: values of that type are no longer rendered by their own repr' % hooks)
    extra = sorted(set(c.methods) - {'__init__', 'repr1'} - set(hooks))
    ctx.ob(not extra, c, '_BBRepr overrides construction (limits) and repr1 (builtin names) only', '' if not extra else str(extra))
    ctx.floor(2)


@rule('C18.15')
def path_is_a_plain_sequence_class(ctx):
    """Path behaves as an immutable sequence of its steps through ``__len__`` and ``__getitem__``
    (which keeps the root), and it is pickled / copied by the default protocol of a plain
    class: (a) it defines no ``__iter__`` / ``__contains__`` / ``__reversed__`` of its own that
    could disagree with indexing; (b) it declares no ``__slots__`` unless it also says how to
    pickle itself (copyreg refuses slotted classes without __getstate__ under protocols 0 and 1)"""
    c = ctx.cls('core.Path')
    own = sorted(n for n in ('__iter__', '__contains__', '__reversed__', 'index', 'count') if c.defines(n))
    ctx.ob(not own, c, 'iteration / membership of a Path follow from __len__ and __getitem__ (no override)',
           '' if not own else '%s may disagree with p[i] (e.g. yield T-rooted steps for an S-rooted path)' % own)
    slots = c.defines('__slots__') or any(isinstance(st, ast.Assign) and any(is_name(t, '__slots__') for t in st.targets)
                                          for st in c.node.body)
    pick = [n for n in ('__getstate__', '__reduce__', '__reduce_ex__') if c.defines(n)]
    ok = not slots or bool(pick)
    ctx.ob(ok, c, 'Path can be pickled with every protocol (no __slots__ without __getstate__)',
           '' if ok else 'pickle protocols 0 and 1 raise TypeError for a slotted class without __getstate__')
    ctx.ob(c.defines('__getitem__') and c.defines('__len__'), c, 'Path defines __len__ and __getitem__')
    ctx.floor(3)
