"""C04 -- exceptions keep their class; glom failures are GlomErrors; default is selective."""
import ast

from . import rule, info
from ..program import AnalysisError, src, norm, ClassInfo
from ..pattern import match, matches
from ..util import (raised_class, is_subclass, exclusive, polarity, is_name, calls_in, callee_qual, deref, ancestors, handler_outcomes, handler_body_nodes,
                    enclosing_trys, in_handler_of, handler_covers, completes_normally, cls_name, fmt_witness,
                    stmt_of)

info('C04',
     explanation='Static decision of: the evaluator\'s exception handler only re-raises (bare raise / the '
                 'caught variable); the top-level translation is total (every call that re-enters user '
                 'exception code -- copy.copy, dynamic re-construction -- is guarded with a fallback that '
                 'still raises the original); glom_debug is tested first; skip_exc filters at the origin '
                 'and the default object itself is returned; the documented class hierarchy of all error '
                 'classes; copyability of glom\'s own errors (constructor args vs BaseException.args); '
                 'GlomError.wrap keeps the original class and args.',
     decided=['C04.1 evaluator re-raises unchanged', 'C04.2 translation total', 'C04.3 debug first',
              'C04.4 skip_exc / default', 'C04.5 hierarchy', 'C04.6 copyability', 'C04.7 wrap keeps class',
              'C04.9 raise discipline of glom()'],
     not_decided=['which user constructor shapes can be rebuilt from args (runtime fact)'])

REENTER_EXTERNALS = {'copy.copy', 'copy.deepcopy'}


def top_handler(ctx):
    u = ctx.unit('core.glom')
    cfg = ctx.cfg(u)
    hs = [n for n in cfg.nodes if n.kind == 'handler' and handler_covers(cfg, n, 'Exception')
          and n.ast.name]
    ctx.require(len(hs) == 1, 'glom(): expected exactly one `except Exception as e` handler, found %d' % len(hs))
    return u, cfg, hs[0]


@rule('C04.1')
def evaluator_reraises(ctx):
    u = ctx.unit('core._glom')
    cfg = ctx.cfg(u)
    hs = [n for n in cfg.nodes if n.kind == 'handler']
    ctx.require(hs, '_glom has no exception handler (role: records the failing frame, then re-raises)')
    for h in hs:
        out = handler_outcomes(cfg, h)
        ok = bool(out) and set(out) <= {'raise-bare', 'raise-var'}
        ctx.ob(ok, u, 'the evaluator\'s handler `except %s` only re-raises the caught exception'
               % (src(h.ast.type) if h.ast.type is not None else ''),
               'outcomes: %s' % sorted(out), node=h.ast)
    # no other raise of a new exception in the evaluator
    for r in [n for n in u.own_nodes() if isinstance(n, ast.Raise)]:
        ctx.ob(r.exc is None or (isinstance(r.exc, ast.Name) and any(h.name == r.exc.id for h in in_handler_of(r))),
               u, 'the evaluator raises nothing of its own: %s' % norm(r), node=r)
    ctx.floor(2)


def never_raises_summary(ctx, unit):
    """callee summary: every fallible (user-code re-entering) region of the
    unit is wrapped in try/except Exception with a non-raising handler"""
    cfg = ctx.cfg(unit)
    p = ctx.program
    risky = []
    for c in calls_in(unit):
        q = callee_qual(p, unit, c)
        # calling a dynamic class / type(exc)(...) / copy
        if q in REENTER_EXTERNALS or q.startswith('local:') or (isinstance(c.func, ast.Call)):
            risky.append(c)
    ok = True
    why = []
    for c in risky:
        node = cfg.node_containing(c)
        hs = [h for h in cfg.handlers_reached_from(node) if handler_covers(cfg, h, 'Exception')]
        if not hs:
            ok = False
            why.append('%s is not under `except Exception`' % norm(c))
            continue
        for h in hs:
            out = handler_outcomes(cfg, h)
            if any(k.startswith('raise') for k in out):
                ok = False
                why.append('handler of %s raises' % norm(c))
    return ok, why, risky


@rule('C04.2')
def translation_total(ctx):
    u, cfg, h = top_handler(ctx)
    p = ctx.program
    body = handler_body_nodes(cfg, h)
    evar = h.ast.name
    n = 0
    for node in body:
        if node.ast is None or node.kind not in ('stmt', 'test'):
            continue
        for c in [x for x in ast.walk(node.ast) if isinstance(x, ast.Call)]:
            q = callee_qual(p, u, c)
            reenters = q in REENTER_EXTERNALS or \
                (isinstance(c.func, ast.Call) and is_name(c.func.func, 'type'))   # type(e)(...)
            if reenters and any(isinstance(x, ast.Name) and x.id == evar for a in c.args for x in ast.walk(a)):
                n += 1
                hs = [hh for hh in cfg.handlers_reached_from(node) if hh is not h and hh.ast in
                      [x for t in enclosing_trys(c) for x in t.handlers] and handler_covers(cfg, hh, 'Exception')]
                ok = False
                detail = 'a user-defined exception whose __init__ signature differs from its args (or whose ' \
                         '__reduce__/__copy__ raises) makes glom() raise a different exception than the original'
                for hh in hs:
                    out = handler_outcomes(cfg, hh)
                    # the fallback must still lead to raising the original: bare raise, or continue
                    # normally with the original bound as the error to raise
                    if set(out) <= {'raise-bare', 'raise-var', 'normal'}:
                        ok = True
                        detail = ''
                ctx.ob(ok, u, 'call re-entering user exception code is guarded: %s' % norm(c), detail, node=c)
            elif q == 'core.GlomError.wrap':
                n += 1
                wu = ctx.unit('core.GlomError.wrap')
                okw, why, risky = never_raises_summary(ctx, wu)
                ctx.ob(okw and bool(risky), u, 'GlomError.wrap never raises (its re-construction is guarded): %s' % norm(c),
                       '; '.join(why), node=c)
    ctx.require(n >= 2, 'glom(): translation calls (copy / wrap) not found in the handler')
    ctx.floor(2)


@rule('C04.3')
def debug_first(ctx):
    u, cfg, h = top_handler(ctx)
    body = h.ast.body
    first = next((n for n in body if isinstance(n, (ast.If, ast.Try, ast.Raise, ast.Assign, ast.Expr))
                  and not (isinstance(n, ast.Assign) and isinstance(n.value, ast.Constant))), None)
    ok = isinstance(first, ast.If) and isinstance(first.test, ast.Name) and len(first.body) == 1 \
        and isinstance(first.body[0], ast.Raise) and (first.body[0].exc is None or is_name(first.body[0].exc, h.ast.name)) \
        and not first.orelse
    ctx.ob(ok, u, 'the debug flag is tested first and re-raises the original object: %s'
           % (norm(first) if first is not None else None), node=first)
    if ok:
        flag = first.test.id
        defs = [n for n in u.own_nodes() if isinstance(n, ast.Assign) and any(is_name(t, flag) for t in n.targets)]
        okd = len(defs) == 1 and isinstance(defs[0].value, ast.Call) and isinstance(defs[0].value.func, ast.Attribute) \
            and defs[0].value.func.attr == 'pop' and defs[0].value.args \
            and isinstance(defs[0].value.args[0], ast.Constant) and defs[0].value.args[0].value == 'glom_debug'
        ctx.ob(okd, u, "the flag is the caller's glom_debug keyword: %s" % [norm(d) for d in defs])
        # dominates every other statement of the handler
        tn = cfg.node_of(first)
        others = [n for n in handler_body_nodes(cfg, h) if n is not tn and n.ast is not first.body[0]]
        ctx.ob(all(cfg.dominates(tn, n) for n in others), u, 'the debug test dominates the whole translation')
    ctx.floor(1)


@rule('C04.4')
def skip_exc_and_default(ctx):
    u = ctx.unit('core.glom')
    cfg = ctx.cfg(u)
    p = ctx.program
    calls = [c for c in calls_in(u) if callee_qual(p, u, c) == 'core._glom']
    ctx.require(len(calls) == 1, 'glom(): expected one call of the evaluator')
    c = calls[0]
    node = cfg.node_containing(c)
    trys = enclosing_trys(c)
    ctx.require(trys, 'glom(): evaluator call is not inside a try')
    inner = trys[0]
    ok = len(inner.handlers) == 1 and isinstance(inner.handlers[0].type, ast.Name)
    ctx.ob(ok, u, 'the innermost handler around the evaluation filters by the skip_exc variable: except %s'
           % (src(inner.handlers[0].type) if inner.handlers and inner.handlers[0].type is not None else ''), node=inner)
    if not ok:
        return
    svar = inner.handlers[0].type.id
    sdefs = [n for n in u.own_nodes() if isinstance(n, ast.Assign) and any(is_name(t, svar) for t in n.targets)]
    okd = len(sdefs) == 1 and isinstance(sdefs[0].value, ast.Call) and isinstance(sdefs[0].value.func, ast.Attribute) \
        and sdefs[0].value.func.attr == 'pop' and sdefs[0].value.args and \
        isinstance(sdefs[0].value.args[0], ast.Constant) and sdefs[0].value.args[0].value == 'skip_exc'
    ctx.ob(okd, u, "skip_exc is the caller's keyword: %s" % [norm(d) for d in sdefs])
    dvar = None
    if okd and len(sdefs[0].value.args) > 1:
        fb = sdefs[0].value.args[1]
        # () when no default was given, else GlomError
        okf = isinstance(fb, ast.IfExp) and isinstance(fb.test, ast.Compare) and isinstance(fb.test.ops[0], ast.Is) \
            and isinstance(fb.body, ast.Tuple) and not fb.body.elts \
            and p.global_qualname(u, fb.orelse) == 'core.GlomError' \
            and p.global_qualname(u, fb.test.comparators[0]) == 'core._MISSING'
        ctx.ob(okf, u, 'without a default nothing is filtered; with one, GlomError: %s' % norm(fb), node=fb)
        if okf and isinstance(fb.test.left, ast.Name):
            dvar = fb.test.left.id
    h = inner.handlers[0]
    hn = cfg.node_of(h)
    out = handler_outcomes(cfg, hn)
    ctx.ob(set(out) == {'raise-bare', 'normal'}, u,
           'the filter either re-raises (no default) or completes with the default', 'outcomes: %s' % sorted(out), node=h)
    # ret = default, directly
    assigns = [s for s in ast.walk(h) if isinstance(s, ast.Assign)]
    retvar = None
    st = node.ast
    if isinstance(st, ast.Assign) and is_name(st.targets[0]):
        retvar = st.targets[0].id
    ok = len(assigns) == 1 and is_name(assigns[0].targets[0], retvar) and isinstance(assigns[0].value, ast.Name) \
        and (dvar is None or assigns[0].value.id == dvar)
    ctx.ob(ok, u, 'the default object itself becomes the result: %s' % [norm(a) for a in assigns])
    # the bare raise is guarded by `default is _MISSING`
    for r in [s for s in ast.walk(h) if isinstance(s, ast.Raise)]:
        g = [a for a in ancestors(r) if isinstance(a, ast.If)]
        okg = bool(g) and isinstance(g[0].test, ast.Compare) and isinstance(g[0].test.ops[0], ast.Is) \
            and p.global_qualname(u, g[0].test.comparators[0]) == 'core._MISSING' and r in g[0].body \
            and (dvar is None or is_name(g[0].test.left, dvar))
        ctx.ob(okg and r.exc is None, u, 'without a default the filtered error propagates unchanged: %s' % norm(r), node=r)
    # default's own default: None when skip_exc is given, else _MISSING
    if dvar:
        ddefs = [n for n in u.own_nodes() if isinstance(n, ast.Assign) and any(is_name(t, dvar) for t in n.targets)]
        okdd = len(ddefs) == 1 and isinstance(ddefs[0].value, ast.Call) and len(ddefs[0].value.args) == 2 \
            and isinstance(ddefs[0].value.args[0], ast.Constant) and ddefs[0].value.args[0].value == 'default'
        if okdd:
            fb = ddefs[0].value.args[1]
            okdd = isinstance(fb, ast.IfExp) and isinstance(fb.body, ast.Constant) and fb.body.value is None \
                and p.global_qualname(u, fb.orelse) == 'core._MISSING' and isinstance(fb.test, ast.Compare) \
                and isinstance(fb.test.ops[0], ast.In) and isinstance(fb.test.left, ast.Constant) \
                and fb.test.left.value == 'skip_exc'
        ctx.ob(okdd, u, 'default is None when only skip_exc is given, else absent: %s' % [norm(d) for d in ddefs])
    # the returned value
    rets = [n for n in u.own_nodes() if isinstance(n, ast.Return)]
    ctx.ob(len(rets) == 1 and is_name(rets[0].value, retvar), u, 'glom() returns the result variable: %s'
           % [norm(r) for r in rets])
    ctx.floor(7)


HIERARCHY = {
    'core.GlomError': ['Exception'],
    'core.PathAccessError': ['GlomError', 'AttributeError', 'KeyError', 'IndexError'],
    'core.PathAssignError': ['GlomError'],
    'core.CoalesceError': ['GlomError'],
    'core.BadSpec': ['GlomError', 'TypeError'],
    'core.UnregisteredTarget': ['GlomError'],
    'matching.MatchError': ['GlomError'],
    'matching.TypeMatchError': ['MatchError', 'TypeError', 'GlomError'],
    'matching.CheckError': ['GlomError'],
    'mutation.PathDeleteError': ['PathAssignError', 'GlomError'],
    'reduction.FoldError': ['GlomError'],
}
NOT_ANCESTORS = {
    # a GlomError that is accidentally also a LookupError/TypeError would be
    # swallowed by callers' unrelated except clauses
    'core.GlomError': ['LookupError', 'TypeError', 'ValueError', 'AttributeError'],
    'matching.MatchError': ['TypeError', 'LookupError'],
    'core.CoalesceError': ['LookupError', 'TypeError'],
}


@rule('C04.5')
def hierarchy(ctx):
    for q, need in HIERARCHY.items():
        c = ctx.cls(q)
        names = c.ancestor_names()
        for nm in need:
            ctx.ob(nm in names, c, '%s is a %s' % (c.name, nm), 'ancestry: %s' % names[:8])
    for q, never in NOT_ANCESTORS.items():
        c = ctx.cls(q)
        names = c.ancestor_names()
        for nm in never:
            ctx.ob(nm not in names, c, '%s is not a %s' % (c.name, nm))
    ctx.floor(18)


def glom_error_classes(ctx):
    p = ctx.program
    out = []
    for c in p.classes.values():
        if c.module.short == 'tutorial':
            continue
        if c.is_subclass_of('GlomError'):
            out.append(c)
    return out


@rule('C04.6')
def copyability(ctx):
    """copy.copy(exc) rebuilds with cls(*exc.args): args are the positional
    constructor arguments unless __init__ forwards something else to
    BaseException.__init__"""
    p = ctx.program
    classes = glom_error_classes(ctx)
    ctx.require(len(classes) >= 10, 'found only %d GlomError classes' % len(classes))
    for c in classes:
        has_copy = any(isinstance(k, ClassInfo) and (k.defines('__copy__') or k.defines('__reduce__')
                                                     or k.defines('__reduce_ex__'))
                       for k in c.mro() if isinstance(k, ClassInfo) and k.name != 'GlomError')
        init = None
        for k in c.mro():
            if isinstance(k, ClassInfo) and '__init__' in k.methods:
                init = k.methods['__init__']
                break
        if has_copy:
            # defining class's __copy__ must rebuild with the right argument order
            owner = [k for k in c.mro() if isinstance(k, ClassInfo) and k.defines('__copy__')]
            if owner and init is not None and init.cls is owner[0]:
                cu = owner[0].methods['__copy__']
                sup = _super_init_args(init)
                rets = [n for n in cu.own_nodes() if isinstance(n, ast.Return)]
                ok = False
                detail = ''
                if len(rets) == 1 and isinstance(rets[0].value, ast.Call) and sup is not None:
                    # each constructor argument i must be args[j] where super().__init__'s j-th argument is param i
                    params = init.params[1:]
                    ok = len(rets[0].value.args) == len(params)
                    for i, a in enumerate(rets[0].value.args):
                        j = None
                        if isinstance(a, ast.Subscript) and isinstance(a.value, ast.Attribute) and a.value.attr == 'args' \
                                and isinstance(a.slice, ast.Constant):
                            j = a.slice.value
                        if j is None or j >= len(sup) or not is_name(sup[j], params[i]):
                            ok = False
                            detail = 'argument %d of the rebuilt exception is %s' % (i, src(a))
                ctx.ob(ok, c, '%s.__copy__ rebuilds the exception with its own constructor arguments' % c.name,
                       detail, node=cu.node)
                # ... as an instance of the class of the original (a user subclass stays that subclass)
                if len(rets) == 1 and isinstance(rets[0].value, ast.Call):
                    f = rets[0].value.func
                    dyn = (isinstance(f, ast.Call) and is_name(f.func, 'type') and len(f.args) == 1 and is_name(f.args[0], cu.params[0])) or \
                        (isinstance(f, ast.Attribute) and f.attr == '__class__' and is_name(f.value, cu.params[0]))
                    ctx.ob(dyn, c, '%s.__copy__ keeps the class of the exception being copied: %s(..)' % (c.name, norm(f)),
                           '' if dyn else 'a subclass of %s raised inside a spec leaves glom() as plain %s' % (c.name, c.name), node=cu.node)
            else:
                ctx.ob(True, c, '%s is copyable through an inherited __copy__/__reduce__' % c.name)
            continue
        if init is None:
            ctx.ob(True, c, '%s has no __init__ of its own (BaseException semantics)' % c.name)
            continue
        sup = _super_init_args(init)
        params = init.params[1:]
        if sup is None:
            # args = positional constructor arguments: every construction site must be positional
            ok = not init.kwonly and init.kwarg is None
            ctx.ob(ok, c, '%s(%s): args are the constructor arguments (no super().__init__ call)'
                   % (c.name, ', '.join(params)), node=init.node)
        else:
            same = len(sup) == len(params) + (1 if init.vararg else 0) and \
                all(is_name(a, pn) for a, pn in zip(sup, params)) and \
                (not init.vararg or (isinstance(sup[-1], ast.Starred) and is_name(sup[-1].value, init.vararg)))
            ctx.ob(same, c, '%s.__init__ forwards exactly its own parameters to BaseException.__init__' % c.name,
                   'forwards (%s) for parameters (%s) and defines no __copy__: copy.copy() cannot rebuild it'
                   % (', '.join(src(a) for a in sup), ', '.join(params)) if not same else '', node=init.node)
    # construction sites of classes whose args are the constructor arguments use positional arguments
    n_sites = 0
    for u in p.package_units():
        for call in calls_in(u):
            kind, payload = p.resolve_callee(u, call)
            if kind == 'class' and payload.is_subclass_of('GlomError'):
                init = payload.find_method('__init__')
                if init is None or _super_init_args(init) is not None:
                    continue
                n_sites += 1
                ctx.ob(not call.keywords, u, 'raise site builds %s with positional arguments: %s'
                       % (payload.name, norm(call)),
                       'keyword arguments are not recorded in BaseException.args; copy.copy() in glom() then fails',
                       node=call)
    ctx.require(n_sites >= 8, 'only %d construction sites found' % n_sites)
    ctx.floor(20)


def _super_init_args(init):
    for c in calls_in(init):
        f = c.func
        if isinstance(f, ast.Attribute) and f.attr == '__init__' and isinstance(f.value, ast.Call) \
                and is_name(f.value.func, 'super'):
            return list(c.args)
    return None


@rule('C04.7')
def wrap_keeps_class(ctx):
    u = ctx.unit('core.GlomError.wrap')
    cfg = ctx.cfg(u)
    exc = u.params[1]
    # bases
    # the second argument of the 3-argument type() call that makes the wrapper class
    mk = [c for c in calls_in(u) if is_name(c.func, 'type') and len(c.args) == 3]
    ctx.require(len(mk) == 1, 'wrap(): wrapper class construction type(name, bases, ns) not found')
    b = deref(cfg, cfg.node_containing(mk[0]), mk[0].args[1])
    ctx.require(isinstance(b, (ast.IfExp, ast.Tuple)), 'wrap(): bases expression not found')
    tvars = {n.targets[0].id for n in u.own_nodes() if isinstance(n, ast.Assign) and is_name(n.targets[0])
             and isinstance(n.value, ast.Call) and is_name(n.value.func, 'type') and len(n.value.args) == 1
             and is_name(n.value.args[0], exc)}
    def has_type(e):
        return any((isinstance(x, ast.Name) and x.id in tvars) or
                   (isinstance(x, ast.Call) and is_name(x.func, 'type') and x.args and is_name(x.args[0], exc))
                   for x in ast.walk(e))
    alts = []
    if isinstance(b, ast.IfExp):
        t = b.test
        guard = isinstance(t, ast.Call) and is_name(t.func, 'issubclass') and len(t.args) == 2 \
            and ctx.program.global_qualname(u, t.args[0]) == 'core.GlomError' and has_type(t.args[1])
        alts = [(b.body, guard), (b.orelse, False)]
    else:
        alts = [(b, False)]
    for e, guarded in alts:
        ok = has_type(e) or guarded
        ctx.ob(ok, u, 'wrapper bases keep the original class: %s' % norm(e),
               '' if ok else 'an alternative without type(exc) that is not guarded by issubclass(GlomError, type(exc))', node=e)
        okg = any(ctx.program.global_qualname(u, x) == 'core.GlomError' for x in ast.walk(e)
                  if isinstance(x, (ast.Name, ast.Attribute)))
        ctx.ob(okg, u, 'wrapper bases include GlomError: %s' % norm(e), node=e)
    # building the class can fail too (a class that refuses subclassing): it happens under the same fallback
    mkn = cfg.node_containing(mk[0])
    hs_mk = [h for h in cfg.handlers_reached_from(mkn) if handler_covers(cfg, h, 'Exception')]
    ctx.ob(bool(hs_mk), u, 'a failure to build the wrapper class falls back to the original exception',
           '' if hs_mk else 'type(name, bases, ns) is outside the try: a TypeError from __init_subclass__ replaces the user\'s exception', node=mk[0])
    # instance built from *exc.args
    built = [c for c in calls_in(u) if len(c.args) == 1 and isinstance(c.args[0], ast.Starred)
             and isinstance(c.args[0].value, ast.Attribute) and c.args[0].value.attr == 'args'
             and is_name(c.args[0].value.value, exc) and not c.keywords]
    ctx.ob(len(built) == 1, u, 'the wrapper instance is built from *exc.args: %s' % [norm(c) for c in built])
    # fallback returns exc itself
    hs = [n for n in cfg.nodes if n.kind == 'handler']
    ctx.require(hs, 'wrap(): no fallback handler')
    for h in hs:
        rets = [s for s in ast.walk(h.ast) if isinstance(s, ast.Return)]
        ctx.ob(len(rets) == 1 and is_name(rets[0].value, exc), u,
               'when re-creation fails the original exception object is returned: %s' % [norm(r) for r in rets], node=h.ast)
        ctx.ob(handler_covers(cfg, h, 'Exception'), u, 'any failure of the re-creation is caught', node=h.ast)
    ctx.floor(6)


@rule('C04.9')
def raise_discipline(ctx):
    u, cfg, h = top_handler(ctx)
    p = ctx.program
    evar = h.ast.name
    # classification by isinstance(e, GlomError), whichever way round the branches are written
    body_nodes = set(handler_body_nodes(cfg, h))

    def region(t, edge):
        return [n for n in exclusive(cfg, t, edge) if n in body_nodes]

    def assigned(nodes):
        return {n.ast.targets[0].id: n for n in nodes if n.kind == 'stmt' and isinstance(n.ast, ast.Assign)
                and is_name(n.ast.targets[0])}
    first = [(t, polarity(t.ast, 'isinstance(%s, GlomError)' % evar)) for t in cfg.nodes if t.kind == 'test' and t in body_nodes]
    first = [(t, e) for t, e in first if e]
    ctx.ob(len(first) == 1, u, 'GlomErrors are copied, everything else is wrapped: %s' % [norm(t.ast) for t, _ in first],
           '' if len(first) == 1 else 'no single isinstance(%s, GlomError) classification in the handler' % evar)
    errvar = None
    if len(first) == 1:
        t, yes = first[0]
        no = 'false' if yes == 'true' else 'true'
        glom_side, other_side = region(t, yes), region(t, no)
        names = set(assigned(glom_side)) & set(assigned(other_side))
        ctx.ob(len(names) == 1, u, 'both routes bind the error to raise in one variable: %s' % sorted(names))
        if len(names) == 1:
            errvar = names.pop()
            wraps = [n.ast for n in other_side if n.kind == 'stmt' and isinstance(n.ast, ast.Assign) and is_name(n.ast.targets[0], errvar)]
            ok = len(wraps) == 1 and isinstance(wraps[0].value, ast.Call) \
                and callee_qual(p, u, wraps[0].value) == 'core.GlomError.wrap' and is_name(wraps[0].value.args[0], evar)
            ctx.ob(ok, u, 'non-glom exceptions are wrapped by GlomError.wrap(e): %s' % [norm(w) for w in wraps])
            # the copy keeps a reference to the original (used to suppress the duplicate line in the trace)
            sw = [c for c in calls_in(u) if isinstance(c.func, ast.Attribute) and c.func.attr == '_set_wrapped']
            ctx.ob(len(sw) == 1 and is_name(sw[0].func.value, errvar) and is_name(sw[0].args[0], evar)
                   and cfg.node_containing(sw[0]) in glom_side, u,
                   'the copy remembers the original exception: %s' % [norm(c) for c in sw])
            # ... on every way through the GlomError side, the fallback (the copy failed, the
            # original object is used) included: __str__ reads the remembered exception
            if len(sw) == 1:
                swn = cfg.node_containing(sw[0])
                after = [n for n in cfg.nodes if n.kind == 'test' and n not in glom_side and n not in other_side
                         and cfg.find_path(t, {n}, labels=lambda l: l != 'exc') is not None and n in body_nodes]
                okw, wit = cfg.must_pass(t, set(after), {swn}, labels=lambda l: l != 'exc' or True, start_labels=lambda l, y=yes: l == y) \
                    if after else (True, None)
                ctx.ob(okw, u, 'the original is remembered whether or not the copy succeeded',
                       '' if okw else 'the fallback path skips _set_wrapped: str() of the raised error fails (no trace at all): %s' % fmt_witness(cfg, wit))
    second = [(t, polarity(t.ast, 'isinstance(%s, GlomError)' % errvar)) for t in cfg.nodes
              if errvar and t.kind == 'test' and t in body_nodes]
    second = [(t, e) for t, e in second if e]
    ctx.ob(len(second) == 1, u, 'finalisation happens only when wrapping produced a GlomError: %s'
           % [norm(t.ast) for t, _ in second])
    if len(second) == 1:
        t, yes = second[0]
        no = 'false' if yes == 'true' else 'true'
        fin = [c for n in region(t, yes) for c in ast.walk(n.ast) if isinstance(c, ast.Call) and isinstance(c.func, ast.Attribute)
               and c.func.attr == '_finalize']
        ok = len(fin) == 1 and is_name(fin[0].func.value, errvar)
        ctx.ob(ok, u, 'the error to raise is finalised with the failing frame: %s' % [norm(c) for c in fin])
        rr = [n.ast for n in region(t, no) if n.kind == 'stmt']
        ok = len(rr) == 1 and isinstance(rr[0], ast.Raise) and (rr[0].exc is None or is_name(rr[0].exc, evar))
        ctx.ob(ok, u, 'when wrapping failed the original is re-raised: %s' % [norm(s_) for s_ in rr])
    # after the try: `if err: raise err`
    rs = [n for n in u.own_nodes() if isinstance(n, ast.Raise) and not in_handler_of(n) and is_name(n.exc, errvar)]
    ok = len(rs) == 1
    ctx.ob(ok, u, 'the translated error is raised outside the handler (no implicit chaining): %s' % [norm(r) for r in rs])
    # the pending-error test, wherever it is written: an enclosing ``if err is not None:`` or a guard
    # clause ``if err is None: return ret`` before the raise (the raise is reachable from one of
    # its edges only)
    gtest = None
    if ok:
        rn0 = cfg.node_of(rs[0])
        for tnode in cfg.nodes:
            if tnode.kind != 'test' or not cfg.dominates(tnode, rn0) or errvar not in {x.id for x in ast.walk(tnode.ast) if isinstance(x, ast.Name)}:
                continue
            if tnode in body_nodes:
                continue
            reach = [lab for lab in ('true', 'false')
                     if cfg.find_path(tnode, {rn0}, labels=lambda l: l != 'exc', start_labels=lambda l, y=lab: l == y) is not None]
            if len(reach) == 1:
                gtest = (tnode, reach[0])
    unguarded = ok and gtest is None
    if unguarded:
        # ``try: .. except: <bind err> else: return ret`` followed by a plain ``raise err``: the raise
        # is reached from the handler only, after err was bound there
        rn = cfg.node_of(rs[0])
        binds = {n for n in cfg.nodes if n.kind == 'stmt' and isinstance(n.ast, ast.Assign) and is_name(n.ast.targets[0], errvar)
                 and not (isinstance(n.ast.value, ast.Constant) and n.ast.value.value is None)}
        okp, wit = cfg.must_pass(cfg.entry, {rn}, binds)
        ctx.ob(okp and bool(binds), u, 'the error is raised only after the handler bound it (the successful path returns before)',
               '' if okp else 'a path reaches `raise %s` without a translated error: %s' % (errvar, fmt_witness(cfg, wit)), node=rs[0])
        ctx.ob(True, u, 'no error is pending before the evaluation: the raise is unreachable from the successful path')
        ctx.floor(8)
        return
    if ok:
        g = [a for a in ancestors(rs[0]) if isinstance(a, ast.If)]
        t = gtest[0].ast
        # the pending-error test must not depend on the truth value of a user-defined exception object
        # (an exception class with __len__ / __bool__ may be falsy): `err is not None`, not `if err:`
        identity = polarity(t, '%s is not None' % errvar) == gtest[1]
        ctx.ob(identity, u, 'a pending error is detected by identity (`%s is not None`), not by truth value: %s'
               % (errvar, norm(t) if t is not None else None),
               '' if identity else 'an exception whose class defines __len__/__bool__ and is falsy is not re-raised: glom() falls '
               'through to `return ret` and raises UnboundLocalError instead of the original class', node=g[0] if g else rs[0])
    # err initialised to None before the try
    inits = [n for n in u.node.body if isinstance(n, ast.Assign) and is_name(n.targets[0], errvar)]
    ctx.ob(len(inits) == 1 and isinstance(inits[0].value, ast.Constant) and inits[0].value.value is None, u,
           'no error is pending before the evaluation: %s' % [norm(i) for i in inits])
    ctx.floor(8)


@rule('C04.12')
def evaluator_frames_have_parents(ctx):
    """the evaluator's failure recording indexes ``maps[1]`` of the frame and of the
    frames it walks through UP; every frame handed to an evaluator must therefore
    be a child frame (>= 2 maps).  A single-map ChainMap handed to the evaluator
    makes the handler itself raise IndexError, replacing the original exception."""
    p = ctx.program
    eu = ctx.unit('core._glom')
    idx1 = [n for n in eu.own_nodes() if isinstance(n, ast.Subscript) and isinstance(n.value, ast.Attribute) and n.value.attr == 'maps'
            and isinstance(n.slice, ast.Constant) and n.slice.value == 1]
    ctx.ob(True, eu, 'the evaluator\'s failure recording addresses the parent map of a frame (%d uses of .maps[1])' % len(idx1))
    if not idx1:
        return
    n_sites = 0
    for u in p.package_units():
        for c in calls_in(u):
            # callee may be an evaluator: scope[glom](...)  or  <x> = scope.get(glom, ...); <x>(...)
            may_eval = p.is_evaluator_call(u, c)
            f = c.func
            if not may_eval and isinstance(f, ast.Name) and f.id in u.locals:
                cfg = ctx.cfg(u)
                node = cfg.node_containing(c)
                for dn, v in (cfg.reaching_defs(node, f.id) if node is not None else []):
                    if isinstance(v, ast.Call) and isinstance(v.func, ast.Attribute) and v.func.attr == 'get' and v.args \
                            and p.scope_key(u, v.args[0]) == 'core.glom':
                        may_eval = True
            if not may_eval and isinstance(f, ast.Call) and isinstance(f.func, ast.Attribute) and f.func.attr == 'get' and f.args \
                    and p.scope_key(u, f.args[0]) == 'core.glom':
                may_eval = True        # scope.get(glom, glom)(...) called in place
            if not may_eval:
                continue
            n_sites += 1
            # the scope it receives: third positional argument or scope= / **kw['scope']
            sc = c.args[2] if len(c.args) > 2 else None
            for k in c.keywords:
                if k.arg == 'scope':
                    sc = k.value
            single = None
            if sc is None:
                # **kw with kw['scope'] = ChainMap(x)
                for n in u.own_nodes():
                    if isinstance(n, ast.Assign) and isinstance(n.targets[0], ast.Subscript) and isinstance(n.targets[0].slice, ast.Constant) \
                            and n.targets[0].slice.value == 'scope' and isinstance(n.value, ast.Call) \
                            and callee_qual(p, u, n.value) == 'collections.ChainMap' and len(n.value.args) == 1:
                        single = n
            elif isinstance(sc, ast.Call) and callee_qual(p, u, sc) == 'collections.ChainMap' and len(sc.args) == 1:
                single = sc
            ctx.ob(single is None, u, 'a frame handed to the evaluator is a child frame (has a parent map): %s' % src(c, 70),
                   '' if single is None else 'the scope is a single-map ChainMap (%s): when the evaluation fails, the evaluator\'s own '
                   'error recording raises IndexError on .maps[1] and replaces the original exception '
                   '(glom([1, 2], Iter().first(key)) with key raising Boom -> IndexError)' % src(single, 50), node=c)
    if n_sites < 40:
        raise AnalysisError('C04.12: only %d evaluator call sites found (floor 40)' % n_sites)


@rule('C04.14')
def no_evaluation_in_generator_expressions(ctx):
    """PEP 479: a StopIteration raised while a generator expression is being consumed leaves it
    as RuntimeError.  A sub-spec or user callable evaluated inside one (``tuple(recur(v) for v in
    spec)``) would therefore change the class of exactly that exception; list / set / dict
    comprehensions do not.  (Iter's stage generators hand items to the caller's own loop and are
    decided under C17.)"""
    p = ctx.program
    n_gen = 0
    for u in p.package_units():
        if u.module.short in ('tutorial',):
            continue
        gens = [n for n in u.own_nodes() if isinstance(n, ast.GeneratorExp)]
        if not gens:
            continue
        # local names bound to lambdas that evaluate (recur / recurse helpers)
        evaluating = set()
        for n in u.own_nodes():
            if isinstance(n, ast.Assign) and is_name(n.targets[0]) and isinstance(n.value, ast.Lambda):
                lu = p.unit_of(n.value)
                if lu is not None and any(p.is_evaluator_call(lu, c) or callee_qual(p, lu, c) == 'core.arg_val' for c in calls_in(lu)):
                    evaluating.add(n.targets[0].id)
        for g in gens:
            n_gen += 1
            bad = [c for c in ast.walk(g.elt) if isinstance(c, ast.Call) and (
                p.is_evaluator_call(u, c) or callee_qual(p, u, c) == 'core.arg_val'
                or (isinstance(c.func, ast.Name) and c.func.id in evaluating))]
            ctx.ob(not bad, u, 'no spec evaluation inside a generator expression: %s' % src(g, 60),
                   '' if not bad else 'a StopIteration raised by %s would surface as RuntimeError' % [norm(c)[:50] for c in bad], node=g)
    ctx.ob(True, 'glom', '%d generator expression(s) examined' % n_gen)
    ctx.floor(1)


PARTIAL_ON_USER_VALUES = {'sorted', 'max', 'min', 'hash', 'sum'}


def _may_be_tuple_at(u, node, prm):
    """can control reach ``node`` when parameter prm holds a tuple?  Tests on ``type(prm)`` (after
    the type-temp normal form) are decided for the case type(prm) is tuple; everything else is
    assumed passable"""
    from ..util import _terminates

    def decide(t):
        if isinstance(t, ast.BoolOp):
            vals = [decide(v) for v in t.values]
            if isinstance(t.op, ast.And):
                return False if False in vals else (True if all(v is True for v in vals) else None)
            return True if True in vals else (False if all(v is False for v in vals) else None)
        if isinstance(t, ast.UnaryOp) and isinstance(t.op, ast.Not):
            v = decide(t.operand)
            return None if v is None else not v
        if isinstance(t, ast.Compare) and len(t.ops) == 1 and norm(t.left) == 'type(%s)' % prm:
            c, o = t.comparators[0], t.ops[0]
            names = [x.id for x in (c.elts if isinstance(c, (ast.Tuple, ast.List, ast.Set)) else [c]) if isinstance(x, ast.Name)]
            if isinstance(o, (ast.In, ast.Is, ast.Eq)):
                return 'tuple' in names
            if isinstance(o, (ast.NotIn, ast.IsNot, ast.NotEq)):
                return 'tuple' not in names
        return None

    def search(stmts):
        # -> True: node found and reachable; False: found but unreachable; None: not in here
        for st in stmts:
            if st is node or any(x is node for x in ast.walk(st)):
                if st is node:
                    return True
                if isinstance(st, ast.If):
                    v = decide(st.test)
                    inb = any(x is node for s_ in st.body for x in ast.walk(s_))
                    if v is not None and v != inb:
                        return False
                    return search(st.body if inb else st.orelse)
                for f in ('body', 'orelse', 'finalbody'):
                    blk = getattr(st, f, None)
                    if isinstance(blk, list) and any(x is node for s_ in blk if isinstance(s_, ast.AST) for x in ast.walk(s_)):
                        return search(blk)
                for h in getattr(st, 'handlers', ()):
                    if any(x is node for s_ in h.body for x in ast.walk(s_)):
                        return search(h.body)
                return True
            # a guard clause before the node that always leaves for a tuple
            if isinstance(st, ast.If) and decide(st.test) is True and _terminates(st.body):
                return False
        return None
    r = search(u.node.body)
    return r is not False


def _is_text(e):
    if isinstance(e, ast.Constant):
        return isinstance(e.value, str)
    if isinstance(e, ast.BinOp) and isinstance(e.op, ast.Add):
        return _is_text(e.left) or _is_text(e.right)
    return isinstance(e, ast.JoinedStr)


@rule('C04.15')
def error_construction_is_total(ctx):
    """a failure glom detects itself must surface as the documented GlomError subtype: the
    expressions that build the error's arguments from user data (keys, targets, specs) may format
    them but must not order, hash or add them -- ``sorted(required)`` raises TypeError for keys
    that are not mutually comparable and replaces the MatchError it was building"""
    p = ctx.program
    n = 0
    for u in p.package_units():
        if u.module.short in ('tutorial', 'cli'):
            continue
        for r in [x for x in u.own_nodes() if isinstance(x, ast.Raise) and isinstance(x.exc, ast.Call)]:
            if not is_subclass(raised_class(p, u, r), 'GlomError'):
                continue
            n += 1
            bad = []
            arg_exprs = list(r.exc.args) + [k.value for k in r.exc.keywords]
            # a local the message is built from counts with its definition(s)
            for a in list(arg_exprs):
                for nm in [x for x in ast.walk(a) if isinstance(x, ast.Name) and x.id in u.locals and x.id not in u.params]:
                    for d in u.own_nodes():
                        if isinstance(d, ast.Assign) and len(d.targets) == 1 and is_name(d.targets[0], nm.id) and d.value not in arg_exprs:
                            arg_exprs.append(d.value)
            for a in arg_exprs:
                for c in ast.walk(a):
                    if isinstance(c, ast.Call) and isinstance(c.func, ast.Name) and c.func.id in PARTIAL_ON_USER_VALUES \
                            and c.args and not isinstance(c.args[0], ast.Constant):
                        bad.append(norm(c)[:60])
                    # ``x.__name__`` of a user value (a callable pattern, a validator): only classes and
                    # plain functions are sure to have one -- functools.partial objects, callable instances do not
                    if isinstance(c, ast.Attribute) and c.attr in ('__name__', '__qualname__') and isinstance(c.value, ast.Name) \
                            and c.value.id in u.params[(1 if u.cls is not None else 0):]:
                        bad.append(norm(c))
                    # ``'.. %r' % value`` with a bare user value on the right: a tuple there is taken for
                    # the argument list (wrong arity -> TypeError); the value is wrapped, ``% (value,)``
                    if isinstance(c, ast.BinOp) and isinstance(c.op, ast.Mod) and _is_text(c.left) and isinstance(c.right, ast.Name) \
                            and c.right.id in u.params[(1 if u.cls is not None else 0):] and _may_be_tuple_at(u, r, c.right.id):
                        bad.append('%% %s' % c.right.id)
            ctx.ob(not bad, u, 'the error is built without ordering / hashing user values: raise %s' % src(r.exc.func, 40),
                   '' if not bad else '%s can itself raise for arbitrary keys or targets and replace the error' % bad, node=r)
    if n < 20:
        raise AnalysisError('C04.15: only %d GlomError raise sites found (floor 20)' % n)


@rule('C04.16')
def glom_options(ctx):
    """the three options that decide how glom() treats a failure are read under their own names
    with the documented fallbacks: default -> no default (or None when only skip_exc is given),
    skip_exc -> nothing without a default / GlomError with one, glom_debug -> the module flag"""
    p = ctx.program
    u = ctx.unit('core.glom')
    cfg = ctx.cfg(u)
    kw = u.kwarg
    pops = {}
    for n in u.own_nodes():
        if isinstance(n, ast.Assign) and is_name(n.targets[0]) and isinstance(n.value, ast.Call):
            b = match(n.value, '%s.pop($$k, $$d)' % kw)
            if b:
                ctx.ob(isinstance(b['k'], ast.Constant) and isinstance(b['k'].value, str), u,
                       'an option is read by its name: %s' % norm(n), node=n)
                if isinstance(b['k'], ast.Constant):
                    pops[b['k'].value] = (n.targets[0].id, b['d'])
    # ... every option, also the ones read inside the root-frame display
    for c in calls_in(u):
        if isinstance(c.func, ast.Attribute) and c.func.attr == 'pop' and is_name(c.func.value, kw):
            k = c.args[0] if c.args else None
            okk = isinstance(k, ast.Constant) and isinstance(k.value, str) and len(c.args) == 2
            ctx.ob(okk, u, 'option read by name with a fallback: %s' % norm(c), '' if okk else 'the option name is not the first argument', node=c)
    need = {'default', 'skip_exc', 'glom_debug'}
    ctx.ob(need <= set(pops), u, 'default, skip_exc and glom_debug are options of glom(): %s' % sorted(pops))
    if not need <= set(pops):
        return
    dv, sv, gv = pops['default'][0], pops['skip_exc'][0], pops['glom_debug'][0]
    ctx.ob(matches(pops['default'][1], "None if 'skip_exc' in %s else _MISSING" % kw), u,
           'no default unless one is given (None when only skip_exc is given): %s' % norm(pops['default'][1]))
    ctx.ob(matches(pops['skip_exc'][1], '() if %s is _MISSING else GlomError' % dv), u,
           'without a default nothing is skipped; with one, GlomErrors are: %s' % norm(pops['skip_exc'][1]))
    d = pops['glom_debug'][1]
    ctx.ob(is_name(d) and p.global_qualname(u, d) == 'core.GLOM_DEBUG', u, 'debug mode follows the module flag unless asked for: %s' % norm(d))
    hs = [h for h in cfg.nodes if h.kind == 'handler']
    ctx.ob(any(is_name(h.ast.type, sv) for h in hs), u, 'the inner handler catches exactly the skip_exc option')
    dbg = [t for t in cfg.nodes if t.kind == 'test' and is_name(t.ast, gv)]
    def reraises(r):
        if not isinstance(r, ast.Raise) or r.cause is not None:
            return False
        hn = [a.name for a in ancestors(r) if isinstance(a, ast.ExceptHandler)]
        return r.exc is None or (hn and is_name(r.exc, hn[0]))
    ok = len(dbg) == 1 and any(reraises(s_.ast) for s_, lab in dbg[0].succ if lab == 'true')
    ctx.ob(ok, u, 'only debug mode re-raises the raw exception (no translation, no trace)')
    ctx.floor(7)


# the documented conversions of the T interpreter: what a failing primitive may be turned
# into a PathAccessError for.  Anything else raised there keeps its class.
CONVERTED = {
    'getattr': {'AttributeError'},
    'getitem': {'KeyError', 'IndexError', 'TypeError'},
    'arith': {'TypeError', 'ZeroDivisionError'},
}


@rule('C04.18')
def conversions_not_wider(ctx):
    """a failing attribute / item / arithmetic step is converted to PathAccessError for its miss
    classes only: a handler that names a wider class (ArithmeticError, LookupError, Exception)
    turns e.g. an OverflowError into a GlomError that `except OverflowError` no longer matches
    and that default= swallows"""
    from .c01 import model, find_primitives, pae_constructions
    from ..util import class_names_of_handler
    m, w = model(ctx)
    cfg, u = m.cfg, m.unit
    per = {}
    for kind, node, expr in find_primitives(ctx, m):
        for h in cfg.handlers_reached_from(node):
            per.setdefault(h, set()).add(kind)
    n = 0
    for h, kinds in per.items():
        if not kinds <= set(CONVERTED):
            continue          # a registered handler may fail with anything
        body = set(handler_body_nodes(cfg, h))
        if not any(cfg.node_containing(c) in body for c in pae_constructions(ctx, u)):
            continue
        allowed = set().union(*(CONVERTED[k] for k in kinds))
        names = set(class_names_of_handler(cfg, h))
        extra = sorted(names - allowed)
        n += 1
        ctx.ob(not extra, u, 'the %s step converts only its miss classes %s: except %s' % ('/'.join(sorted(kinds)), sorted(allowed), sorted(names)),
               '' if not extra else '%s raised by the operand would leave glom() as a PathAccessError' % extra, node=h.ast)
    ctx.require(n >= 3, 'conversion handlers of the T interpreter not found (%d)' % n)
    ctx.floor(3)


@rule('C04.23')
def error_rendering_is_total(ctx):
    """the text of a glom error is rendered lazily (get_message / __repr__) -- and eagerly by
    whoever embeds it in another message (Fold turns an UnregisteredTarget into a FoldError with
    '%s' % ut).  Rendering must therefore not be able to raise: in particular it must not splice
    the recorded path through ``Path(*parts)``, which accepts T-rooted expressions only (a step
    recorded after an S / A expression raises ValueError, and that ValueError is what leaves
    glom())"""
    p = ctx.program
    n = 0
    for c in p.classes.values() if hasattr(p, 'classes') else []:
        pass
    for u in p.package_units():
        if u.cls is None or u.name not in ('get_message', '__repr__', '__str__'):
            continue
        if not is_subclass(u.cls, 'GlomError'):
            continue
        n += 1
        bad = []
        for c in calls_in(u):
            if callee_qual(p, u, c) == 'core.Path' and any(isinstance(a, ast.Starred) for a in c.args):
                bad.append(norm(c)[:60])
        ctx.ob(not bad, u, '%s.%s renders without re-building a Path from recorded parts' % (u.cls.name, u.name),
               '' if not bad else '%s raises ValueError for a part that is an S- / A-rooted expression' % bad)
    ctx.require(n >= 8, 'error rendering methods not found (%d)' % n)
    # ... and the same for a message built at the raise site: ``raise TypeError('... at %r' %
    # Path(*scope[Path]))`` -- the path recorded in the scope holds whatever steps ran before,
    # S- / A-rooted ones included, and Path() refuses those with a ValueError that then replaces
    # the error being raised
    m = 0
    for u in p.package_units():
        if u.module.short in ('tutorial', 'cli'):
            continue
        for r in [x for x in u.own_nodes() if isinstance(x, ast.Raise) and x.exc is not None]:
            m += 1
            bad = [norm(c)[:60] for c in ast.walk(r.exc) if isinstance(c, ast.Call) and callee_qual(p, u, c) == 'core.Path'
                   and any(isinstance(a, ast.Starred) for a in c.args)]
            if bad:
                ctx.ob(False, u, 'the message of `raise %s` is built without re-building a Path from recorded parts' % src(r.exc.func if isinstance(r.exc, ast.Call) else r.exc, 30),
                       '%s raises ValueError when an S- / A-rooted step was recorded before: that ValueError leaves glom() instead' % bad, node=r)
    ctx.ob(True, 'package', 'raise statements examined for partial message construction: %d' % m)
    ctx.require(m >= 60, 'raise statements not found (%d)' % m)
    ctx.floor(8)


@rule('C04.27')
def debug_switch_is_read_case_insensitively(ctx):
    """GLOM_DEBUG decides whether errors leave glom() raw (no GlomError, no trace).  The
    environment value is normalised -- stripped and lower-cased -- before it is compared with the
    "off" spellings '', '0', 'false': without ``.lower()`` the common spelling ``False`` switches
    debug mode *on* for the whole process"""
    mod = ctx.program.modules['glom.core']
    # every module-level statement that binds GLOM_DEBUG (an if / else spelling of the choice included)
    defs = [st for st in mod.tree.body if not isinstance(st, (ast.FunctionDef, ast.AsyncFunctionDef, ast.ClassDef))
            and any(isinstance(x, ast.Name) and x.id == 'GLOM_DEBUG' and isinstance(x.ctx, ast.Store) for x in ast.walk(st))]
    ctx.require(defs, 'core.GLOM_DEBUG: definition not found')
    calls = {c.func.attr for st in defs for c in ast.walk(st) if isinstance(c, ast.Call) and isinstance(c.func, ast.Attribute)}
    consts = {c.value for st in defs for c in ast.walk(st) if isinstance(c, ast.Constant) and isinstance(c.value, str)}
    ok = 'getenv' in calls or 'get' in calls
    ctx.ob(ok, 'glom/core.py', 'GLOM_DEBUG is read from the environment: %s' % [norm(st)[:60] for st in defs])
    ok = {'lower', 'strip'} <= calls or 'casefold' in calls
    ctx.ob(ok, 'glom/core.py', 'the value is stripped and lower-cased before it is compared (%s)' % sorted(calls),
           '' if ok else "GLOM_DEBUG=False / FALSE is not among the off spellings: debug mode is on, every error leaves glom() unwrapped", node=defs[0])
    ok = {'', '0', 'false'} <= consts
    ctx.ob(ok, 'glom/core.py', "'', '0' and 'false' mean off: %s" % sorted(consts))
    ctx.floor(3)


@rule('C04.28')
def aggregators_refuse_other_modes_by_the_mode(ctx):
    """an aggregator used outside Group mode is a BadSpec; what says "Group mode" is the frame's
    MODE, not the presence of an accumulator tree further up the scope chain (that is inherited
    through Auto / Fill / Match wrappers below a Group)"""
    u = ctx.unit('grouping.Limit.glomit')
    cfg = ctx.cfg(u)
    scope = u.params[2]
    raises = [n for n in cfg.nodes if n.kind == 'stmt' and isinstance(n.ast, ast.Raise)
              and is_subclass(raised_class(ctx.program, u, n.ast), 'BadSpec')]
    ctx.require(raises, 'Limit.glomit: BadSpec raise not found')
    ok = False
    for t in cfg.nodes:
        if t.kind != 'test':
            continue
        pol = polarity(t.ast, '%s[MODE] is not GROUP' % scope)
        if pol and cfg.find_path(t, set(raises), labels=lambda l: l != 'exc', start_labels=lambda l, y=pol: l == y) is not None \
                and cfg.find_path(t, set(raises), labels=lambda l: l != 'exc', start_labels=lambda l, y=pol: l != y) is None:
            ok = True
    ctx.ob(ok, u, 'Limit outside Group mode is refused by testing the frame\'s MODE',
           '' if ok else 'the BadSpec is not decided by `scope[MODE] is not GROUP`: below a Group but inside another mode the aggregator runs on', node=raises[0].ast)
    ctx.floor(1)
