"""C17 -- Iter pipelines equal the itertools composition, stay lazy, never mutate specs."""
import ast
import os

from . import rule, info
from ..program import AnalysisError, src, norm, ClassInfo
from ..tables import EAGER_CONSUMERS
from ..util import (polarity, exclusive, is_name, calls_in, callee_qual, deref, ancestors, stmt_of, parent, evaluator_calls, kwarg)
from .common import option_usage

info('C17',
     explanation='Static decision of: builder methods of Iter and Invoke write nothing reachable from self and '
                 'return an object allocated in the method; a builder that re-constructs its own class forwards '
                 'every constructor-settable field of self (copy-on-write carries all state); stage order '
                 'agreement (stages are prepended and folded in reverse, and __repr__ walks the same direction); '
                 'laziness (the base iteration is a generator, every stage callback is a lazy combinator applied '
                 'to its iterable parameter, no eager consumer touches the stream, the boltons helpers are '
                 'generator functions -- verified by parsing their source); SKIP / STOP / sentinel handling; '
                 'each stage uses the combinator its name denotes, on the spec it was given.',
     decided=['C17.1 builders are pure', 'C17.2 copy-on-write forwards all state', 'C17.3 stage order', 'C17.4 laziness',
              'C17.5 sentinel handling and options', 'C17.6 stage/combinator table', 'C17.7 terminal methods'],
     not_decided=['element-wise equality with the itertools composition', 'the exact consumption bound per stage'])

STAGES = {
    'map': ('builtins.map', 'spec'), 'filter': ('builtins.filter', 'spec'), 'chunked': ('boltons.iterutils.chunked_iter', None),
    'windowed': ('boltons.iterutils.windowed_iter', None), 'split': ('boltons.iterutils.split_iter', None),
    'flatten': ('itertools.chain.from_iterable', None), 'unique': ('boltons.iterutils.unique_iter', 'spec'),
    'slice': ('itertools.islice', None), 'limit': ('itertools.islice', None),
    'takewhile': ('itertools.takewhile', 'spec'), 'dropwhile': ('itertools.dropwhile', 'spec'),
}
BOLTONS_GENERATORS = ('split_iter', 'chunked_iter', 'unique_iter')
BOLTONS_BOUNDED = ('windowed_iter',)     # tee/zip based: bounded prefetch of size-1 items, documented


def state_fields(ctx, cls):
    """attributes stored by __init__ -> constructor key (parameter name or
    popped keyword) or None when the field has no constructor key"""
    init = cls.methods['__init__']
    out = {}
    for n in init.own_nodes():
        if isinstance(n, ast.Assign):
            pairs = []
            for t in n.targets:
                if isinstance(t, ast.Attribute) and is_name(t.value, 'self'):
                    pairs.append((t.attr, n.value))
                elif isinstance(t, ast.Tuple) and isinstance(n.value, ast.Tuple):
                    for a, b in zip(t.elts, n.value.elts):
                        if isinstance(a, ast.Attribute) and is_name(a.value, 'self'):
                            pairs.append((a.attr, b))
            for attr, v in pairs:
                key = None
                if isinstance(v, ast.Name) and v.id in init.all_params:
                    key = v.id
                elif isinstance(v, ast.Call) and isinstance(v.func, ast.Attribute) and v.func.attr in ('pop', 'get') \
                        and v.args and isinstance(v.args[0], ast.Constant):
                    key = v.args[0].value
                out[attr] = key
    return out, init


@rule('C17.1')
def builders_pure(ctx):
    an = ctx.analysis
    p = ctx.program
    an.all_effects()
    by_unit = {}
    for e in an.all_effects():
        by_unit.setdefault(e.unit, []).append(e)
    n = 0
    for q in ('streaming.Iter', 'core.Invoke'):
        c = ctx.cls(q)
        for name, u in sorted(c.methods.items()):
            if name.startswith('__') or name in ('glomit', '_iterate'):
                continue
            rets = [r for r in u.own_nodes() if isinstance(r, ast.Return) and r.value is not None]
            if not rets:
                continue
            n += 1
            bad = [e for e in by_unit.get(u, []) if any(t[0] in ('param', 'reach') and t[1] == 'self' for t in e.origins)]
            ctx.ob(not bad, u, '%s.%s writes nothing reachable from self' % (c.name, name),
                   '; '.join('%s (%s)' % (e.text(), e.kind) for e in bad[:3]))
            fl = an.flow(u)
            for r in rets:
                toks = fl.orig_at(r.value)
                fresh = [t for t in toks if t[0] == 'fresh']
                is_self = any(t == ('param', 'self') for t in toks)
                ctx.ob(bool(fresh) and not is_self, u, '%s.%s returns a new object, never self: %s' % (c.name, name, src(r, 60)), node=r)
    ctx.require(n >= 16, 'only %d builder methods found' % n)
    ctx.floor(32)


@rule('C17.2')
def copy_on_write(ctx):
    p = ctx.program
    n_builders = 0
    for q in ('streaming.Iter', 'core.Invoke'):
        c = ctx.cls(q)
        fields, init = state_fields(ctx, c)
        ctx.require(len(fields) >= 3, '%s: fewer than 3 state fields found' % q)
        for name, u in sorted(c.methods.items()):
            if name == '__init__':
                continue
            ctors = [call for call in calls_in(u) if p.resolve_callee(u, call) == ('class', c)
                     and not isinstance(call.func, ast.Name)]
            for call in ctors:
                n_builders += 1
                st = stmt_of(call)
                newvar = st.targets[0].id if isinstance(st, ast.Assign) and is_name(st.targets[0]) else None
                stored_later = set()
                if newvar:
                    for s in u.own_nodes():
                        if isinstance(s, ast.Assign):
                            for t in s.targets:
                                if isinstance(t, ast.Attribute) and is_name(t.value, newvar):
                                    stored_later.add(t.attr)
                kws = {k.arg for k in call.keywords}
                pos = init.params[1:1 + len(call.args)]
                for f, key in sorted(fields.items()):
                    # what is forwarded must derive from self.<f>
                    fw = None
                    if key is not None and key in kws:
                        fw = [k.value for k in call.keywords if k.arg == key][0]
                    elif key is not None and key in pos:
                        fw = call.args[pos.index(key)]
                    ok = f in stored_later
                    if fw is not None:
                        ok = ok or any(isinstance(x, ast.Attribute) and x.attr == f and is_name(x.value, 'self') for x in ast.walk(fw))
                    ctx.ob(ok, u, '%s.%s forwards self.%s to the new %s' % (c.name, name, f, c.name),
                           '' if ok else 'the rebuilt spec silently falls back to the constructor default for %r: '
                           'state set on the original is lost by chaining a method' % f, node=call)
    ctx.require(n_builders >= 4, 'only %d re-constructing builders found' % n_builders)
    ctx.floor(12)


@rule('C17.3')
def stage_order(ctx):
    u = ctx.unit('streaming.Iter._add_op')
    calls = [c for c in calls_in(u) if ctx.program.resolve_callee(u, c)[0] == 'class']
    ctx.require(len(calls) == 1, '_add_op: constructor call not found')
    st = kwarg(calls[0], '_iter_stack')
    mode = None
    if isinstance(st, ast.BinOp) and isinstance(st.op, ast.Add):
        l_self = isinstance(st.left, ast.Attribute) and st.left.attr == '_iter_stack'
        r_self = isinstance(st.right, ast.Attribute) and st.right.attr == '_iter_stack'
        if r_self and isinstance(st.left, ast.List):
            mode = 'prepend'
            new = st.left
        elif l_self and isinstance(st.right, ast.List):
            mode = 'append'
            new = st.right
    ctx.ob(mode is not None, u, 'a new stage list is built from the old one (no in-place change): %s' % (norm(st) if st is not None else None))
    if mode:
        e = new.elts[0] if len(new.elts) == 1 else None
        ok = isinstance(e, ast.Tuple) and [x.id if isinstance(x, ast.Name) else None for x in e.elts] == u.params[1:4]
        ctx.ob(ok, u, 'a stage is recorded as (name, args, callback): %s' % (norm(e) if e is not None else None))
    def direction(unit):
        for lp in [n for n in unit.own_nodes() if isinstance(n, (ast.For, ast.comprehension))]:
            it = lp.iter
            if isinstance(it, ast.Call) and is_name(it.func, 'reversed') and norm(it.args[0]) == 'self._iter_stack':
                return 'reverse', lp
            if norm(it) == 'self._iter_stack':
                return 'forward', lp
        return None, None
    g = ctx.unit('streaming.Iter.glomit')
    gd, glp = direction(g)
    want = {'prepend': 'reverse', 'append': 'forward'}.get(mode)
    ctx.ob(gd == want and gd is not None, g, 'stages are applied in the order they were chained (%s stack, %s fold)' % (mode, gd))
    r = ctx.unit('streaming.Iter.__repr__')
    rd, _ = direction(r)
    ctx.ob(rd == gd, r, 'repr walks the stages in the same direction as evaluation (%s)' % rd)
    # the fold: iterator = callback(iterator, scope), starting from the base iteration
    if glp is not None:
        tg = glp.target
        cb = tg.elts[2].id if isinstance(tg, ast.Tuple) and len(tg.elts) == 3 and is_name(tg.elts[2]) else None
        body = glp.body
        ok = len(body) == 1 and isinstance(body[0], ast.Assign) and isinstance(body[0].value, ast.Call) and is_name(body[0].value.func, cb) \
            and is_name(body[0].value.args[0], body[0].targets[0].id) and is_name(body[0].value.args[1], g.params[2])
        ctx.ob(ok, g, 'each stage wraps the stream produced so far: %s' % [norm(b) for b in body])
        itv = body[0].targets[0].id if ok else None
        init = [n for n in g.node.body if isinstance(n, ast.Assign) and is_name(n.targets[0], itv)]
        ok = len(init) == 1 and norm(init[0].value) == 'self._iterate(%s, %s)' % (g.params[1], g.params[2])
        ctx.ob(ok, g, 'the stream starts as the base iteration of the target: %s' % [norm(i) for i in init])
        rets = [n for n in g.node.body if isinstance(n, ast.Return)]
        ok = len(rets) == 1 and norm(rets[0].value) == 'iter(%s)' % itv
        ctx.ob(ok, g, 'the result is an iterator over the staged stream: %s' % [norm(x) for x in rets])
    ctx.floor(7)


def _boltons_source():
    cands = []
    for base in ('/venv/lib',):
        for root, dirs, files in os.walk(base):
            if root.endswith(os.path.join('boltons')) and 'iterutils.py' in files:
                cands.append(os.path.join(root, 'iterutils.py'))
    return cands[0] if cands else None


@rule('C17.4')
def laziness(ctx):
    p = ctx.program
    u = ctx.unit('streaming.Iter._iterate')
    ctx.ob(u.is_generator(), u, 'the base iteration is a generator')
    for q in ('streaming.Iter._iterate', 'streaming.Iter.glomit'):
        uu = ctx.unit(q)
        stream_vars = {n.targets[0].id for n in uu.own_nodes() if isinstance(n, ast.Assign) and is_name(n.targets[0])
                       and isinstance(n.value, ast.Call)} | {uu.params[1]}
        eager = [c for c in calls_in(uu) if isinstance(c.func, ast.Name) and c.func.id in EAGER_CONSUMERS
                 and any(isinstance(a, ast.Name) and a.id in stream_vars for a in c.args)]
        comps = [n for n in uu.own_nodes() if isinstance(n, (ast.ListComp, ast.SetComp, ast.DictComp))
                 and any(isinstance(x, ast.Name) and x.id in stream_vars for g in n.generators for x in ast.walk(g.iter))]
        ctx.ob(not eager and not comps, uu, 'no eager consumer touches the stream in %s' % uu.name,
               '%s' % [norm(e) for e in eager + comps])
    c = ctx.cls('streaming.Iter')
    n = 0
    for name, (comb, kind) in sorted(STAGES.items()):
        m = c.methods.get(name)
        ctx.require(m is not None, 'Iter.%s not found' % name)
        adds = [x for x in calls_in(m) if isinstance(x.func, ast.Attribute) and x.func.attr == '_add_op']
        ctx.require(len(adds) == 1, 'Iter.%s: _add_op call not found' % name)
        cb = adds[0].args[2] if len(adds[0].args) > 2 else None
        n += 1
        if not isinstance(cb, ast.Lambda):
            ctx.ob(False, m, 'stage %s is the lazy combinator %s applied in a lambda' % (name, comb.split('.')[-1]),
                   'the stage callback is %s, not `lambda stream, scope: %s(...)`' % (src(cb) if cb is not None else None, comb.split('.')[-1]),
                   node=adds[0])
            continue
        itp = cb.args.args[0].arg
        body = cb.body
        ok = isinstance(body, ast.Call) and callee_qual(p, p.unit_of(cb), body) == comb
        ctx.ob(ok, m, 'stage %s is the lazy combinator %s: %s' % (name, comb.split('.')[-1], src(body, 60)), node=cb)
        if ok:
            # the stream parameter is passed as the iterable (last positional for map/filter/takewhile/dropwhile, first otherwise)
            pos = [a for a in body.args if is_name(a, itp)]
            ctx.ob(len(pos) == 1, m, 'applied to the stream it is handed: %s' % src(body, 60), node=cb)
            eager = [x for x in ast.walk(body) if isinstance(x, ast.Call) and isinstance(x.func, ast.Name) and x.func.id in EAGER_CONSUMERS]
            ctx.ob(not eager, m, 'without an eager consumer', '%s' % [norm(e) for e in eager], node=cb)
    # boltons helpers are generator functions (parsed, never imported)
    path = _boltons_source()
    ctx.require(path is not None, 'boltons/iterutils.py not found on disk')
    with open(path, encoding='utf-8') as f:
        tree = ast.parse(f.read())
    funcs = {n.name: n for n in tree.body if isinstance(n, ast.FunctionDef)}
    for fn in BOLTONS_GENERATORS:
        node = funcs.get(fn)
        gen = node is not None and any(isinstance(x, (ast.Yield, ast.YieldFrom)) for x in ast.walk(node))
        ctx.ob(gen, 'boltons/iterutils.py', 'boltons.iterutils.%s is a generator function' % fn)
    for fn in BOLTONS_BOUNDED:
        node = funcs.get(fn)
        ok = node is not None and not any(isinstance(c, ast.Call) and isinstance(c.func, ast.Name) and c.func.id in ('list', 'tuple', 'sorted')
                                          for c in ast.walk(node))
        ctx.ob(ok, 'boltons/iterutils.py', 'boltons.iterutils.%s materialises nothing (tee/zip with bounded prefetch)' % fn)
    ctx.floor(3 + 3 * len(STAGES) + 4)


@rule('C17.5')
def sentinels_and_options(ctx):
    p = ctx.program
    u = ctx.unit('streaming.Iter._iterate')
    cfg = ctx.cfg(u)
    tests = [n for n in cfg.nodes if n.kind == 'test' and 'self.sentinel' in norm(n.ast)]
    ok = len(tests) == 1 and isinstance(tests[0].ast, ast.BoolOp) and isinstance(tests[0].ast.op, ast.Or)
    ctx.ob(ok, u, 'the configured sentinel is tested on every item: %s' % [norm(t.ast) for t in tests])
    if tests:
        t = tests[0]
        # on the sentinel edge nothing more is yielded and no further item is fetched
        ylds = {n for n in cfg.nodes if n.kind == 'stmt' and any(isinstance(x, (ast.Yield, ast.YieldFrom)) for x in ast.walk(n.ast))}
        hdrs = set(t.loop_stack)
        on_true = lambda lab: lab == 'true'
        ok = cfg.find_path(t, ylds | hdrs, start_labels=on_true) is None
        ctx.ob(ok, u, 'the sentinel (or STOP) ends the stream')
    option_usage(ctx, ['streaming.Iter'])
    # subspec is evaluated on each item in this frame; T means the item itself
    evs = evaluator_calls(p, u)
    lp = [n for n in u.own_nodes() if isinstance(n, ast.For)]
    item = lp[0].target.elts[-1].id if lp and isinstance(lp[0].target, ast.Tuple) else None
    ok = len(evs) == 1 and is_name(evs[0].args[0], item) and norm(evs[0].args[1]) == 'self.subspec'
    ctx.ob(ok, u, 'the subspec is applied to each item: %s' % [norm(e) for e in evs])
    ife = [n for n in u.own_nodes() if isinstance(n, ast.IfExp)]
    ok = len(ife) == 1 and norm(ife[0].test) == 'self.subspec is T' and is_name(ife[0].body, item)
    ctx.ob(ok, u, 'T yields the item itself')
    iu = ctx.unit('streaming.Iter.__init__')
    sd = [n for n in iu.own_nodes() if isinstance(n, ast.Assign) and isinstance(n.targets[0], ast.Attribute) and n.targets[0].attr == 'sentinel']
    ok = len(sd) == 1 and isinstance(sd[0].value, ast.Call) and len(sd[0].value.args) == 2 and p.global_qualname(iu, sd[0].value.args[1]) == 'core.STOP'
    ctx.ob(ok, iu, 'the sentinel defaults to STOP: %s' % [norm(s) for s in sd])
    st = [n for n in iu.own_nodes() if isinstance(n, ast.Assign) and isinstance(n.targets[0], ast.Attribute) and n.targets[0].attr == '_iter_stack']
    ok = len(st) == 1 and isinstance(st[0].value, ast.Call) and len(st[0].value.args) == 2 and isinstance(st[0].value.args[1], ast.List) and not st[0].value.args[1].elts
    ctx.ob(ok, iu, 'a new Iter starts with its own empty stage list (allocated per construction): %s' % [norm(s) for s in st])
    ctx.floor(8)


@rule('C17.6')
def stage_table(ctx):
    p = ctx.program
    c = ctx.cls('streaming.Iter')
    for name, (comb, kind) in sorted(STAGES.items()):
        m = c.methods[name]
        add = [x for x in calls_in(m) if isinstance(x.func, ast.Attribute) and x.func.attr == '_add_op'][0]
        ok = isinstance(add.args[0], ast.Constant) and add.args[0].value == name
        ctx.ob(ok, m, 'stage %s records its own method name (repr re-invokes it): %s' % (name, norm(add.args[0])))
        cb = add.args[2]
        lu = p.unit_of(cb) if isinstance(cb, ast.Lambda) else None
        if lu is None:
            ctx.ob(False, m, 'stage %s has a lambda callback' % name, node=add)
            continue
        if kind == 'spec':
            # the per-item function evaluates the stage's spec on the item in the evaluation's frame
            inner = [x for x in lu.children if x.is_lambda]
            evs = [e for x in inner for e in evaluator_calls(p, x)]
            ok = len(evs) == 1
            if ok:
                e = evs[0]
                il = [x for x in inner if e in calls_in(x)][0]
                ok = is_name(e.args[0], il.params[0]) and is_name(e.args[2], cb.args.args[1].arg) and isinstance(e.args[1], ast.Name)
                sp = e.args[1].id if ok else None
                ok = ok and (sp in m.params or sp in m.locals)
            ctx.ob(ok, m, 'stage %s evaluates its spec on each item in the evaluation\'s frame: %s' % (name, [norm(e) for e in evs]))
        # parameters of the method reach the combinator
        used = {x.id for x in ast.walk(cb.body) if isinstance(x, ast.Name)}
        for pn in m.params[1:]:
            def stored_names(s):
                out = set()
                for x in ast.walk(s):
                    if isinstance(x, ast.Name) and isinstance(x.ctx, ast.Store):
                        out.add(x.id)
                    if isinstance(x, (ast.Subscript, ast.Attribute)) and isinstance(x.ctx, ast.Store) and isinstance(x.value, ast.Name):
                        out.add(x.value.id)
                return out
            via = pn in used or any(pn in {y.id for y in ast.walk(s) if isinstance(y, ast.Name)} and (stored_names(s) & used)
                                    for s in m.node.body if isinstance(s, (ast.Assign, ast.AugAssign, ast.If)))
            ctx.ob(via, m, 'parameter %s of stage %s reaches the combinator' % (pn, name))
    # filter: Check(key, default=SKIP) and `is not SKIP`
    m = c.methods['filter']
    cs = [x for x in calls_in(m) if callee_qual(p, m, x) == 'matching.Check']
    ok = len(cs) == 1 and is_name(cs[0].args[0], 'key') and any(k.arg == 'default' and p.global_qualname(m, k.value) == 'core.SKIP' for k in cs[0].keywords)
    ctx.ob(ok, m, 'filter keeps an item when Check(key, default=SKIP) does not answer SKIP: %s' % [norm(x) for x in cs])
    cmpn = [n for n in ast.walk(m.node) if isinstance(n, ast.Compare) and isinstance(n.ops[0], ast.IsNot) and p.global_qualname(m, n.comparators[0]) == 'core.SKIP']
    ctx.ob(len(cmpn) == 1, m, 'the predicate is `... is not SKIP`')
    # limit(count) = islice(it, count); slice(*args) = islice(it, *args)
    for name, want in (('limit', 'islice(it, count)'), ('slice', 'islice(it, *args)')):
        m = c.methods[name]
        add = [x for x in calls_in(m) if isinstance(x.func, ast.Attribute) and x.func.attr == '_add_op'][0]
        ctx.ob(norm(add.args[2].body) == want, m, '%s is %s' % (name, want))
    ctx.floor(30)


@rule('C17.7')
def terminals(ctx):
    p = ctx.program
    c = ctx.cls('streaming.Iter')
    u = c.methods['all']
    r = [n for n in u.node.body if isinstance(n, ast.Return)]
    ok = len(r) == 1 and isinstance(r[0].value, ast.Call) and callee_qual(p, u, r[0].value) == 'core.Pipe' \
        and is_name(r[0].value.args[0], 'self') and is_name(r[0].value.args[1], 'list')
    ctx.ob(ok, u, 'all() is Pipe(self, list): %s' % [norm(x) for x in r])
    u = c.methods['first']
    r = [n for n in u.node.body if isinstance(n, ast.Return)]
    ok = len(r) == 1 and isinstance(r[0].value, ast.Tuple) and is_name(r[0].value.elts[0], 'self') and isinstance(r[0].value.elts[1], ast.Call) \
        and callee_qual(p, u, r[0].value.elts[1]) == 'streaming.First'
    if ok:
        kw = {k.arg: norm(k.value) for k in r[0].value.elts[1].keywords}
        ok = kw == {'key': 'key', 'default': 'default'}
    ctx.ob(ok, u, 'first() is (self, First(key=key, default=default)): %s' % [norm(x) for x in r])
    fu = ctx.unit('streaming.First.__init__')
    cs = [x for x in calls_in(fu) if callee_qual(p, fu, x) == 'core.Call' and x.args and callee_qual(p, fu, x) and is_name(x.args[0], 'first')]
    ok = len(cs) == 1
    if ok:
        kw = kwarg(cs[0], 'kwargs')
        ok = isinstance(kw, ast.Dict) and sorted(k.value for k in kw.keys) == ['default', 'key'] and norm(kwarg(cs[0], 'args')) == '(T,)'
    ctx.ob(ok, fu, 'First is boltons first(stream, default=default, key=<spec on the item>): %s' % [norm(x) for x in cs])
    gu = ctx.unit('streaming.First.glomit')
    r = [n for n in gu.node.body if isinstance(n, ast.Return)]
    ok = len(r) == 1 and norm(r[0].value) == 'self._first.glomit(%s, %s)' % (gu.params[1], gu.params[2])
    ctx.ob(ok, gu, 'First evaluates that call on the stream')
    # boltons first() stops at the first truthy key: it returns from inside its loop
    path = _boltons_source()
    with open(path, encoding='utf-8') as f:
        tree = ast.parse(f.read())
    fn = [n for n in tree.body if isinstance(n, ast.FunctionDef) and n.name == 'first']
    ok = len(fn) == 1 and not any(isinstance(c, ast.Call) and isinstance(c.func, ast.Name) and c.func.id in ('list', 'tuple', 'sorted') for c in ast.walk(fn[0]))
    ctx.ob(ok, 'boltons/iterutils.py', 'boltons first() does not materialise the stream')
    ctx.floor(5)


@rule('C17.9')
def no_state_in_builders(ctx):
    """a stage is built once and evaluated many times: nothing allocated while
    *building* the spec may be written while *evaluating* it"""
    an = ctx.analysis
    p = ctx.program
    an.all_effects()
    n = 0
    spec_classes = set(p.glomit_classes())
    for u in p.package_units():
        if u.parent is None:
            continue
        top = u
        while top.parent is not None:
            top = top.parent
        if top.cls not in spec_classes or top.name in ('glomit', '_glomit', '_iterate', 'agg', '_agg', '_fold', '__repr__'):
            continue
        n += 1
        lo, hi = u.node.lineno, getattr(u.node, 'end_lineno', u.node.lineno)
        bad = []
        for e in an.direct_effects(u):
            for t in e.origins:
                if t[0] == 'fresh' and not (lo <= t[1][0] <= hi):
                    bad.append((e, t))
        for e, t in bad:
            ctx.ob(False, u, 'a callback built by %s.%s writes nothing allocated at build time: %s' % (top.cls.name, top.name, e.text()),
                   '%s on %s allocated at line %d of the builder: state shared by every evaluation of the spec'
                   % (e.kind, src(e.base), t[1][0]), node=e.node)
        if not bad:
            ctx.ob(True, u, 'callback of %s.%s keeps no build-time state' % (top.cls.name, top.name))
    if n < 15:
        raise AnalysisError('C17.9: only %d builder callbacks found (floor 15)' % n)


_BUILTIN_ARITY = {   # positional capacity of the C-implemented combinators (None: unbounded)
    'itertools.islice': 4, 'itertools.takewhile': 2, 'itertools.dropwhile': 2, 'itertools.chain.from_iterable': 1,
    'builtins.map': None, 'builtins.filter': 2,
}


def _boltons_signature(name):
    """(max positional arguments or None, keyword names or None when **kw) of a boltons.iterutils
    function, read from the installed source (the resolved program includes its dependencies)"""
    import importlib.util
    spec = importlib.util.find_spec('boltons.iterutils')
    if spec is None or not spec.origin:
        raise AnalysisError('boltons.iterutils source not found')
    tree = ast.parse(open(spec.origin).read())
    for n in tree.body:
        if isinstance(n, ast.FunctionDef) and n.name == name:
            a = n.args
            pos = None if a.vararg else len(a.posonlyargs) + len(a.args)
            kws = None if a.kwarg else {x.arg for x in a.args + a.kwonlyargs}
            return pos, kws
    raise AnalysisError('boltons.iterutils.%s not found' % name)


@rule('C17.11')
def combinator_calls(ctx):
    """each stage hands its own parameters, as given, to the combinator it stands for, in a call
    the combinator's signature accepts: (a) a local passed on is only a display / keyword table
    of parameters, never a value recomputed from one (frozenset(sep) splits a string separator
    into characters); (b) the positional and keyword arguments fit the callee (chunked_iter takes
    fill by keyword only)"""
    p = ctx.program
    c = ctx.cls('streaming.Iter')
    n = 0
    for name, (comb, kind) in sorted(STAGES.items()):
        m = c.methods[name]
        mcfg = ctx.cfg(m)
        add = [x for x in calls_in(m) if isinstance(x.func, ast.Attribute) and x.func.attr == '_add_op'][0]
        cb = add.args[2]
        if not isinstance(cb, ast.Lambda):
            continue
        lu = p.unit_of(cb)
        calls = [x for x in ast.walk(cb.body) if isinstance(x, ast.Call) and callee_qual(p, lu, x) == comb]
        ctx.ob(len(calls) == 1, m, 'stage %s calls %s once' % (name, comb))
        if len(calls) != 1:
            continue
        call = calls[0]
        params = set(m.params[1:]) | ({m.vararg} if m.vararg else set()) | ({m.kwarg} if m.kwarg else set())
        lam_params = {a.arg for a in cb.args.args}
        inner_bound = {a.arg for x in ast.walk(cb.body) if isinstance(x, ast.Lambda) for a in x.args.args}
        # (a) locals handed on are tables of parameters
        for x in ast.walk(call):
            if not (isinstance(x, ast.Name) and isinstance(x.ctx, ast.Load)):
                continue
            if x.id in params or x.id in lam_params or x.id in inner_bound or x.id not in m.locals:
                continue
            if name == 'filter':
                continue      # key -> Check(key, default=SKIP): decided by its own obligations in C17.6
            n += 1

            def table(e):
                if isinstance(e, (ast.Constant,)):
                    return True
                if isinstance(e, ast.Name):
                    return e.id in params or e.id == x.id
                if isinstance(e, (ast.Tuple, ast.List)):
                    return all(table(y) for y in e.elts)
                if isinstance(e, ast.Dict):
                    return all(k is not None and table(k) for k in e.keys) and all(table(v) for v in e.values)
                if isinstance(e, ast.IfExp):
                    return table(e.body) and table(e.orelse)
                if isinstance(e, ast.BinOp) and isinstance(e.op, ast.Add):
                    return table(e.left) and table(e.right)
                return False
            defs = [s for s in m.own_nodes() if isinstance(s, (ast.Assign, ast.AugAssign)) and any(
                (isinstance(t, ast.Name) and t.id == x.id) or (isinstance(t, ast.Subscript) and is_name(t.value, x.id))
                for t in (s.targets if isinstance(s, ast.Assign) else [s.target]))]
            bad = [norm(s)[:60] for s in defs if not table(s.value)]
            ctx.ob(bool(defs) and not bad, m, 'stage %s hands %s on as a table of its parameters' % (name, x.id),
                   '' if not bad else 'recomputed from a parameter: %s' % bad, node=call)
        # (b) the call fits the callee
        if comb.startswith('boltons.iterutils.'):
            cap, kws = _boltons_signature(comb.rsplit('.', 1)[1])
        else:
            cap, kws = _BUILTIN_ARITY.get(comb, None), None
        npos = 0
        unknown = False
        for a in call.args:
            if isinstance(a, ast.Starred):
                if is_name(a.value) and a.value.id == m.vararg:
                    unknown = True
                    continue
                lens = set()
                vals = [v for _, v in mcfg.reaching_defs(mcfg.node_containing(add), a.value.id)] if is_name(a.value) else [a.value]
                for v in vals:
                    if isinstance(v, (ast.Tuple, ast.List)):
                        lens.add(len(v.elts))
                    else:
                        unknown = True
                # later ``args += (x,)`` extensions
                if is_name(a.value):
                    for s in m.own_nodes():
                        if isinstance(s, ast.AugAssign) and is_name(s.target, a.value.id) and isinstance(s.value, ast.Tuple):
                            lens = lens | {l + len(s.value.elts) for l in lens}
                npos += max(lens) if lens else 0
            else:
                npos += 1
        n += 1
        ok = cap is None or unknown or npos <= cap
        ctx.ob(ok, m, 'stage %s: %s takes at most %s positional arguments, the call passes up to %d' % (name, comb, cap, npos),
               '' if ok else 'TypeError at evaluation when every optional argument is given', node=call)
        if kws is not None:
            given = [k.arg for k in call.keywords if k.arg is not None]
            bad = sorted(set(given) - kws)
            ctx.ob(not bad, m, 'stage %s: keywords %s exist in %s' % (name, given, comb), '' if not bad else str(bad), node=call)
    # chunked: the fill value is handed on exactly when one was given
    m = c.methods['chunked']
    mcfg = ctx.cfg(m)
    fillp = 'fill' if 'fill' in m.params else None
    stores = [x for x in mcfg.nodes if x.kind == 'stmt' and fillp and isinstance(x.ast, ast.Assign)
              and isinstance(x.ast.targets[0], ast.Subscript) and is_name(x.ast.value, fillp)]
    ok = False
    if len(stores) == 1:
        # keyword table extended under the test
        for t in mcfg.nodes:
            if t.kind == 'test':
                pol = polarity(t.ast, '%s is not _MISSING' % fillp)
                if pol and stores[0] in exclusive(mcfg, t, pol):
                    ok = True
    elif not stores and fillp:
        # two tables, chosen by the test (however the choice is written)
        from ..util import choice_values
        addn = mcfg.node_containing([x for x in calls_in(m) if isinstance(x.func, ast.Attribute) and x.func.attr == '_add_op'][0])
        kwn = [k.value.id for x in ast.walk(addn.ast) if isinstance(x, ast.Call) for k in x.keywords if k.arg is None and is_name(k.value)]
        for name in kwn:
            cv = choice_values(mcfg, addn, name, '%s is _MISSING' % fillp)
            if cv and len(cv[0]) == 1 and len(cv[1]) == 1:
                def keys(txt):
                    e = ast.parse(txt, mode='eval').body
                    return {k.value for k in e.keys if isinstance(k, ast.Constant)} if isinstance(e, ast.Dict) else None
                k_missing, k_given = keys(cv[0][0]), keys(cv[1][0])
                ok = k_missing is not None and k_given is not None and 'fill' not in k_missing and 'fill' in k_given
    ctx.ob(ok, m, 'chunked passes fill on exactly when it was given (otherwise the last chunk stays short)',
           '' if ok else 'the _MISSING marker itself would pad the last chunk')
    ctx.require(n >= 8, 'combinator calls not found (%d)' % n)
    ctx.floor(8)
