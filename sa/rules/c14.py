"""C14 -- wildcards enumerate children / descendants once, tolerate misses, terminate."""
import ast

from . import rule, info
from ..program import AnalysisError, src, norm, ClassInfo
from ..util import (exclusive, polarity, is_name, calls_in, callee_qual, deref, ancestors, stmt_of, parent, handler_outcomes,
                    handler_covers, fmt_witness, completes_normally, evaluator_calls)
from .c01 import model

info('C14',
     explanation='Static decision of: worklist discipline of the ** traversal (every expansion of an object into '
                 'the worklist -- the root\'s included -- is preceded by recording id(object) in the visited set, '
                 'and expansions inside the loop are guarded by the not-in test: at most one expansion per '
                 'object, which is also the termination argument); misses are dropped (per-entry evaluation '
                 'under a PathAccessError handler that completes normally; child enumeration swallows per-key '
                 'failures); the remaining steps are delegated once and the loop is left; wildcard op-code '
                 'agreement between producers, counter, interpreter, formatter and text parser; one new list '
                 'per wildcard step; breadth-first order with the value itself first.',
     decided=['C14.1 worklist discipline', 'C14.2 misses dropped', 'C14.3 wildcard code agreement',
              'C14.4 nesting agreement', 'C14.5 order', 'C14.6 child enumeration'],
     not_decided=['order / multiplicity of children for arbitrary object graphs'])


def wildcard_branch(ctx):
    m, w = model(ctx)
    b = None
    for br in m.branches:
        if br.codes == {'x', 'X'} and b is None:
            b = br          # the outermost one: it holds the per-entry loop as well
    ctx.require(b is not None, "_t_eval: no branch testing both wildcard codes ('x', 'X')")
    return m, w, b


def expansions(ctx, m, stmts):
    p = ctx.program
    out = []
    for s in stmts:
        for c in ast.walk(s):
            if isinstance(c, ast.Call) and callee_qual(p, m.unit, c) == 'core._extend_children':
                out.append(c)
    return out


@rule('C14.1')
def worklist(ctx):
    m, w, b = wildcard_branch(ctx)
    u, cfg = m.unit, m.cfg
    # what runs for '**': the wildcard branch with the tests on the op code decided
    body = m.code_slice(b.body, 'X')
    ctx.require(any(s_ not in m.code_slice(b.body, 'x') for s_ in body), "_t_eval: '**' sub-branch not found")
    exps = expansions(ctx, m, body)
    ctx.require(len(exps) >= 2, "'**': expansions not found")
    work = exps[0].args[0].id if is_name(exps[0].args[0]) else None
    loops = [n for s in body for n in ast.walk(s) if isinstance(n, ast.For) and is_name(n.iter, work)
             and any(e_ in list(ast.walk(n)) for e_ in exps)]
    ctx.require(len(loops) == 1, "'**': loop over the worklist not found")
    lp = loops[0]
    ln = cfg.node_of(lp)
    sets = [n for s in body for n in ast.walk(s) if isinstance(n, ast.Assign) and is_name(n.targets[0])
            and (isinstance(n.value, (ast.Set, ast.SetComp)) or (isinstance(n.value, ast.Call) and is_name(n.value.func, 'set')))]
    ctx.require(len(sets) == 1, "'**': visited set not found")
    seen = sets[0].targets[0].id
    ctx.ob(cfg.dominates(cfg.node_of(sets[0]), ln) and not cfg.node_of(sets[0]).loop_stack[len(m.loop_node.loop_stack) + 1:], u,
           'the visited set is created once per traversal, before the loop: %s' % norm(sets[0]))

    def recorded_ids(node):
        """names X for which id(X) is known to be in the set when control is at node"""
        out = set()
        v = sets[0].value
        if cfg.dominates(cfg.node_of(sets[0]), node):
            elts = v.elts if isinstance(v, ast.Set) else (v.args[0].elts if isinstance(v, ast.Call) and v.args and isinstance(v.args[0], (ast.List, ast.Tuple, ast.Set)) else [])
            for e in elts:
                if isinstance(e, ast.Call) and is_name(e.func, 'id') and is_name(e.args[0]):
                    out.add(e.args[0].id)
        for s in body:
            for c in ast.walk(s):
                if isinstance(c, ast.Call) and isinstance(c.func, ast.Attribute) and c.func.attr == 'add' and is_name(c.func.value, seen) \
                        and c.args and isinstance(c.args[0], ast.Call) and is_name(c.args[0].func, 'id') and is_name(c.args[0].args[0]):
                    an = cfg.node_containing(c)
                    if cfg.dominates(an, node) and an is not node:
                        out.add(c.args[0].args[0].id)
        return out

    for e in exps:
        en = cfg.node_containing(e)
        ok_shape = len(e.args) >= 2 and is_name(e.args[0], work) and is_name(e.args[1])
        ctx.ob(ok_shape, u, 'expansion appends the children of one object to the worklist: %s' % norm(e), node=e)
        if not ok_shape:
            continue
        x = e.args[1].id
        # an expansion before the loop: its object is in the set when the loop starts
        rec = x in recorded_ids(en if ln in en.loop_stack else ln)
        ctx.ob(rec, u, 'id(%s) is recorded as visited before `%s`' % (x, norm(e)),
               '' if rec else 'the object is expanded without being recorded: if it is reachable from itself it is expanded a '
               'second time (a cyclic root yields duplicate descendants)', node=e)
        if ln in en.loop_stack:
            # ``if id(x) not in seen: expand`` or the guard clause ``if id(x) in seen: continue``
            pols = [(t, polarity(t.ast, 'id(%s) not in %s' % (x, seen))) for t in cfg.nodes if t.kind == 'test']
            pols = [(t, e_) for t, e_ in pols if e_ and cfg.dominates(t, en)]
            tests = [t for t, _ in pols]
            guarded = False
            for t, e_ in pols:
                other = 'false' if e_ == 'true' else 'true'
                pth = cfg.find_path(t, {en}, avoid={ln}, start_labels=lambda l, o=other: l == o, labels=lambda l: l != 'exc')
                if pth is None:
                    guarded = True
            ctx.ob(guarded, u, 'inside the loop the expansion is guarded by `id(%s) not in %s`' % (x, seen), node=e)
            # ... and by nothing else: every object not yet visited is expanded (what has children
            # is the registry's business -- a str / int subclass with attributes has some)
            ctl = [t for t in cfg.nodes if t.kind == 'test' and t is not ln and ln in t.loop_stack
                   and (en in exclusive(cfg, t, 'true') or en in exclusive(cfg, t, 'false'))]
            extra = [norm(t.ast) for t in ctl if t not in tests]
            # a guard clause ``if <cond>: continue`` before the expansion also decides
            for t in cfg.nodes:
                if t.kind == 'test' and t is not ln and ln in t.loop_stack and t not in tests and t not in ctl \
                        and cfg.dominates(t, en) and cfg.find_path(t, {en}, avoid={ln}, labels=lambda l: l != 'exc',
                                                                  start_labels=lambda l: l == 'true') is None:
                    extra.append(norm(t.ast))
            ctx.ob(not extra, u, 'every object not visited before is expanded (no other condition skips it)',
                   '' if not extra else 'objects for which `%s` holds are treated as leaves' % extra[0], node=e)
            ctx.ob(is_name(lp.target, x), u, 'the expanded object is the worklist item of this iteration', node=e)
    # the worklist only grows by expansions (and the final insertion of the value itself)
    others = [c for s in body for c in ast.walk(s) if isinstance(c, ast.Call) and isinstance(c.func, ast.Attribute)
              and is_name(c.func.value, work) and c.func.attr in ('append', 'extend', 'insert', '__iadd__')]
    for c in others:
        cn = cfg.node_containing(c)
        ctx.ob(ln not in cn.loop_stack, u, 'no unguarded growth of the worklist inside the loop: %s' % norm(c), node=c)
    ctx.floor(8)


@rule('C14.2')
def misses_dropped(ctx):
    m, w, b = wildcard_branch(ctx)
    u, cfg = m.unit, m.cfg
    p = ctx.program
    rec = [c for s in b.body for c in ast.walk(s) if isinstance(c, ast.Call) and callee_qual(p, u, c) == 'core._t_eval']
    ctx.require(len(rec) == 1, 'wildcard branch: recursive evaluation of the remaining steps not found')
    r = rec[0]
    rn = cfg.node_containing(r)
    hs = cfg.handlers_reached_from(rn)
    ok = len(hs) == 1 and p.global_qualname(u, hs[0].ast.type) == 'core.PathAccessError'
    ctx.ob(ok, u, 'each entry is evaluated under a PathAccessError handler: except %s' % [src(h.ast.type) for h in hs if h.ast.type is not None])
    for h in hs:
        out = handler_outcomes(cfg, h)
        ctx.ob(set(out) <= {'normal', 'continue'}, u, 'an entry for which the remaining steps fail is dropped', 'outcomes %s' % sorted(out))
    lp = [a for a in ancestors(r) if isinstance(a, ast.For)]
    ctx.require(lp, 'wildcard branch: per-entry loop not found')
    item = lp[0].target.id if is_name(lp[0].target) else None
    ctx.ob(is_name(r.args[0], item) and is_name(r.args[2], m.scope_param), u, 'the remaining steps are applied to each entry independently: %s' % norm(r))
    # todo = (root,) + ops[i+stride:]
    td = deref(cfg, rn, r.args[1])
    todo = r.args[1].id if is_name(r.args[1]) else None
    st = [n for s in b.body for n in ast.walk(s) if isinstance(n, ast.Assign) and isinstance(n.targets[0], ast.Attribute)
          and n.targets[0].attr == '__ops__' and is_name(n.targets[0].value, todo)]
    ok = len(st) == 1 and isinstance(st[0].value, ast.BinOp) and isinstance(st[0].value.left, ast.Tuple) \
        and len(st[0].value.left.elts) == 1 \
        and isinstance(st[0].value.right, ast.Subscript) and is_name(st[0].value.right.value, m.ops_var)
    ctx.ob(ok, u, 'the delegated expression is a root plus the steps after the wildcard: %s' % [norm(s) for s in st])
    if ok:
        # the remaining steps are applied to each *entry*: the interpreter starts from its target
        # argument only for root T (C01.4), so an S-rooted expression must delegate with root T --
        # with its own root the evaluation restarts from the scope for every entry
        e = st[0].value.left.elts[0]
        s_to_t = False
        if isinstance(e, ast.IfExp):
            pol = polarity(e.test, '%s is S' % m.root_var)
            if pol:
                when_s = e.body if pol == 'true' else e.orelse
                s_to_t = p.global_qualname(u, when_s) == 'core.T'
        okr = s_to_t or (isinstance(e, ast.Name) and p.global_qualname(u, e) == 'core.T')
        ctx.ob(okr, u, 'after a wildcard the remaining steps start from each entry, for S-rooted expressions too: %s' % norm(e),
               '' if okr else "the delegated root is `%s`: for root S the recursion starts from the scope, "
               "glom(t, (S(v=..), S.v['a'].__star__()['b'])) returns [] instead of one value per entry" % norm(e), node=st[0])
    # loop is left after delegating
    last = b.body[-1]
    ctx.ob(isinstance(last, ast.Break), u, 'after delegating the remaining steps the interpreter loop is left (break)')
    # collected into a new list, in worklist order
    app = parent(r)
    ok = isinstance(app, ast.Call) and isinstance(app.func, ast.Attribute) and app.func.attr == 'append' and is_name(app.func.value, m.cur_var)
    ctx.ob(ok, u, 'results are appended to the new running list in order: %s' % norm(app))
    # child enumeration swallows failures
    eu = ctx.unit('core._extend_children')
    ecfg = ctx.cfg(eu)
    for n in ecfg.nodes:
        if n.ast is None or n.kind not in ('stmt', 'for'):
            continue
        fall = [c for c in (ast.walk(n.ast.iter) if n.kind == 'for' else ast.walk(n.ast)) if isinstance(c, ast.Call)]
        if not fall:
            continue
        hs = ecfg.handlers_reached_from(n)
        quiet = [h for h in hs if completes_normally(handler_outcomes(ecfg, h)) and
                 not any(k.startswith('raise') for k in handler_outcomes(ecfg, h))]
        if is_name(fall[0].func, eu.params[2]):
            # a registry lookup: the only failure is UnregisteredTarget
            cov = [h for h in quiet if any(getattr(c, 'name', None) == 'UnregisteredTarget' or c == '*' or
                                           (isinstance(c, type) and c.__name__ in ('Exception', 'BaseException'))
                                           for c in ecfg.handler_classes(h))]
            ctx.ob(bool(cov), eu, 'an unregistered type in `%s` falls back / is skipped' % src(fall[0], 60), node=fall[0])
        else:
            esc = ecfg.escapes(n)
            swallowed = bool(quiet) and len(quiet) == len(hs) and any(handler_covers(ecfg, h, 'Exception') for h in quiet)
            if n.loop_stack and n.kind == 'stmt':
                # inside the per-key loop the handler must be per key too (one failing child must not drop its siblings)
                inner = [h for h in quiet if n.loop_stack[-1] in h.loop_stack]
                ctx.ob(bool(inner), eu, 'a failing `%s` only skips that child (handler inside the loop)' % src(fall[0], 50),
                       '' if inner else 'the only handler is outside the loop: one failing child drops all later siblings', node=fall[0])
            ctx.ob(swallowed and not esc, eu, 'any failure of `%s` is swallowed (the child is skipped)' % src(fall[0], 60),
                   '' if swallowed and not esc else 'may escape', node=fall[0])
    ctx.floor(12)


@rule('C14.3')
def code_agreement(ctx):
    p = ctx.program
    m, w, b = wildcard_branch(ctx)
    # producers
    codes = {}
    for name in ('__star__', '__starstar__'):
        u = ctx.unit('core.TType.' + name)
        cs = [c for c in calls_in(u) if callee_qual(p, u, c) == 'core._t_child']
        ctx.require(len(cs) == 1 and isinstance(cs[0].args[1], ast.Constant), '%s: producer call not found' % name)
        codes[name] = cs[0].args[1].value
    ctx.ob(len(set(codes.values())) == 2, 'core.TType', 'the two wildcards have distinct codes: %s' % codes)
    star, sstar = codes['__star__'], codes['__starstar__']
    # counter
    su = ctx.unit('core.TType.__stars__')
    counted = {c.args[0].value for c in calls_in(su) if isinstance(c.func, ast.Attribute) and c.func.attr == 'count'
               and c.args and isinstance(c.args[0], ast.Constant)}
    ctx.ob(counted == {star, sstar}, su, '__stars__ counts exactly the wildcard codes: %s' % sorted(counted))
    rets = [n for n in su.own_nodes() if isinstance(n, ast.Return)]
    ok = len(rets) == 1 and isinstance(rets[0].value, ast.BinOp) and isinstance(rets[0].value.op, ast.Add)
    ctx.ob(ok, su, 'the count is the sum over both codes: %s' % [norm(r) for r in rets])
    # interpreter
    ctx.ob(b.codes == {star, sstar}, m.unit, 'the interpreter\'s wildcard branch tests exactly these codes: %s' % sorted(b.codes))
    only_deep = [s_ for s_ in m.code_slice(b.body, sstar) if s_ not in m.code_slice(b.body, star)]
    ctx.ob(bool(only_deep), m.unit, 'and distinguishes them inside: %d statement(s) run for %r only' % (len(only_deep), sstar))
    # formatter
    fu = ctx.unit('core._format_t')
    fm = {}
    for n in ast.walk(fu.node):
        if isinstance(n, ast.If) and isinstance(n.test, ast.Compare) and isinstance(n.test.comparators[0], ast.Constant) \
                and isinstance(n.test.ops[0], ast.Eq):
            for c in ast.walk(ast.Module(body=n.body, type_ignores=[])):
                if isinstance(c, ast.Constant) and isinstance(c.value, str) and c.value.startswith('.__sta'):
                    fm[n.test.comparators[0].value] = c.value
    ctx.ob(fm.get(star) == '.__star__()' and fm.get(sstar) == '.__starstar__()', fu, 'the formatter renders each code as the method that produced it: %s' % fm)
    # text parser
    mod = p.modules['glom.core']
    consts = {}
    for st in mod.tree.body:
        if isinstance(st, ast.Assign) and is_name(st.targets[0]) and isinstance(st.value, ast.Call) \
                and isinstance(st.value.func, ast.Attribute) and st.value.func.attr in ('__star__', '__starstar__'):
            consts[st.targets[0].id] = st.value.func.attr
    from .c01 import from_text_units
    _fu, cu = from_text_units(ctx)
    mapping = {}
    for c in [n for n in cu.own_nodes() if isinstance(n, ast.ListComp)]:
        e = c.elt
        while isinstance(e, ast.IfExp):
            t = e.test
            if isinstance(t, ast.Compare) and isinstance(t.comparators[0], ast.Constant) and is_name(e.body):
                mapping[t.comparators[0].value] = consts.get(e.body.id)
            e = e.orelse
    ctx.ob(mapping == {'*': '__star__', '**': '__starstar__'}, cu, "text '*' / '**' map to the star / starstar steps: %s" % mapping)
    g = [a for c in cu.own_nodes() if isinstance(c, ast.ListComp) for a in ancestors(c) if isinstance(a, ast.If)]
    ctx.ob(bool(g) and p.global_qualname(cu, g[0].test) == 'core.PATH_STAR', cu, 'the mapping applies under PATH_STAR')
    ctx.floor(8)


@rule('C14.4')
def nesting(ctx):
    m, w, b = wildcard_branch(ctx)
    u, cfg = m.unit, m.cfg
    news = [s for s in b.body if isinstance(s, ast.Assign) and is_name(s.targets[0], m.cur_var)]
    ok = len(news) == 1 and isinstance(news[0].value, ast.List) and not news[0].value.elts
    ctx.ob(ok, u, 'a wildcard step wraps its results in exactly one new list: %s' % [norm(n) for n in news])
    apps = [c for s in b.body for c in ast.walk(s) if isinstance(c, ast.Call) and isinstance(c.func, ast.Attribute)
            and is_name(c.func.value, m.cur_var) and c.func.attr in ('append', 'extend', 'insert')]
    ctx.ob(len(apps) == 1 and apps[0].func.attr == 'append', u, 'one entry per surviving child (append, not extend): %s' % [norm(a) for a in apps])
    # the broadcast helper peels (count - 1) levels by flattening plus one by iterating: see C11.7
    from .c11 import broadcast
    broadcast(ctx)
    ctx.floor(6)


@rule('C14.5')
def order(ctx):
    m, w, b = wildcard_branch(ctx)
    u, cfg = m.unit, m.cfg
    # the statements run for each code (tests on the op code decided), and those run for one only
    sx, sX = m.code_slice(b.body, 'x'), m.code_slice(b.body, 'X')
    only_x, only_X = [s_ for s_ in sx if s_ not in sX], [s_ for s_ in sX if s_ not in sx]
    ctx.require(only_X, 'wildcard sub-branches not found')
    ex = expansions(ctx, m, sx)
    ok = len(ex) == 1 and is_name(ex[0].args[1], m.cur_var) and all(isinstance(s_, ast.Expr) and s_.value is ex[0] for s_ in only_x)
    ctx.ob(ok, u, '* lists the children of the current value only: %s' % [norm(e) for e in ex])
    ins = [c for s in sX for c in ast.walk(s) if isinstance(c, ast.Call) and isinstance(c.func, ast.Attribute) and c.func.attr == 'insert']
    ok = len(ins) == 1 and isinstance(ins[0].args[0], ast.Constant) and ins[0].args[0].value == 0 and is_name(ins[0].args[1], m.cur_var)
    ctx.ob(ok, u, '** lists the value itself first: %s' % [norm(i) for i in ins])
    lp = [n for s in only_X for n in ast.walk(s) if isinstance(n, ast.For)]
    ok = len(lp) == 1 and is_name(lp[0].iter) and not isinstance(lp[0].iter, ast.Call)
    ctx.ob(ok, u, 'descendants are visited breadth-first: the worklist is iterated front to back while it grows at the end')
    if ins and lp:
        ctx.ob(cfg.node_of(lp[0]) not in cfg.node_containing(ins[0]).loop_stack and
               cfg.find_path(cfg.node_containing(ins[0]), {cfg.node_of(lp[0])}) is None, u, 'the value itself is inserted after the traversal')
    # the list handed to the per-entry loop is the worklist
    per = [n for s in b.body for n in [s] if isinstance(s, ast.For)]
    work = ex[0].args[0].id if ex and is_name(ex[0].args[0]) else None
    ctx.ob(len(per) == 1 and is_name(per[0].iter, work), u, 'entries are processed in worklist order')
    ctx.floor(5)


@rule('C14.6')
def child_enumeration(ctx):
    p = ctx.program
    u = ctx.unit('core._extend_children')
    children, item, gh = u.params
    gets = {}
    for c in calls_in(u):
        if is_name(c.func, gh) and c.args and isinstance(c.args[0], ast.Constant):
            gets[c.args[0].value] = c
            ctx.ob(is_name(c.args[1], item), u, "the '%s' handler is looked up for the object itself: %s" % (c.args[0].value, norm(c)))
    ctx.ob(set(gets) == {'keys', 'get', 'iterate'}, u, 'children come from keys+get, else from iterate: %s' % sorted(gets))
    # keys/get first; iterate only when one of them is unregistered
    cfg = ctx.cfg(u)
    if set(gets) == {'keys', 'get', 'iterate'}:
        kn, itn = cfg.node_containing(gets['keys']), cfg.node_containing(gets['iterate'])
        hs = cfg.handlers_reached_from(kn)
        ok = len(hs) == 1 and p.global_qualname(u, hs[0].ast.type) == 'core.UnregisteredTarget' and itn in cfg.reachable(hs[0]) \
            and cfg.find_path(kn, {itn}, labels=lambda l: l != 'exc') is None
        ctx.ob(ok, u, 'iteration is the fallback for objects without keys+get')
    loops = [n for n in u.own_nodes() if isinstance(n, ast.For)]
    ok = len(loops) == 1 and isinstance(loops[0].iter, ast.Call) and is_name(loops[0].iter.args[0], item)
    ctx.ob(ok, u, 'keys are enumerated in their natural order: for %s in %s' % (src(loops[0].target), norm(loops[0].iter)) if loops else 'no loop')
    apps = [c for c in calls_in(u) if isinstance(c.func, ast.Attribute) and is_name(c.func.value, children)]
    kinds = sorted(c.func.attr for c in apps)
    ctx.ob(kinds == ['append', 'extend'], u, 'children are appended at the end of the list: %s' % kinds)
    for c in apps:
        if c.func.attr == 'append':
            a = c.args[0]
            ok = isinstance(a, ast.Call) and len(a.args) == 2 and is_name(a.args[0], item) and loops and is_name(a.args[1], loops[0].target.id)
            ctx.ob(ok, u, 'a keyed child is get(item, key): %s' % norm(c))
        else:
            a = c.args[0]
            ok = isinstance(a, ast.Call) and len(a.args) == 1 and is_name(a.args[0], item)
            ctx.ob(ok, u, 'iterated children are all items of iterate(item): %s' % norm(c))
    # a child whose own lookup (or the enumeration of keys / items) fails is dropped, whatever it
    # raises: the handlers are whatever was registered for the container's type
    for c in apps + [lp.iter for lp in loops if isinstance(lp.iter, ast.Call)]:
        cn = cfg.node_containing(c)
        hs = cfg.handlers_reached_from(cn)
        covering = [h for h in hs if handler_covers(cfg, h, 'Exception')]
        ok = bool(covering) and all(set(handler_outcomes(cfg, h)) <= {'normal', 'continue'} for h in covering)
        ctx.ob(ok, u, 'a failing child access is dropped, not raised: %s' % src(c, 50),
               '' if ok else 'handlers reached: %s' % [src(h.ast.type) if h.ast.type is not None else 'bare' for h in hs], node=c)
    # per-key: one failing key does not hide the following ones (its handler is inside the loop)
    for c in [x for x in apps if x.func.attr == 'append']:
        cn = cfg.node_containing(c)
        hs = [h for h in cfg.handlers_reached_from(cn) if handler_covers(cfg, h, 'Exception')]
        ok = bool(hs) and loops and cfg.node_of(loops[0]) in hs[0].loop_stack
        ctx.ob(ok, u, 'a failing key is skipped and the enumeration goes on with the next key', node=c)
    ctx.floor(8)


def _is_predicate_class(p, u, name_node):
    """a registered type whose isinstance() is decided by a hook (ABC ``__subclasshook__`` or a
    metaclass ``__instancecheck__``) rather than by inheritance"""
    d = p.static(u, name_node)
    if d.kind != 'class':
        return False
    k = d.cls
    if k.defines('__subclasshook__'):
        return True
    for b in k.node.bases:
        if isinstance(b, ast.Call) and is_name(b.func):
            md = p.static(u, b.func)
            if md.kind == 'class' and md.cls.defines('__instancecheck__'):
                return True
    return False


@rule('C14.9')
def default_registration_order(ctx):
    """the type tree of an op is searched in registration order, first isinstance match wins:
    among the default registrations of one op every concrete class must come before the
    predicate (duck) types, or a dict / list subclass with a __dict__ is enumerated as a plain
    object"""
    p = ctx.program
    u = ctx.unit('core.TargetRegistry._register_default_types')
    seq = {}
    n = 0
    for st in u.node.body:
        for c in [x for x in ast.walk(st) if isinstance(x, ast.Call)]:
            if isinstance(c.func, ast.Attribute) and c.func.attr == 'register' and c.args and is_name(c.func.value, u.params[0]):
                for k in c.keywords:
                    if k.arg:
                        seq.setdefault(k.arg, []).append((c, _is_predicate_class(p, u, c.args[0])))
                        n += 1
    ctx.require(n >= 6, '_register_default_types: default registrations not found (%d)' % n)
    for op, regs in sorted(seq.items()):
        first_pred = next((i for i, (_, pred) in enumerate(regs) if pred), None)
        late = [norm(c) for i, (c, pred) in enumerate(regs) if first_pred is not None and i > first_pred and not pred]
        ctx.ob(not late, u, "default '%s' registrations list concrete classes before predicate types: %s"
               % (op, [src(c.args[0]) for c, _ in regs]),
               '' if not late else 'registered after a predicate type: %s -- their subclasses match the predicate first' % late)
    ctx.floor(3)


@rule('C14.14')
def object_keys_predicate_is_duck_typed(ctx):
    """which values have attribute-style children ('*' over an object) is decided by
    _ObjStyleKeysMeta.__instancecheck__; it asks for exactly what the keys handler uses --
    a ``__dict__`` with a ``keys`` -- and for no concrete mapping class: type.__dict__ is a
    mappingproxy, so a class test would leave every class object without children"""
    u = ctx.unit('core._ObjStyleKeysMeta.__instancecheck__')
    cfg = ctx.cfg(u)
    obj = u.params[1]
    rets = [r for r in u.own_nodes() if isinstance(r, ast.Return) and r.value is not None]
    ctx.require(rets, '_ObjStyleKeysMeta.__instancecheck__: no return')
    narrowing = [norm(c) for c in calls_in(u) if is_name(c.func) and c.func.id in ('isinstance', 'issubclass', 'type')]
    ctx.ob(not narrowing, u, 'no concrete-class test decides who has object-style keys',
           '' if not narrowing else '%s: an object whose __dict__ is a mapping but not that class (every class: mappingproxy) has no children' % narrowing)
    import itertools
    from ..util import boolean_function, Undecidable
    D, K = "hasattr(%s, '__dict__')" % obj, "hasattr(%s.__dict__, 'keys')" % obj
    try:
        atoms, f = boolean_function(u)
    except Undecidable as e:
        raise AnalysisError('_ObjStyleKeysMeta.__instancecheck__: not a decidable predicate (%s)' % e)
    extra = sorted(set(atoms) - {D, K})
    ok = not extra and set(atoms) == {D, K}
    if ok:
        for vals in itertools.product((False, True), repeat=2):
            asg = dict(zip((D, K), vals))
            ok = ok and f(asg) == (asg[D] and asg[K])
    ctx.ob(ok, u, 'the predicate is: has a __dict__ and that __dict__ has keys (conditions: %s)' % atoms,
           '' if ok else 'further / other conditions: %s' % (extra or atoms))
    ku = ctx.unit('core._ObjStyleKeys.get_keys')
    kr = [r for r in ku.own_nodes() if isinstance(r, ast.Return) and r.value is not None]
    ok = len(kr) == 1 and norm(deref(ctx.cfg(ku), ctx.cfg(ku).node_of(kr[0]), kr[0].value)) == '%s.__dict__.keys()' % ku.params[0]
    ctx.ob(ok, ku, 'the keys handler uses exactly that: %s' % [norm(r) for r in kr])
    ctx.floor(3)


@rule('C14.17')
def keys_are_not_autodiscovered(ctx):
    """an op declared with a discovery function gets an exact (type, op) entry for every type
    registered afterwards, and exact entries win over the type tree; 'keys' is resolved by the tree
    alone (dict, then the duck-typed object predicate), so no declaration anywhere in the package
    gives 'keys' a discovery function -- it would make every explicitly registered class a leaf
    for '*' and '**'"""
    from ..util import kwarg
    p = ctx.program
    seen, bad = [], []
    sites = [(u, c) for u in p.package_units() for c in calls_in(u)]
    for m in p.modules.values():
        if m.short != 'tutorial':
            sites += [(ctx.unit('core.TargetRegistry._register_builtin_ops'), st.value) for st in m.tree.body
                      if isinstance(st, ast.Expr) and isinstance(st.value, ast.Call)]
    for u, c in sites:
        if True:
            f = c.func
            nm = f.id if isinstance(f, ast.Name) else f.attr if isinstance(f, ast.Attribute) else None
            if nm != 'register_op':
                continue
            op = kwarg(c, 'op_name', 0)
            auto = kwarg(c, 'auto_func', 1)
            if not isinstance(op, ast.Constant):
                continue        # the forwarding wrapper: core.register_op(op_name, **kwargs)
            seen.append((op.value, u, c))
            if op.value == 'keys' and auto is not None and not (isinstance(auto, ast.Constant) and auto.value is None):
                bad.append((u, c))
    declared = sorted({o for o, _, _ in seen})
    ctx.require({'iterate', 'get'} <= set(declared), 'built-in op declarations not found (%s)' % declared)
    u0 = ctx.unit('core.TargetRegistry._register_builtin_ops')
    ctx.ob(not bad, bad[0][0] if bad else u0, "no discovery function is declared for 'keys' (ops declared with one: %s)" % declared,
           '' if not bad else "%s: register() then stores an exact keys entry for every registered class, which shadows the "
           "object / mapping match in the type tree" % norm(bad[0][1]), node=bad[0][1] if bad else None)
    ctx.floor(1)
