"""C03 -- auto-mode restructuring is compositional in its sub-specs."""
import ast

from . import rule, info
from ..program import AnalysisError, src, norm
from ..pattern import match, matches
from ..util import (polarity, exclusive, is_name, calls_in, callee_qual, deref, ancestors, evaluator_calls, handler_outcomes,
                    stmt_of, fmt_witness, parent, locals_from_attrs)

info('C03',
     explanation='Static decision of: SKIP/STOP discipline (a sub-result is tested against the '
                 'sentinels on every path before it is stored / chained / yielded); every sub-spec is '
                 'handed to the evaluator at most once per path; handler loops iterate the spec '
                 'container itself with no reordering; tuple chaining def-use (step n+1 receives step '
                 'n\'s result, the last result is returned); Coalesce short-circuit and default only on '
                 'exhaustion, failures filtered by skip_exc only; dict result built as type(spec)() with '
                 'one store per field; callables receive the current target; the evaluator hands '
                 '(target, spec, child scope) to the T interpreter / glomit / mode function.',
     decided=['C03.1 sentinel discipline', 'C03.2 evaluate once', 'C03.3 order', 'C03.4 chaining',
              'C03.5 Coalesce short-circuit', 'C03.6 same type same keys', 'C03.7 callables',
              'C03.8 evaluator dispatch', 'C03.9 wrappers evaluate their part on the same target'],
     not_decided=['equality of a composite value with the composition of its parts for arbitrary trees'])

HANDLERS = {
    'core._handle_dict': {'SKIP'},
    'core._handle_list': {'SKIP', 'STOP'},
    'core._handle_tuple': {'SKIP', 'STOP'},
    'streaming.Iter._iterate': {'SKIP', 'STOP'},
}


def sentinel_of(program, unit, e):
    q = program.global_qualname(unit, e)
    if q in ('core.SKIP', 'core.STOP', 'core.OMIT'):
        return 'SKIP' if q != 'core.STOP' else 'STOP'
    return None


def sentinel_tests(program, unit, cfg, var):
    """test nodes `var is SKIP|STOP` / `var is not SKIP|STOP` ->
    list of (node, sentinel, label of the out-edge taken when the value is the sentinel)"""
    out = []
    for n in cfg.nodes:
        if n.kind != 'test':
            continue
        for t in ast.walk(n.ast):
            if isinstance(t, ast.Compare) and is_name(t.left, var) and len(t.ops) == 1 \
                    and isinstance(t.ops[0], (ast.Is, ast.IsNot)):
                s = sentinel_of(program, unit, t.comparators[0])
                if not s:
                    continue
                if isinstance(t.ops[0], ast.Is):
                    # plain tests or `a or b` disjunctions keep the true edge meaning "is sentinel"
                    if n.ast is t or (isinstance(n.ast, ast.BoolOp) and isinstance(n.ast.op, ast.Or)):
                        out.append((n, s, 'true'))
                else:
                    # `x is not S` / `a and b` conjunctions: the false edge is taken when it is
                    if n.ast is t or (isinstance(n.ast, ast.BoolOp) and isinstance(n.ast.op, ast.And)):
                        out.append((n, s, 'false'))
    return out


def result_stores(cfg, unit, var, loop_nodes):
    """statements that store / chain / yield the evaluator result ``var``"""
    out = []
    for n in loop_nodes:
        if n.kind != 'stmt':
            continue
        st = n.ast
        if isinstance(st, ast.Assign):
            if is_name(st.value, var) and not all(is_name(t, var) for t in st.targets):
                out.append(n)
            elif any(isinstance(t, (ast.Subscript, ast.Attribute)) for t in st.targets) and \
                    var in {x.id for x in ast.walk(st.value) if isinstance(x, ast.Name)}:
                out.append(n)
        elif isinstance(st, ast.Expr):
            v = st.value
            if isinstance(v, ast.Call) and isinstance(v.func, ast.Attribute) and v.func.attr in (
                    'append', 'add', 'extend', 'insert') and any(is_name(a, var) for a in v.args):
                out.append(n)
            elif isinstance(v, (ast.Yield,)) and is_name(v.value, var):
                out.append(n)
    return out


@rule('C03.1')
def sentinel_discipline(ctx):
    p = ctx.program
    for q, need in HANDLERS.items():
        u = ctx.unit(q)
        cfg = ctx.cfg(u)
        # the result variable: assigned from an expression containing an evaluator call, in a loop
        found = 0
        for n in cfg.nodes:
            if n.kind != 'stmt' or not isinstance(n.ast, ast.Assign) or not n.loop_stack:
                continue
            st = n.ast
            if not (len(st.targets) == 1 and is_name(st.targets[0])):
                continue
            if not any(isinstance(c, ast.Call) and p.is_evaluator_call(u, c) for c in ast.walk(st.value)):
                continue
            var = st.targets[0].id
            header = n.loop_stack[-1]
            loop_nodes = [x for x in cfg.nodes if header in x.loop_stack]
            stores = [s for s in result_stores(cfg, u, var, loop_nodes) if s is not n and cfg.dominates(n, s)]
            if not stores:
                continue       # e.g. the dict key evaluation: not stored under its own name
            found += 1
            tests = sentinel_tests(p, u, cfg, var)
            for s in stores:
                for sent in sorted(need):
                    ts = [(t, e) for t, sn, e in tests if sn == sent and cfg.dominates(t, s) and cfg.dominates(n, t)]
                    ok = False
                    wit = []
                    for t, edge in ts:
                        pth = cfg.find_path(t, {s}, avoid={header}, start_labels=lambda lab, edge=edge: lab == edge,
                                            labels=lambda lab: lab != 'exc')
                        if pth is None:
                            ok = True
                        else:
                            wit = fmt_witness(cfg, pth)
                    ctx.ob(ok, u, 'store `%s` happens only when the result is not %s' % (norm(s.ast), sent),
                           '' if ok else 'no dominating `%s is [not] %s` test whose sentinel edge avoids the store' % (var, sent),
                           node=s.ast, witness=wit)
            # STOP ends the loop: the true edge of the STOP test never reaches the header again
            for t, sent, edge in tests:
                if sent == 'STOP' and cfg.dominates(n, t) and 'STOP' in need:
                    pth = cfg.find_path(t, {header}, start_labels=lambda lab, edge=edge: lab == edge,
                                        labels=lambda lab: lab != 'exc')
                    ctx.ob(pth is None, u, 'STOP ends the iteration: `%s`' % norm(t.ast),
                           '' if pth is None else 'the loop continues after STOP', node=t.ast,
                           witness=fmt_witness(cfg, pth))
                if sent == 'SKIP' and cfg.dominates(n, t):
                    # SKIP goes on with the next item: header reachable on the true edge
                    pth = cfg.find_path(t, {header}, start_labels=lambda lab, edge=edge: lab == edge,
                                        labels=lambda lab: lab != 'exc')
                    ctx.ob(pth is not None, u, 'SKIP continues with the next item: `%s`' % norm(t.ast), node=t.ast)
        ctx.require(found >= 1, '%s: no stored evaluator result found' % q)
    ctx.floor(14)


EVAL_ONCE_UNITS = ['core._handle_dict', 'core._handle_list', 'core._handle_tuple', 'core.Coalesce.glomit',
                   'matching.And._glomit', 'matching.Or._glomit', 'matching.Switch.glomit',
                   'matching.Not.glomit', 'matching.Match.glomit', 'matching.Check.glomit',
                   'matching._MSubspec.glomit', 'core.Spec.glomit', 'core.Auto.glomit', 'core.Fill.glomit',
                   'core.Ref.glomit', 'core.Inspect.glomit', 'reduction.Fold.glomit', 'grouping.Group.glomit',
                   'grouping.Limit.glomit', 'streaming.Iter._iterate', 'matching._MExpr.glomit']


@rule('C03.2')
def evaluate_once(ctx):
    p = ctx.program
    n_calls = 0
    for q in EVAL_ONCE_UNITS:
        u = ctx.unit(q)
        cfg = ctx.cfg(u)
        evs = evaluator_calls(p, u)
        ctx.require(evs, '%s: no evaluator call found' % q)
        n_calls += len(evs)
        bykey = {}
        for c in evs:
            key = (norm(c.args[0]) if c.args else '', norm(c.args[1]) if len(c.args) > 1 else '')
            bykey.setdefault(key, []).append(c)
        dup = False
        for key, cs in bykey.items():
            for i, a in enumerate(cs):
                na = cfg.node_containing(a)
                for b in cs[i + 1:]:
                    nb = cfg.node_containing(b)
                    headers = set(na.loop_stack) | set(nb.loop_stack)
                    same_iter = na is nb or \
                        cfg.find_path(na, {nb}, avoid=headers, labels=lambda lab: lab != 'exc') is not None or \
                        cfg.find_path(nb, {na}, avoid=headers, labels=lambda lab: lab != 'exc') is not None
                    if same_iter:
                        dup = True
                        ctx.ob(False, u, 'sub-spec `%s` is evaluated once per path' % key[1],
                               'two evaluator calls with the same (target, spec) on one path: lines %d and %d'
                               % (a.lineno, b.lineno), node=b)
        if not dup:
            ctx.ob(True, u, 'each sub-spec is handed to the evaluator at most once per path (%d call site%s)'
                   % (len(evs), '' if len(evs) == 1 else 's'))
    # the dict key spec is evaluated only when the value was not skipped
    u = ctx.unit('core._handle_dict')
    cfg = ctx.cfg(u)
    evs = evaluator_calls(p, u)
    spec_items = None
    for n in u.own_nodes():
        if isinstance(n, ast.For) and isinstance(n.target, ast.Tuple) and len(n.target.elts) == 2:
            spec_items = n
    ctx.require(spec_items is not None, '_handle_dict: `for field, subspec in spec.items()` not found')
    fvar, svar = [e.id for e in spec_items.target.elts]
    val_calls = [c for c in evs if len(c.args) > 1 and is_name(c.args[1], svar)]
    key_calls = [c for c in evs if len(c.args) > 1 and is_name(c.args[1], fvar)]
    ctx.ob(len(val_calls) == 1, u, 'the value spec of each field is evaluated: %s' % [norm(c) for c in val_calls])
    for kc in key_calls:
        kn = cfg.node_containing(kc)
        vn = cfg.node_containing(val_calls[0]) if val_calls else None
        ok = vn is not None and cfg.dominates(vn, kn)
        ctx.ob(ok, u, 'a key spec is evaluated after (and only with) its value: %s' % norm(kc), node=kc)
    ctx.floor(len(EVAL_ONCE_UNITS))


ORDER_LOOPS = {
    'core._handle_dict': 'spec.items()',
    'core._handle_list': None,
    'core._handle_tuple': 'spec',
    'core.Coalesce.glomit': 'self.subspecs',
    'matching.And._glomit': 'self.children',
    'matching.Or._glomit': 'self.children',
    'matching.Switch.glomit': 'self.cases',
    'core.Invoke.glomit': 'self._args',
    'streaming.Iter._iterate': None,
    'grouping.Group.glomit': None,
}
REORDER = {'sorted', 'reversed', 'set', 'frozenset', 'shuffle', 'sample', 'dict', 'Counter'}


@rule('C03.3')
def order(ctx):
    p = ctx.program
    for q, must_iter in ORDER_LOOPS.items():
        u = ctx.unit(q)
        loops = [n for n in u.own_nodes() if isinstance(n, ast.For)]
        wloops = [n for n in u.own_nodes() if isinstance(n, ast.While)]
        ctx.require(loops or wloops, '%s: no loop' % q)
        texts = [norm(lp.iter) for lp in loops]
        for lp in wloops:
            # index loop (``for i in range(..)`` is normalised to this form): ascending index
            t = lp.test
            iv = t.left.id if isinstance(t, ast.Compare) and is_name(t.left) else None
            steps = [n for n in ast.walk(lp) if isinstance(n, ast.AugAssign) and iv and is_name(n.target, iv)]
            ok = bool(steps) and all(isinstance(n.op, ast.Add) and isinstance(n.value, ast.Constant)
                                     and isinstance(n.value.value, int) and n.value.value > 0 for n in steps) \
                and isinstance(t.ops[0], (ast.Lt, ast.LtE, ast.NotEq))
            ctx.ob(ok, u, 'index loop visits positions in ascending order: while %s' % src(t, 50),
                   '' if ok else 'steps: %s' % [norm(n) for n in steps], node=lp)
            for sub in ast.walk(lp):
                if isinstance(sub, ast.Subscript) and iv and any(is_name(x, iv) for x in ast.walk(sub.slice)):
                    texts.append(norm(sub.value))
        for lp in loops:
            it = lp.iter
            bad = []
            for x in ast.walk(it):
                if isinstance(x, ast.Call):
                    nm = x.func.id if isinstance(x.func, ast.Name) else x.func.attr if isinstance(x.func, ast.Attribute) else ''
                    if nm in REORDER:
                        bad.append(nm)
                if isinstance(x, ast.Slice) and x.step is not None:
                    if not (isinstance(x.step, ast.Constant) and isinstance(x.step.value, int) and x.step.value > 0):
                        bad.append('slice step')
            ctx.ob(not bad, u, 'loop iterates in the container\'s own order: for %s in %s'
                   % (src(lp.target, 30), src(it, 60)), 'reordering: %s' % bad if bad else '', node=lp)
        # a loop over ``H(x)`` with H a generator of this package that walks its argument: what H
        # iterates, with its parameter read as the argument
        import re
        for lp in loops:
            if isinstance(lp.iter, ast.Call) and callee_qual(p, u, lp.iter) in p.units and not lp.iter.keywords:
                cu = p.units[callee_qual(p, u, lp.iter)]
                sub = dict(zip(cu.params, [norm(a) for a in lp.iter.args]))
                inner = [norm(x.iter) for x in cu.own_nodes() if isinstance(x, ast.For)]
                for w in [x for x in cu.own_nodes() if isinstance(x, ast.While)]:
                    iv2 = w.test.left.id if isinstance(w.test, ast.Compare) and is_name(w.test.left) else None
                    inner += [norm(sb.value) for sb in ast.walk(w) if isinstance(sb, ast.Subscript) and iv2
                              and any(is_name(x, iv2) for x in ast.walk(sb.slice))]
                    steps = [n for n in ast.walk(w) if isinstance(n, ast.AugAssign) and iv2 and is_name(n.target, iv2)]
                    okw = bool(steps) and all(isinstance(n.op, ast.Add) and isinstance(n.value, ast.Constant) and n.value.value > 0 for n in steps)
                    ctx.ob(okw, cu, 'index loop visits positions in ascending order: while %s' % src(w.test, 50), node=w)
                reorder = [x.func.id for l2 in cu.own_nodes() if isinstance(l2, ast.For) for x in ast.walk(l2.iter)
                           if isinstance(x, ast.Call) and is_name(x.func) and x.func.id in REORDER]
                ctx.ob(not reorder, cu, 'the generator %s yields in the container\'s own order' % cu.name, 'reordering: %s' % reorder)
                for t in inner:
                    for prm, arg in sub.items():
                        t = re.sub(r'\b%s\b' % re.escape(prm), arg, t)
                    texts.append(t)
        if must_iter:
            ok = any(must_iter in t for t in texts)
            ctx.ob(ok, u, 'iterates %s' % must_iter, 'loops iterate: %s' % texts)
    # a list spec maps over the *registered* iteration of the target
    u = ctx.unit('core._handle_list')
    lcfg = ctx.cfg(u)
    for lp in [n for n in u.own_nodes() if isinstance(n, ast.For)]:
        it = lp.iter
        if isinstance(it, ast.Call) and is_name(it.func, 'enumerate') and it.args:
            it = it.args[0]
        d = deref(lcfg, lcfg.node_of(lp), it)
        ok = isinstance(d, ast.Call) and len(d.args) == 1 and is_name(d.args[0], u.params[0])
        if ok:
            h = deref(lcfg, lcfg.node_containing(d), d.func)
            ok = isinstance(h, ast.Call) and isinstance(h.func, ast.Attribute) and h.func.attr == 'get_handler' \
                and h.args and isinstance(h.args[0], ast.Constant) and h.args[0].value == 'iterate' \
                and len(h.args) > 1 and is_name(h.args[1], u.params[0])
        ctx.ob(ok, u, "a list spec iterates what the target's registered 'iterate' handler yields: for %s in %s"
               % (src(lp.target, 30), src(lp.iter, 50)),
               '' if ok else 'the loop does not run over iterate(target) of the handler looked up for the target', node=lp)
    # Or: all but the last child in order, then the last
    u = ctx.unit('matching.Or._glomit')
    sl = [n for n in u.own_nodes() if isinstance(n, ast.Subscript) and isinstance(n.value, ast.Attribute)
          and n.value.attr == 'children']
    okf = any(isinstance(s.slice, ast.Slice) and s.slice.lower is None and isinstance(s.slice.upper, ast.UnaryOp)
              and isinstance(s.slice.upper.operand, ast.Constant) and s.slice.upper.operand.value == 1
              and s.slice.step is None for s in sl)
    okl = any(isinstance(s.slice, ast.UnaryOp) and isinstance(s.slice.operand, ast.Constant)
              and s.slice.operand.value == 1 for s in sl)
    ctx.ob(okf and okl, u, 'Or tries children[:-1] in order, then children[-1]: %s' % [norm(s) for s in sl])
    ctx.floor(15)


@rule('C03.4')
def chaining(ctx):
    p = ctx.program
    u = ctx.unit('core._handle_tuple')
    cfg = ctx.cfg(u)
    evs = evaluator_calls(p, u)
    in_loop = [e for e in evs if cfg.node_containing(e).loop_stack]
    stray = [e for e in evs if e not in in_loop]
    ctx.ob(not stray, u, 'every step of a chain is evaluated inside the chain loop (with its SKIP/STOP handling)',
           '' if not stray else 'evaluation outside the loop: %s -- a SKIP / STOP produced there escapes the chain' % [norm(e) for e in stray])
    ctx.require(len(in_loop) == 1, '_handle_tuple: expected one evaluator call in the loop, found %d' % len(in_loop))
    c = in_loop[0]
    node = cfg.node_containing(c)
    tgt = c.args[0]
    ctx.require(isinstance(tgt, ast.Name), '_handle_tuple: evaluator target argument is not a variable')
    res = tgt.id
    target_param = u.params[0]
    st = node.ast
    ctx.require(isinstance(st, ast.Assign) and is_name(st.targets[0]), '_handle_tuple: evaluator result not assigned')
    nxt = st.targets[0].id
    defs = cfg.reaching_defs(node, res)
    kinds = set()
    for dn, val in defs:
        if isinstance(val, ast.AST) and is_name(val, target_param):
            kinds.add('target')
        elif isinstance(val, ast.AST) and is_name(val, nxt):
            kinds.add('previous')
        else:
            kinds.add('other:' + (norm(val) if isinstance(val, ast.AST) else str(val[0])))
    ctx.ob(kinds == {'target', 'previous'}, u,
           'each step receives the target or the previous step\'s result: %s(%s, ...)' % ('evaluator', res),
           'reaching definitions of %s: %s' % (res, sorted(kinds)), node=c)
    # spec argument is the loop variable
    loops = [n for n in u.own_nodes() if isinstance(n, ast.For)]
    ctx.require(len(loops) == 1, '_handle_tuple: expected one loop')
    ctx.ob(is_name(c.args[1], loops[0].target.id if isinstance(loops[0].target, ast.Name) else None), u,
           'each step evaluates its own sub-spec: %s' % norm(c), node=c)
    rets = [n for n in u.own_nodes() if isinstance(n, ast.Return)]
    ctx.ob(len(rets) >= 1 and all(is_name(r.value, res) for r in rets), u, 'the last result is returned: %s'
           % [norm(r) for r in rets])
    # res is not initialised to anything but the target
    inits = [n for n in u.node.body if isinstance(n, ast.Assign) and any(is_name(t, res) for t in n.targets)]
    ctx.ob(len(inits) == 1 and is_name(inits[0].value, target_param), u,
           'the chain starts from the target: %s' % [norm(i) for i in inits])
    # Pipe delegates to the same handler with its steps
    pu = ctx.unit('core.Pipe.glomit')
    cs = [x for x in calls_in(pu) if callee_qual(p, pu, x) == 'core._handle_tuple']
    ok = len(cs) == 1 and is_name(cs[0].args[0], pu.params[1]) and isinstance(cs[0].args[1], ast.Attribute) \
        and cs[0].args[1].attr == 'steps' and is_name(cs[0].args[2], pu.params[2])
    ctx.ob(ok, pu, 'Pipe chains its steps like a tuple: %s' % [norm(x) for x in cs])
    ctx.floor(5)


@rule('C03.5')
def coalesce(ctx):
    p = ctx.program
    u = ctx.unit('core.Coalesce.glomit')
    cfg = ctx.cfg(u)
    evs = evaluator_calls(p, u)
    ctx.require(len(evs) == 1, 'Coalesce.glomit: expected one evaluator call')
    c = evs[0]
    node = cfg.node_containing(c)
    ctx.require(node.loop_stack, 'Coalesce.glomit: evaluator call is not in a loop')
    header = node.loop_stack[-1]
    lp = header.ast
    ctx.ob(isinstance(lp.iter, ast.Attribute) and lp.iter.attr == 'subspecs', u,
           'alternatives are tried in order: for %s in %s' % (src(lp.target), src(lp.iter)), node=lp)
    ctx.ob(is_name(c.args[0], u.params[1]) and is_name(c.args[1], lp.target.id), u,
           'each alternative is evaluated on the current target: %s' % norm(c), node=c)
    # failures are filtered by self.skip_exc only
    hs = cfg.handlers_reached_from(node)
    ctx.require(hs, 'Coalesce.glomit: evaluation is not inside a try')
    for h in hs:
        t = h.ast.type
        ok = isinstance(t, ast.Attribute) and t.attr == 'skip_exc' and is_name(t.value, u.params[0])
        ctx.ob(ok, u, 'failures are filtered by the configured skip_exc only: except %s' % (src(t) if t else ''),
               node=h.ast)
        out = handler_outcomes(cfg, h)
        ctx.ob(set(out) <= {'continue', 'normal'}, u, 'a skipped failure moves on to the next alternative',
               'handler outcomes: %s' % sorted(out), node=h.ast)
    # success: break guarded by `not self.skip_func(ret)`
    st = node.ast
    ctx.require(isinstance(st, ast.Assign) and is_name(st.targets[0]), 'Coalesce.glomit: result not assigned')
    ret = st.targets[0].id
    # a win leaves the loop from inside its body: a break, or a return of the result
    wins = [n for n in cfg.nodes if n.kind == 'stmt' and header in n.loop_stack
            and (isinstance(n.ast, ast.Break) and n.loop_stack[-1] is header or isinstance(n.ast, ast.Return))]
    ctx.ob(len(wins) >= 1, u, 'a successful, non-skipped result ends the search (break / return inside the loop)')
    # skip tests: `[not] self.skip_func(ret)`; the edge taken when the result is NOT a skip value
    tests = []
    for n in cfg.nodes:
        if n.kind != 'test' or header not in n.loop_stack:
            continue
        t = n.ast
        neg = False
        if isinstance(t, ast.UnaryOp) and isinstance(t.op, ast.Not):
            t, neg = t.operand, True
        if isinstance(t, ast.Call) and isinstance(t.func, ast.Attribute) and t.func.attr == 'skip_func' \
                and len(t.args) == 1 and is_name(t.args[0], ret):
            tests.append((n, 'true' if neg else 'false'))
    for w in wins:
        ctx.ob(cfg.dominates(node, w), u, 'the search ends only after an evaluation', node=w.ast)
        ok = False
        for t, keep in tests:
            other = 'false' if keep == 'true' else 'true'
            if cfg.dominates(t, w) and cfg.dominates(node, t) and \
                    cfg.find_path(t, {w}, avoid={header}, start_labels=lambda lab, o=other: lab == o,
                                  labels=lambda lab: lab != 'exc') is None and \
                    cfg.find_path(t, {w}, avoid={header}, start_labels=lambda lab, k=keep: lab == k,
                                  labels=lambda lab: lab != 'exc') is not None:
                ok = True
        ctx.ob(ok, u, 'the search ends exactly when the result is not a skip value', node=w.ast)
        if isinstance(w.ast, ast.Return):
            ctx.ob(is_name(w.ast.value, ret), u, 'the winning result itself is returned: %s' % norm(w.ast), node=w.ast)
    # a skip value moves on: from the skip edge the loop header is reached again
    for t, keep in tests:
        other = 'false' if keep == 'true' else 'true'
        pth = cfg.find_path(t, {header}, start_labels=lambda lab, o=other: lab == o, labels=lambda lab: lab != 'exc')
        ctx.ob(pth is not None, u, 'a skip value moves on to the next alternative: %s' % norm(t.ast), node=t.ast)
    # after a break: every return reached without exhausting the loop returns the result
    brk = [w for w in wins if isinstance(w.ast, ast.Break)]
    outside = [n for n in cfg.nodes if n.kind == 'stmt' and header not in n.loop_stack and n is not header]
    after_break = [n for n in outside if any(cfg.find_path(bk, {n}, labels=lambda lab: lab != 'exc') is not None for bk in brk)]
    for n in after_break:
        if isinstance(n.ast, ast.Return):
            ctx.ob(is_name(n.ast.value, ret), u, 'the winning result itself is returned: %s' % norm(n.ast), node=n.ast)
    ctx.ob(any(isinstance(w.ast, ast.Return) for w in wins) or
           any(isinstance(n.ast, ast.Return) for n in after_break), u, 'a win returns')
    # default / default_factory / CoalesceError only on exhaustion: never inside the loop body and
    # never reachable from a win
    ab = {id(n.ast) for n in after_break}
    for n in u.own_nodes():
        what = None
        if isinstance(n, ast.Attribute) and n.attr in ('default', 'default_factory') and is_name(n.value, u.params[0]):
            what = 'self.%s is consulted' % n.attr
        elif isinstance(n, ast.Raise) and n.exc is not None:
            what = 'CoalesceError is raised: %s;' % norm(n)
        if what:
            cn = cfg.node_containing(n)
            ok = header not in cn.loop_stack and cn is not header and cn not in after_break
            # an *evaluation* of the default (argument of a call / the factory call itself) must
            # also come after the loop: computed up front it runs even when an alternative wins
            par = parent(n)
            evaluated = isinstance(par, ast.Call) and (n in par.args or par.func is n)
            if evaluated or isinstance(n, ast.Raise):
                ok = ok and cfg.dominates(header, cn)
            ctx.ob(ok, u, '%s only when every alternative was skipped' % what, node=n)
    # skip=: predicate as is, tuple -> membership, anything else -> equality
    iu = ctx.unit('core.Coalesce.__init__')
    chain = [n for n in iu.node.body if isinstance(n, ast.If) and norm(n.test) == 'self.skip is _MISSING']
    ok = len(chain) == 1
    tests = []
    if ok:
        c0 = chain[0]
        while True:
            tests.append(c0)
            if len(c0.orelse) == 1 and isinstance(c0.orelse[0], ast.If):
                c0 = c0.orelse[0]
            else:
                break
        texts = [norm(t.test) for t in tests]
        ok = texts == ['self.skip is _MISSING', 'callable(self.skip)', 'isinstance(self.skip, tuple)']
        if ok:
            lam_t = [x for x in ast.walk(tests[2]) if isinstance(x, ast.Lambda)]
            ok = any(norm(l.body).endswith('in self.skip') for l in lam_t[:1]) and \
                any(norm(l.body).endswith('== self.skip') for l in [x for x in ast.walk(ast.Module(body=tests[2].orelse, type_ignores=[])) if isinstance(x, ast.Lambda)])
    ctx.ob(ok, iu, 'skip= is a predicate, a tuple of values (membership) or a single value (equality): %s' % [norm(t.test) for t in tests])
    ctx.floor(11)


@rule('C03.6')
def dict_shape(ctx):
    p = ctx.program
    u = ctx.unit('core._handle_dict')
    cfg = ctx.cfg(u)
    spec = u.params[1]
    rets = [n for n in u.own_nodes() if isinstance(n, ast.Return)]
    ctx.require(len(rets) == 1 and isinstance(rets[0].value, ast.Name), '_handle_dict: `return <ret>` not found')
    ret = rets[0].value.id
    defs = [n for n in u.own_nodes() if isinstance(n, ast.Assign) and any(is_name(t, ret) for t in n.targets)]
    ok = len(defs) == 1 and isinstance(defs[0].value, ast.Call) and not defs[0].value.args \
        and isinstance(defs[0].value.func, ast.Call) and is_name(defs[0].value.func.func, 'type') \
        and is_name(defs[0].value.func.args[0], spec)
    ctx.ob(ok, u, 'the result is a new container of the spec\'s own type: %s' % [norm(d) for d in defs])
    # stores into ret
    lp = [n for n in u.own_nodes() if isinstance(n, ast.For)]
    ctx.require(len(lp) == 1 and isinstance(lp[0].target, ast.Tuple), '_handle_dict: field loop not found')
    fvar, svar = [e.id for e in lp[0].target.elts]
    ctx.ob(norm(lp[0].iter) == '%s.items()' % spec, u, 'fields come from spec.items(): %s' % norm(lp[0].iter), node=lp[0])
    writes = []
    for n in u.own_nodes():
        if isinstance(n, ast.Assign):
            for t in n.targets:
                if isinstance(t, ast.Subscript) and is_name(t.value, ret):
                    writes.append((n, t))
        elif isinstance(n, ast.Call) and isinstance(n.func, ast.Attribute) and is_name(n.func.value, ret):
            writes.append((n, None))
        elif isinstance(n, (ast.AugAssign, ast.Delete)):
            for x in ast.walk(n):
                if isinstance(x, ast.Name) and x.id == ret and isinstance(x.ctx, (ast.Store, ast.Del)):
                    writes.append((n, None))
    ctx.ob(len(writes) == 1 and writes[0][1] is not None and is_name(writes[0][1].slice, fvar), u,
           'exactly one store per field, keyed by the field: %s' % [norm(w[0]) for w in writes])
    # field is only replaced by its own evaluation, under the Spec/T test
    fdefs = [n for n in u.own_nodes() if isinstance(n, ast.Assign) and any(is_name(t, fvar) for t in n.targets)]
    for d in fdefs:
        v = d.value
        ok = isinstance(v, ast.Call) and p.is_evaluator_call(u, v) and is_name(v.args[1], fvar) \
            and is_name(v.args[0], u.params[0])
        g = [a for a in ancestors(d) if isinstance(a, ast.If)]
        okg = bool(g) and isinstance(g[0].test, ast.Compare) and isinstance(g[0].test.left, ast.Call) \
            and is_name(g[0].test.left.func, 'type') and is_name(g[0].test.left.args[0], fvar)
        ctx.ob(ok and okg, u, 'a key is replaced only by its own evaluation when it is a Spec/T: %s' % norm(d), node=d)
    # value stored is the evaluator result for the field's sub-spec
    if writes and writes[0][1] is not None:
        w = writes[0][0]
        v = w.value
        node = cfg.node_of(w)
        dv = deref(cfg, node, v)
        ok = isinstance(dv, ast.Call) and p.is_evaluator_call(u, dv) and is_name(dv.args[1], svar) \
            and is_name(dv.args[0], u.params[0])
        ctx.ob(ok, u, 'the stored value is the field\'s sub-result on the current target: %s' % norm(dv), node=w)
    # list handler: result is a new list, items appended in order
    lu = ctx.unit('core._handle_list')
    lrets = [n for n in lu.own_nodes() if isinstance(n, ast.Return)]
    ctx.require(len(lrets) >= 1 and all(isinstance(r.value, ast.Name) for r in lrets) and len({r.value.id for r in lrets}) == 1,
                '_handle_list: return not found')
    lret = lrets[0].value.id
    ldefs = [n for n in lu.own_nodes() if isinstance(n, ast.Assign) and any(is_name(t, lret) for t in n.targets)]
    ctx.ob(len(ldefs) == 1 and isinstance(ldefs[0].value, ast.List) and not ldefs[0].value.elts, lu,
           'list spec builds a new list: %s' % [norm(d) for d in ldefs])
    apps = [n for n in lu.own_nodes() if isinstance(n, ast.Call) and isinstance(n.func, ast.Attribute)
            and is_name(n.func.value, lret)]
    ctx.ob(len(apps) == 1 and apps[0].func.attr == 'append', lu, 'one append per item: %s' % [norm(a) for a in apps])
    evs = evaluator_calls(p, lu)
    llp = [n for n in lu.own_nodes() if isinstance(n, ast.For)]
    ok = len(evs) == 1 and len(llp) == 1
    if ok:
        tg = llp[0].target
        item = tg.elts[-1].id if isinstance(tg, ast.Tuple) else tg.id
        ok = is_name(evs[0].args[0], item)
        sub = deref(ctx.cfg(lu), ctx.cfg(lu).node_containing(evs[0]), evs[0].args[1])
        ok = ok and isinstance(sub, ast.Subscript) and is_name(sub.value, lu.params[1]) \
            and isinstance(sub.slice, ast.Constant) and sub.slice.value == 0
    ctx.ob(ok, lu, 'the sub-spec spec[0] is mapped over each item: %s' % [norm(e) for e in evs])
    # items come from the registered iterate handler applied to the target
    its = [c for c in calls_in(lu) if isinstance(c.func, ast.Attribute) and c.func.attr == 'get_handler']
    ok = len(its) == 1 and isinstance(its[0].args[0], ast.Constant) and its[0].args[0].value == 'iterate' \
        and is_name(its[0].args[1], lu.params[0])
    ctx.ob(ok, lu, "items come from the target's registered 'iterate' handler: %s" % [norm(i) for i in its])
    ctx.floor(9)


@rule('C03.7')
def callables(ctx):
    p = ctx.program
    for q in ('core.AUTO', 'core.FILL'):
        u = ctx.unit(q)
        target, spec = u.params[0], u.params[1]
        ucfg = ctx.cfg(u)
        tests = [(t, polarity(t.ast, 'callable(%s)' % spec)) for t in ucfg.nodes if t.kind == 'test']
        tests = [(t, e) for t, e in tests if e]
        ctx.ob(len(tests) == 1, u, 'callable specs are recognised by callable(spec)',
               '' if len(tests) == 1 else 'found %d callable(spec) tests' % len(tests))
        calls = [n for n in ucfg.nodes if n.kind == 'stmt' and any(isinstance(c, ast.Call) and is_name(c.func, spec)
                                                                  for c in ast.walk(n.ast))]
        for n in calls:
            b = n.ast
            ok = isinstance(b, ast.Return) and isinstance(b.value, ast.Call) and is_name(b.value.func, spec) \
                and len(b.value.args) == 1 and is_name(b.value.args[0], target) and not b.value.keywords
            ctx.ob(ok, u, 'a callable spec is called with the current target and its result returned: %s' % norm(b), node=b)
            if tests:
                t, holds = tests[0]
                ctx.ob(n in exclusive(ucfg, t, holds), u, 'the spec is called only when it is callable', node=b)
        ctx.ob(len(calls) == 1, u, 'one call site for callable specs (%d)' % len(calls))
    # AUTO dispatch: dict -> _handle_dict, list -> _handle_list, tuple -> _handle_tuple
    u = ctx.unit('core.AUTO')
    want = {'dict': 'core._handle_dict', 'list': 'core._handle_list', 'tuple': 'core._handle_tuple'}
    for n in u.own_nodes():
        if isinstance(n, ast.If) and isinstance(n.test, ast.Call) and is_name(n.test.func, 'isinstance') \
                and len(n.test.args) == 2 and isinstance(n.test.args[1], ast.Name) and n.test.args[1].id in want:
            tname = n.test.args[1].id
            b = n.body[0]
            ok = isinstance(b, ast.Return) and isinstance(b.value, ast.Call) \
                and callee_qual(p, u, b.value) == want[tname] \
                and [a.id if isinstance(a, ast.Name) else None for a in b.value.args] == u.params[:3]
            ctx.ob(ok, u, '%s specs are handled by %s(target, spec, scope): %s' % (tname, want[tname], norm(b)), node=b)
    ctx.floor(5)


@rule('C03.8')
def evaluator_dispatch(ctx):
    p = ctx.program
    u = ctx.unit('core._glom')
    cfg = ctx.cfg(u)
    target, spec = u.params[0], u.params[1]
    # the child frame
    childs = [n for n in u.own_nodes() if isinstance(n, ast.Assign) and isinstance(n.value, ast.Call)
              and isinstance(n.value.func, ast.Attribute) and n.value.func.attr == 'new_child']
    ctx.require(len(childs) == 1 and is_name(childs[0].targets[0]), '_glom: child frame construction not found')
    child = childs[0].targets[0].id
    # T interpreter first
    tcalls = [c for c in calls_in(u) if callee_qual(p, u, c) == 'core._t_eval']
    gcalls = [c for c in calls_in(u) if isinstance(c.func, ast.Attribute) and c.func.attr == 'glomit']
    ctx.ob(len(tcalls) == 1 and [a.id if isinstance(a, ast.Name) else None for a in tcalls[0].args] == [target, spec, child],
           u, 'T specs go to the interpreter with (target, spec, child frame): %s' % [norm(c) for c in tcalls])
    ctx.ob(len(gcalls) == 1 and is_name(gcalls[0].func.value, spec)
           and [a.id if isinstance(a, ast.Name) else None for a in gcalls[0].args] == [target, child],
           u, 'glomit specs get (target, child frame): %s' % [norm(c) for c in gcalls])
    if tcalls and gcalls:
        tn, gn = cfg.node_containing(tcalls[0]), cfg.node_containing(gcalls[0])
        # the TType test guards the interpreter call and precedes the glomit test
        g = [a for a in ancestors(tcalls[0]) if isinstance(a, ast.If)]
        ok = bool(g) and isinstance(g[0].test, ast.Compare) and isinstance(g[0].test.left, ast.Call) \
            and is_name(g[0].test.left.func, 'type') and is_name(g[0].test.left.args[0], spec) \
            and p.global_qualname(u, g[0].test.comparators[0]) == 'core.TType'
        ctx.ob(ok, u, 'the interpreter is chosen by `type(spec) is TType`', node=g[0] if g else None)
        ctx.ob(not cfg.find_path(gn, {tn}) and cfg.node_of(g[0]) is not None and cfg.dominates(cfg.node_of(g[0]), gn)
               if g else False, u, 'the T test comes before the glomit test (T is callable / has attributes)')
    # mode function
    mcalls = [c for c in calls_in(u) if isinstance(c.func, ast.BoolOp)]
    ok = len(mcalls) == 1 and [a.id if isinstance(a, ast.Name) else None for a in mcalls[0].args] == [target, spec, child]
    ctx.ob(ok, u, 'everything else goes to the mode function with (target, spec, child frame): %s'
           % [norm(c) for c in mcalls])
    # every dispatch result is returned unchanged
    for c in tcalls + gcalls + mcalls:
        st = cfg.node_containing(c).ast
        ctx.ob(isinstance(st, ast.Return) and st.value is c, u, 'the result is returned unchanged: %s' % norm(st), node=st)
    ctx.floor(8)


WRAPPERS = {
    'core.Spec.glomit': 'spec', 'core.Auto.glomit': 'spec', 'core.Fill.glomit': 'spec',
    'matching.Match.glomit': 'spec', 'core.Inspect.glomit': 'wrapped',
}


@rule('C03.9')
def wrappers(ctx):
    p = ctx.program
    for q, attr in WRAPPERS.items():
        u = ctx.unit(q)
        evs = evaluator_calls(p, u)
        ctx.require(evs, '%s: no evaluator call' % q)
        c = evs[0]
        ok = len(c.args) >= 3 and is_name(c.args[0], u.params[1]) and isinstance(c.args[1], ast.Attribute) \
            and c.args[1].attr == attr and is_name(c.args[1].value, u.params[0]) and is_name(c.args[2], u.params[2])
        ctx.ob(ok, u, 'evaluates its wrapped spec on the same target and frame: %s' % norm(c), node=c)
    # Val returns its value
    u = ctx.unit('core.Val.glomit')
    r = [n for n in u.own_nodes() if isinstance(n, ast.Return)]
    ok = len(r) == 1 and isinstance(r[0].value, ast.Attribute) and r[0].value.attr == 'value' \
        and is_name(r[0].value.value, u.params[0])
    ctx.ob(ok, u, 'Val yields the wrapped value itself: %s' % [norm(x) for x in r])
    iu = ctx.unit('core.Val.__init__')
    st = [n for n in iu.own_nodes() if isinstance(n, ast.Assign) and isinstance(n.targets[0], ast.Attribute)]
    ok = len(st) == 1 and isinstance(st[0].targets[0], ast.Attribute) and st[0].targets[0].attr == 'value' \
        and is_name(st[0].value, iu.params[1])
    ctx.ob(ok, iu, 'Val stores its argument unchanged: %s' % [norm(x) for x in st])
    # Ref evaluates the bound sub-spec on the same target
    u = ctx.unit('core.Ref.glomit')
    evs = evaluator_calls(p, u)
    rcfg = ctx.cfg(u)
    ens = [rcfg.node_containing(e) for e in evs]
    ok = len(evs) >= 1 and all(is_name(e.args[0], u.params[1]) and is_name(e.args[2], u.params[2]) for e in evs) \
        and not any(a is not b and rcfg.find_path(a, {b}) is not None for a in ens for b in ens)
    ctx.ob(ok, u, 'Ref evaluates the referenced spec on the same target, once: %s' % [norm(e) for e in evs])
    # a defining Ref(name, sub) binds the name for its own evaluation -- always: an enclosing
    # or earlier definition of the same name is shadowed, never kept
    subv = locals_from_attrs(u, {'subspec'}, recv=u.params[0]).get('subspec')
    tests = [(t, polarity(t.ast, '%s is _MISSING' % subv)) for t in rcfg.nodes if t.kind == 'test' and subv]
    tests = [(t, e) for t, e in tests if e]
    binds = [n for n in rcfg.nodes if n.kind == 'stmt' and isinstance(n.ast, ast.Assign)
             and isinstance(n.ast.targets[0], ast.Subscript) and is_name(n.ast.targets[0].value, u.params[2])
             and is_name(n.ast.value, subv)]
    ok = len(tests) == 1 and bool(binds) and bool(ens)
    wit = None
    if ok:
        t, e = tests[0]
        defining = 'false' if e == 'true' else 'true'
        ok, wit = rcfg.must_pass(t, set(ens), set(binds), labels=lambda l: l != 'exc', start_labels=lambda l: l == defining)
    ctx.ob(ok, u, 'a defining Ref binds its name on every path to the evaluation: %s' % [norm(b.ast) for b in binds],
           '' if ok else 'an outer / earlier binding of the same name is kept: %s' % (fmt_witness(rcfg, wit) if wit else 'no unconditional binding'))
    # Invoke: func(*all_args, **all_kwargs) with parts evaluated in order
    u = ctx.unit('core.Invoke.glomit')
    icfg = ctx.cfg(u)
    star = [(t, polarity(t.ast, "$o == '*'")) for t in icfg.nodes if t.kind == 'test']
    star = [(t, e) for t, e in star if e]
    ctx.ob(len(star) == 1, u, "the star() branch is selected by op == '*'")
    if len(star) == 1:
        region = set(exclusive(icfg, *star[0]))
        recs = [n for n in region if n.ast is not None and n.kind == 'stmt'
                and any(isinstance(c, ast.Call) and is_name(c.func) and c.args and is_name(c.args[0]) for c in ast.walk(n.ast))]
        nrec = 0
        for n in recs:
            for c in ast.walk(n.ast):
                if isinstance(c, ast.Call) and is_name(c.func) and len(c.args) == 1 and is_name(c.args[0]) and c.func.id not in ('len', 'list', 'tuple', 'dict'):
                    part = c.args[0].id
                    guards = [t for t in region if t.kind == 'test' and (n in exclusive(icfg, t, 'true') or n in exclusive(icfg, t, 'false'))]
                    bad = [norm(t.ast) for t in guards if polarity(t.ast, '%s is None' % part) is None]
                    nrec += 1
                    ctx.ob(not bad, u, 'a starred part is evaluated whenever it was given (tested against None only): %s' % norm(c),
                           '' if not bad else 'guard %s: a falsy spec such as () is a spec too (the identity chain) and is dropped' % bad, node=n.ast)
        ctx.ob(nrec == 2, u, 'star(args=, kwargs=) parts evaluated: %d' % nrec)
    r = [n for n in u.own_nodes() if isinstance(n, ast.Return)]
    ok = len(r) == 1 and isinstance(r[0].value, ast.Call) and len(r[0].value.args) == 1 \
        and isinstance(r[0].value.args[0], ast.Starred) and len(r[0].value.keywords) == 1 \
        and r[0].value.keywords[0].arg is None
    ctx.ob(ok, u, 'Invoke calls func(*all_args, **all_kwargs): %s' % [norm(x) for x in r])
    lam = [x for x in u.children if x.is_lambda]
    for lu in lam:
        evs = evaluator_calls(p, lu)
        for e in evs:
            ok = is_name(e.args[0], u.params[1]) and is_name(e.args[1], lu.params[0]) and is_name(e.args[2], u.params[2])
            ctx.ob(ok, u, 'Invoke evaluates spec arguments on the current target: %s' % norm(e), node=e)
    ctx.floor(13)


@rule('C03.16')
def spec_predicate(ctx):
    """what the evaluator treats as a spec object: an *instance* with a callable ``glomit`` --
    a class that merely defines glomit (Path, Spec, a user spec type used as a literal argument
    or dict key) is a plain value"""
    p = ctx.program
    u = ctx.unit('core._has_callable_glomit')
    cfg = ctx.cfg(u)
    obj = u.params[0]
    rets = [r for r in u.own_nodes() if isinstance(r, ast.Return) and r.value is not None]
    ctx.require(len(rets) == 1, '_has_callable_glomit: expected one return')
    v = rets[0].value
    terms = list(v.values) if isinstance(v, ast.BoolOp) and isinstance(v.op, ast.And) else [v]
    terms = [deref(cfg, cfg.node_of(rets[0]), t) for t in terms]

    def is_callable_glomit(t):
        if not (isinstance(t, ast.Call) and is_name(t.func, 'callable') and len(t.args) == 1):
            return False
        a = deref(cfg, cfg.node_of(rets[0]), t.args[0])
        return matches(a, "getattr(%s, 'glomit', None)" % obj)
    has_c = any(is_callable_glomit(t) for t in terms)
    has_t = any(polarity(t, 'isinstance(%s, type)' % obj) == 'false' for t in terms)
    ctx.ob(has_c, u, 'a spec object has a callable glomit: %s' % norm(v))
    ctx.ob(has_t, u, 'classes are never spec objects (only instances are): %s' % norm(v),
           '' if has_t else 'a class with a glomit method used as a literal (argument, dict key) would be called unbound')
    ctx.ob(len(terms) == 2, u, 'nothing else decides it (%d terms)' % len(terms))
    ctx.floor(3)


@rule('C03.25')
def specfunc_marks_its_argument(ctx):
    """Invoke accepts a callable, T or an exact Spec as its function; ``Invoke.specfunc(s)`` is the
    way to say "the function is the value of spec s" for *any* s, so it wraps s in Spec
    unconditionally.  Handing a spec-like object (Coalesce, Val, Pipe, a Path ..) on unwrapped
    makes the constructor refuse it"""
    u = ctx.unit('core.Invoke.specfunc')
    prm = u.params[1]
    rets = [r for r in u.own_nodes() if isinstance(r, ast.Return)]
    ctx.require(rets, 'Invoke.specfunc: no return')
    for r in rets:
        ok = r.value is not None and (matches(r.value, '%s(Spec(%s))' % (u.params[0], prm)) or matches(r.value, 'Invoke(Spec(%s))' % prm))
        ctx.ob(ok, u, 'specfunc wraps its argument in Spec whatever it is: %s' % norm(r),
               '' if ok else 'a spec-like argument is handed to the constructor as it is, which accepts callables, T and exact Spec objects only', node=r)
    ctx.floor(1)
