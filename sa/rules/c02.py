"""C02 -- T expressions replay exactly the recorded operations."""
import ast

from . import rule, info
from ..program import AnalysisError, src, norm
from ..tables import BINARY_DUNDERS, UNARY_DUNDERS
from ..util import is_name, calls_in, callee_qual, deref, ancestors, const_str_tests, polarity, exclusive, fmt_witness
from .c01 import model, conversion_rule, find_primitives

info('C02',
     explanation='Static decision of: op-code exhaustiveness (every code a TType/Path producer '
                 'records has a dispatch branch in the interpreter, so no recorded operation is '
                 'skipped); dunder<->operator agreement with operand order; every argument and the '
                 'Call spec are evaluated against the interpreter\'s own target parameter; failing '
                 'arithmetic is converted to a correctly indexed PathAccessError; argument mode '
                 'passes non-container literals through and never calls them.  Does not decide '
                 'value equality of whole chains.',
     decided=['C02.1 exhaustiveness', 'C02.2 operator agreement', 'C02.3 argument context',
              'C02.4 positioned arithmetic failures', 'C02.5 literal pass-through'],
     not_decided=['value equality of a whole chain with direct Python evaluation',
                  'OverflowError-class failures (outside the handler set the property names)'])


def producers(ctx):
    """(method unit, code, call) for every ``_t_child(x, <const>, ...)``; a
    producer that goes through one helper ``h(self, <const>, ...)`` whose
    every return is ``_t_child(<p0>, <p1>, ...)`` is followed; a helper with a
    return that records nothing is reported by C02.1"""
    p = ctx.program
    m, w = model(ctx)
    out = []
    helpers = {}
    for u in p.package_units():
        for c in calls_in(u):
            if callee_qual(p, u, c) == 'core._t_child' and len(c.args) > w.op_index:
                a = c.args[w.op_index]
                if isinstance(a, ast.Constant) and isinstance(a.value, str):
                    out.append((u, a.value, c))
                elif u.qualname == 'core.Path.__init__' and isinstance(a, ast.Subscript):
                    continue      # the Path splice copies already-recorded codes
                elif isinstance(a, ast.Name) and a.id in u.params:
                    helpers.setdefault(u, []).append((c, u.params.index(a.id)))
                else:
                    raise AnalysisError('producer with non-constant op code in %s: %s' % (u.qualname, src(c)))
    ctx.shared['c02_helper_faults'] = []
    for h, sites in helpers.items():
        rets = [r for r in h.own_nodes() if isinstance(r, ast.Return)]
        bad = [r for r in rets if not (isinstance(r.value, ast.Call) and callee_qual(p, h, r.value) == 'core._t_child')]
        for r in bad:
            ctx.shared['c02_helper_faults'].append((h, r))
        idx = sites[0][1]
        for u in p.package_units():
            for c in calls_in(u):
                if callee_qual(p, u, c) == h.qualname and len(c.args) > idx:
                    a = c.args[idx]
                    if isinstance(a, ast.Constant) and isinstance(a.value, str):
                        out.append((u, a.value, c))
                    else:
                        raise AnalysisError('producer with non-constant op code via %s in %s' % (h.qualname, u.qualname))
    return out


@rule('C02.1')
def exhaustiveness(ctx):
    m, w = model(ctx)
    prods = producers(ctx)
    handled = m.handled_codes()
    catch_all = m.has_catch_all()
    codes = {}
    for u, code, c in prods:
        codes.setdefault(code, []).append((u, c))
    for code, sites in sorted(codes.items()):
        u, c = sites[0]
        ok = code in handled or catch_all
        ctx.ob(ok, u, 'op code %r recorded by %s has an interpreter branch' % (code, u.name),
               '' if ok else 'no test of the dispatch chain in _t_eval matches %r and the chain has no final else: '
               'the recorded operation is silently skipped' % code, node=c)
    for h, r in ctx.shared.get('c02_helper_faults', []):
        ctx.ob(False, h, 'every path of a recording helper records a step: %s' % norm(r),
               'this return hands back an expression without appending the operation: the operation is silently dropped', node=r)
    # every operator method of T returns the recorded child
    tt = ctx.cls('core.TType')
    for name, mu in sorted(tt.methods.items()):
        if name in ('__repr__', '__getstate__', '__setstate__', '__stars__'):
            continue
        rets = [r for r in mu.own_nodes() if isinstance(r, ast.Return)]
        recs = [r for r in rets if isinstance(r.value, ast.Call) and is_name(r.value.args[0] if r.value.args else None, mu.params[0])]
        ctx.ob(len(rets) == 1 and len(recs) == 1, mu, 'T.%s returns exactly the child it records' % name,
               '' if len(rets) == 1 and len(recs) == 1 else 'returns: %s' % [norm(r) for r in rets])
    # branches that are never produced are harmless; report as note
    extra = handled - set(codes)
    if extra:
        ctx.note('interpreter branches without a producer: %s' % sorted(extra))
    ctx.floor(35, '(17 distinct op codes + 18 operator methods)')


@rule('C02.2')
def operator_agreement(ctx):
    m, w = model(ctx)
    u = m.unit
    n = 0
    for pu, code, c in producers(ctx):
        name = pu.name
        if pu.cls is None or pu.cls.name != 'TType':
            continue
        table = BINARY_DUNDERS if name in BINARY_DUNDERS else UNARY_DUNDERS if name in UNARY_DUNDERS else None
        if table is None:
            continue
        want = table[name]
        b = m.branch_for(code)
        if b is None:
            ctx.ob(False, pu, '%s (code %r) is applied by the interpreter' % (name, code),
                   'no branch for this code', node=c)
            n += 1
            continue
        found = []
        for st in b.body:
            for x in ast.walk(st):
                if isinstance(x, ast.Assign) and len(x.targets) == 1 and is_name(x.targets[0], m.cur_var):
                    found.append(x)
        ok = False
        detail = 'branch body: %s' % [norm(s) for s in b.body][:2]
        if len(found) == 1:
            v = found[0].value
            if name in BINARY_DUNDERS:
                ok = isinstance(v, ast.BinOp) and isinstance(v.op, want) and is_name(v.left, m.cur_var) \
                    and is_name(v.right, m.arg_var)
            else:
                ok = isinstance(v, ast.UnaryOp) and isinstance(v.op, want) and is_name(v.operand, m.cur_var)
        ctx.ob(ok, u, '%s (code %r) is replayed as `%s %s %s`' % (name, code, m.cur_var, want.__name__,
                                                                 m.arg_var if name in BINARY_DUNDERS else ''),
               detail, node=found[0] if found else b.test)
        n += 1
        # the recorded argument is the dunder's own operand
        if name in BINARY_DUNDERS:
            a = c.args[2] if len(c.args) > 2 else None
            okp = isinstance(a, ast.Name) and len(pu.params) > 1 and a.id == pu.params[1]
            ctx.ob(okp, pu, '%s records its operand: %s' % (name, norm(c)), node=c)
    ctx.floor(20, '(11 arithmetic producers)')


def _call_step_guards(m, cfg, avn):
    """tests that let the operand evaluation be skipped exactly for the call step: avn lies on
    the edge where ``op == '('`` is false"""
    out = []
    for t in cfg.nodes:
        if t.kind == 'test' and m.op_var and m.loop_node in t.loop_stack:
            pol = polarity(t.ast, "%s == '('" % m.op_var)
            if pol:
                other = 'false' if pol == 'true' else 'true'
                if avn in exclusive(cfg, t, other):
                    out.append(t)
    return out


def _evaluated_before(m, cfg, avn, node):
    """the operand evaluation avn precedes ``node`` on every path of one iteration -- either it
    dominates it, or it is skipped only for the call step (``if op != '(':``) and node is not part
    of the call step's branch (op is not rebound within an iteration)"""
    if cfg.dominates(avn, node):
        return True
    guards = _call_step_guards(m, cfg, avn)
    if len(guards) != 1:
        return False
    b = m.branch_for('(')
    in_call = b is not None and any(node.ast is x or any(node.ast is y for y in ast.walk(x)) for x in b.body)
    if in_call:
        return False
    rebound = [n for n in cfg.nodes if n is not cfg.node_of(m.fetch_stmt) and m.loop_node in n.loop_stack
               and any(nm == m.op_var for nm, _ in cfg.defs_at(n))] if m.fetch_stmt is not None else [1]
    if rebound:
        return False
    return cfg.find_path(m.loop_node, {node}, avoid={avn, guards[0]}, labels=lambda l: l != 'exc') is None


@rule('C02.3')
def argument_context(ctx):
    m, w = model(ctx)
    u, cfg = m.unit, m.cfg
    p = ctx.program
    # the target parameter is never rebound
    rebinds = [n for n in cfg.nodes if any(name == m.target_param for name, _ in cfg.defs_at(n))]
    ctx.ob(not rebinds, u, 'the target parameter is never reassigned in the interpreter',
           'rebinding at line(s) %s' % [n.lineno for n in rebinds])
    av = [c for c in calls_in(u) if callee_qual(p, u, c) == 'core.arg_val']
    ctx.require(av, 'no arg_val call in the interpreter')
    for c in av:
        ok = len(c.args) >= 3 and is_name(c.args[0], m.target_param) and is_name(c.args[2], m.scope_param)
        ctx.ob(ok, u, 'argument is evaluated against the original target: %s' % norm(c), node=c)
    # the per-step argument evaluation dominates every primitive of that iteration
    def is_step_arg(e):
        # the recorded argument: the argument variable, or ops[i+1] read in place
        return is_name(e, m.arg_var) or (m.arg_fetch_stmt is not None and any(e is x for x in ast.walk(m.arg_fetch_stmt.value))
                                         and isinstance(e, ast.Subscript) and is_name(e.value, m.ops_var))
    step_av = [c for c in av if cfg.node_containing(c) in cfg.loop_body(m.loop_node)
               and len(c.args) > 1 and is_step_arg(c.args[1])]
    ctx.ob(len(step_av) == 1, u, 'each step evaluates its argument once with arg_val(target, arg, scope)',
           'found %d such calls in the loop' % len(step_av))
    if step_av:
        avn = cfg.node_containing(step_av[0])
        st = avn.ast
        ctx.ob(isinstance(st, ast.Assign) and is_name(st.targets[0], m.arg_var), u,
               'the evaluated argument replaces the recorded one: %s' % norm(st), node=st)
        for kind, node, e in find_primitives(ctx, m):
            if m.arg_var in {x.id for x in ast.walk(e) if isinstance(x, ast.Name)}:
                ctx.ob(_evaluated_before(m, cfg, avn, node), u,
                       '%s primitive %s uses the evaluated argument' % (kind, norm(e)), node=e)
    # call op: Call(cur, args, kwargs) evaluated with the original target
    b = m.branch_for('(')
    ctx.require(b is not None, "no branch for the call op '('")
    evs = [c for st in b.body for c in ast.walk(st) if isinstance(c, ast.Call) and p.is_evaluator_call(u, c)]
    ctx.ob(len(evs) == 1, u, 'the call op is evaluated through one evaluator call', 'found %d' % len(evs))
    for c in evs:
        ok = len(c.args) >= 3 and is_name(c.args[0], m.target_param) and is_name(c.args[2], m.scope_param)
        ctx.ob(ok, u, 'call arguments see the original target: %s' % norm(c), node=c)
        sp = c.args[1] if len(c.args) > 1 else None
        sp = deref(cfg, cfg.node_containing(c), sp) if sp is not None else None
        ok2 = isinstance(sp, ast.Call) and callee_qual(p, u, sp) == 'core.Call' and sp.args \
            and is_name(sp.args[0], m.cur_var)
        ctx.ob(ok2, u, 'the callee is the running value: %s' % (norm(sp) if sp is not None else None), node=c)
        if ok2:
            rest = sp.args[1:]
            # args, kwargs unpacked from the recorded argument
            unpack = [st for st in b.body if isinstance(st, ast.Assign) and isinstance(st.targets[0], ast.Tuple)
                      and is_name(st.value, m.arg_var)]
            names = [e.id for e in unpack[0].targets[0].elts] if unpack else []
            ctx.ob([a.id if isinstance(a, ast.Name) else None for a in rest] == names and len(names) == 2, u,
                   'positional and keyword arguments are passed on in order: %s' % norm(sp), node=c)
        st = cfg.node_containing(c).ast
        ctx.ob(isinstance(st, ast.Assign) and is_name(st.targets[0], m.cur_var) and st.value is c, u,
               'the call result becomes the running value: %s' % norm(st), node=st)
    ctx.floor(11)


@rule('C02.10')
def call_parts(ctx):
    p = ctx.program
    # Call.glomit evaluates func, args, kwargs with arg_val against its target
    cu = ctx.unit('core.Call.glomit')
    ccfg = ctx.cfg(cu)
    lam = {x.node: x for x in cu.children if x.is_lambda}
    r = [n for n in cu.own_nodes() if isinstance(n, ast.Return)]

    def part_eval(e, attr):
        """e evaluates self.<attr> with arg_val(target, part, scope), directly or through a local
        lambda wrapping exactly that call"""
        if not isinstance(e, ast.Call):
            return False
        if callee_qual(p, cu, e) == 'core.arg_val':
            return len(e.args) == 3 and is_name(e.args[0], cu.params[1]) and is_name(e.args[2], cu.params[2]) \
                and isinstance(e.args[1], ast.Attribute) and e.args[1].attr == attr and is_name(e.args[1].value, cu.params[0])
        if isinstance(e.func, ast.Name) and len(e.args) == 1 and isinstance(e.args[0], ast.Attribute) \
                and e.args[0].attr == attr and is_name(e.args[0].value, cu.params[0]):
            for _, v in ccfg.reaching_defs(ccfg.node_containing(e), e.func.id):
                lu = lam.get(v)
                if lu is None:
                    return False
                cs = [c for c in calls_in(lu) if callee_qual(p, lu, c) == 'core.arg_val']
                if not (len(cs) == 1 and lu.node.body is cs[0] and is_name(cs[0].args[0], cu.params[1])
                        and is_name(cs[0].args[2], cu.params[2]) and is_name(cs[0].args[1], lu.params[0])):
                    return False
            return True
        return False
    ok = False
    detail = ''
    if len(r) == 1 and isinstance(r[0].value, ast.Call):
        call = r[0].value
        rn = ccfg.node_of(r[0])
        ok = len(call.args) == 1 and isinstance(call.args[0], ast.Starred) and len(call.keywords) == 1 \
            and call.keywords[0].arg is None
        if ok:
            seq = []
            for slot, (e, attr) in enumerate(((call.func, 'func'), (call.args[0].value, 'args'), (call.keywords[0].value, 'kwargs'))):
                if isinstance(e, ast.Name):
                    ds = ccfg.reaching_defs(rn, e.id, split=False)
                    if len(ds) != 1 or not isinstance(ds[0][1], ast.AST) or not part_eval(ds[0][1], attr):
                        ok = False
                        detail = '%s is not arg_val(target, self.%s, scope)' % (e.id, attr)
                        break
                    seq.append((0, ds[0][0].lineno, slot))
                else:
                    if not part_eval(e, attr):
                        ok = False
                        detail = 'the %s part is not arg_val(target, self.%s, scope)' % (attr, attr)
                        break
                    seq.append((1, 0, slot))
            if ok and seq != sorted(seq):
                ok = False
                detail = 'parts are not evaluated in the order func, args, kwargs'
    ctx.ob(ok, cu, 'Call applies func(*args, **kwargs) to its three parts, each evaluated once with arg_val(target, part, scope), '
           'in the order func, args, kwargs: %s' % (norm(r[0]) if r else None), detail)
    ctx.floor(1)


@rule('C02.4')
def positioned_arith(ctx):
    n = conversion_rule(ctx, ('arith',))
    if n < 1:
        raise AnalysisError('C02.4: no PathAccessError construction for arithmetic failures')
    ctx.floor(12)


@rule('C02.5')
def literal_passthrough(ctx):
    p = ctx.program
    u = ctx.unit('core._ArgValuator.mode')
    cfg = ctx.cfg(u)
    spec = u.params[2]
    target = u.params[1]
    # never calls its spec
    bad = [c for c in calls_in(u) if is_name(c.func, spec)]
    for lu in u.children:
        bad += [c for c in calls_in(lu) if is_name(c.func, spec)]
    ctx.ob(not bad, u, 'argument mode never calls the spec it is given',
           'calls: %s' % [norm(c) for c in bad])
    # what mode() returns, case by case on type(spec): every path is followed with the tests on
    # type(spec) decided (other tests -- the memo lookup -- are taken both ways)
    from ..util import clone
    CONTAINERS = ('list', 'dict', 'tuple', 'set', 'frozenset')

    def decide(t, case):
        if isinstance(t, ast.BoolOp):
            vals = [decide(v, case) for v in t.values]
            if isinstance(t.op, ast.And):
                return False if False in vals else (True if all(v is True for v in vals) else None)
            return True if True in vals else (False if all(v is False for v in vals) else None)
        if isinstance(t, ast.UnaryOp) and isinstance(t.op, ast.Not):
            v = decide(t.operand, case)
            return None if v is None else not v
        if isinstance(t, ast.Compare) and len(t.ops) == 1 and norm(t.left) == 'type(%s)' % spec:
            c, o = t.comparators[0], t.ops[0]
            names = [x.id for x in (c.elts if isinstance(c, (ast.Tuple, ast.List, ast.Set)) else [c]) if isinstance(x, ast.Name)]
            if isinstance(o, (ast.In, ast.Is, ast.Eq)):
                return case in names
            if isinstance(o, (ast.NotIn, ast.IsNot, ast.NotEq)):
                return case not in names
        return None

    def subst(e, env):
        class Sub(ast.NodeTransformer):
            def visit_Name(self, node):
                if isinstance(node.ctx, ast.Load) and node.id in env:
                    return clone(env[node.id])
                return node
        return Sub().visit(clone(e))

    def run(stmts, case, env):
        """-> outcomes [('return', expr, stmt)] plus ('fall', env) when the end is reached"""
        if not stmts:
            return [('fall', env, None)]
        st, rest = stmts[0], stmts[1:]
        if isinstance(st, ast.Return):
            return [('return', subst(st.value, env) if st.value is not None else ast.Constant(None), st)]
        if isinstance(st, ast.Raise):
            return []
        if isinstance(st, ast.If):
            v = decide(subst(st.test, env), case)
            arms = [st.body] if v is True else [st.orelse] if v is False else [st.body, st.orelse]
            out = []
            for arm in arms:
                for o in run(arm, case, env):
                    out += run(rest, case, o[1]) if o[0] == 'fall' else [o]
            return out
        if isinstance(st, ast.Assign) and len(st.targets) == 1 and is_name(st.targets[0]) and not isinstance(st.value, ast.Lambda):
            env = dict(env)
            env[st.targets[0].id] = subst(st.value, env)
            return run(rest, case, env)
        if isinstance(st, (ast.For, ast.While, ast.Try, ast.With)):
            raise AnalysisError('mode(): %s in the argument valuator is not modelled' % type(st).__name__)
        return run(rest, case, env)

    n_paths = 0
    for case in CONTAINERS + ('<any other type>',):
        outs = run(list(u.node.body), case, {})
        ctx.require(outs, 'mode(): no return for type(spec) == %s' % case)
        for kind, e, st in outs:
            n_paths += 1
            if kind == 'fall':
                e, st = ast.Constant(None), None
            txt = norm(e)
            if case not in CONTAINERS:
                ok = txt == spec
                ctx.ob(ok, u, 'a spec that is no plain container is its own value (literal pass-through): returns %s' % txt,
                       '' if ok else 'a literal argument is replaced by something else', node=st)
            else:
                hit = txt == 'self.cache[id(%s)]' % spec
                rebuilt = isinstance(e, ast.Call) and norm(e.func) == 'type(%s)' % spec
                ok = hit or rebuilt
                ctx.ob(ok, u, 'a %s is rebuilt (or is the copy being built, on a memo hit): returns %s' % (case, txt[:60]),
                       '' if ok else 'containers taking this exit are returned as the spec\'s own object (shared between evaluations)'
                       if txt == spec else 'neither the memoised copy nor a new %s' % case, node=st)
    ctx.ob(n_paths >= 6, u, 'paths through the argument valuator examined: %d' % n_paths)
    # container types handled: dict list tuple set frozenset
    types = set()
    for n in u.own_nodes():
        if isinstance(n, ast.Compare) and isinstance(n.left, ast.Call) and is_name(n.left.func, 'type'):
            for c in n.comparators:
                for x in ast.walk(c):
                    if isinstance(x, ast.Name):
                        types.add(x.id)
    ctx.ob(types >= {'dict', 'list', 'tuple', 'set', 'frozenset'}, u,
           'argument mode rebuilds dict, list, tuple, set and frozenset: tests on %s' % sorted(types))
    # sub-values are evaluated against the same target through the evaluator
    for lu in u.children:
        evs = [c for c in calls_in(lu) if p.is_evaluator_call(lu, c)]
        for c in evs:
            ok = is_name(c.args[0], target) and is_name(c.args[1], lu.params[0])
            ctx.ob(ok, u, 'nested values are evaluated against the same target: %s' % norm(c), node=c)
    # every element a rebuilt container is filled with -- dict keys included -- went through
    # that evaluation (a T / Spec in key position is a nested spec like any other)
    recs = {lu2.bound_name for lu2 in u.children if getattr(lu2, 'bound_name', None)}
    if not recs:
        recs = {n.targets[0].id for n in u.own_nodes() if isinstance(n, ast.Assign) and is_name(n.targets[0])
                and isinstance(n.value, ast.Lambda)}
    n_el = 0
    for comp in [n for n in u.own_nodes() if isinstance(n, (ast.ListComp, ast.SetComp, ast.DictComp, ast.GeneratorExp))]:
        elts = [comp.key, comp.value] if isinstance(comp, ast.DictComp) else [comp.elt]
        bound = {x.id for g in comp.generators for x in ast.walk(g.target) if isinstance(x, ast.Name)}
        for e in elts:
            n_el += 1
            ok = isinstance(e, ast.Call) and is_name(e.func) and e.func.id in recs and len(e.args) == 1 \
                and is_name(e.args[0]) and e.args[0].id in bound
            ctx.ob(ok, u, 'every element of a rebuilt container is evaluated: %s' % norm(e),
                   '' if ok else 'copied as written: a T / Spec there is handed on unevaluated (%s)' % norm(comp)[:60], node=comp)
    ctx.ob(n_el >= 4, u, 'container elements examined: %d (dict key, dict value, list / tuple element)' % n_el)
    # arg_val brackets MIN_MODE with a fresh valuator (see also C08.4)
    ctx.floor(6)


REFLECTED = {'__radd__', '__rsub__', '__rmul__', '__rtruediv__', '__rfloordiv__', '__rmod__', '__rpow__',
             '__rand__', '__ror__', '__rxor__', '__rdiv__', '__rmatmul__', '__rlshift__', '__rrshift__'}


@rule('C02.12')
def call_defaults_and_reflection(ctx):
    """(a) every `(` step is replayed through Call(func, args, kwargs): a default replaces only a
    *missing* part (``is None``) -- a test by truth value swaps a falsy callable (an empty
    container class instance with __call__) for T; (b) T records an operator with itself as the
    left operand, so it defines no reflected operator: an alias ``__radd__ = __add__`` would
    replay ``'x' + T`` as ``T + 'x'``"""
    p = ctx.program
    u = ctx.unit('core.Call.__init__')
    cfg = ctx.cfg(u)
    for prm in ('func', 'args', 'kwargs'):
        if prm not in u.params:
            ctx.ob(False, u, 'Call takes %s' % prm)
            continue
        # every rebinding of the parameter is guarded by an identity test on it
        rebinds = [n for n in cfg.nodes if n.kind == 'stmt' and isinstance(n.ast, ast.Assign)
                   and any(is_name(t, prm) for t in n.ast.targets)]
        for rb in rebinds:
            ok = False
            for t in cfg.nodes:
                if t.kind == 'test' and cfg.dominates(t, rb):
                    pol = polarity(t.ast, '%s is None' % prm)
                    if pol and rb in exclusive(cfg, t, pol):
                        ok = True
            ctx.ob(ok, u, 'the default for %s applies only when it is None: %s' % (prm, norm(rb.ast)),
                   '' if ok else 'a falsy but meaningful %s is replaced' % prm, node=rb.ast)
        # what is stored is the parameter itself (no ``or`` default in the store)
        stores = []
        for n in u.own_nodes():
            if isinstance(n, ast.Assign):
                for t, v in _pairs(n):
                    if isinstance(t, ast.Attribute) and t.attr == prm and is_name(t.value, u.params[0]):
                        stores.append((n, v))
        ok = len(stores) == 1 and is_name(stores[0][1], prm)
        ctx.ob(ok, u, 'Call keeps the %s it was given: %s' % (prm, [norm(v) for _, v in stores]),
               '' if ok else 'the stored value is not the parameter itself')
    c = ctx.cls('core.TType')
    refl = sorted(n for n in REFLECTED if c.defines(n))
    ctx.ob(not refl, c, 'T defines no reflected operator (the recorded left operand is always the T expression)',
           '' if not refl else '%s: `x <op> T` would be recorded and replayed as `T <op> x`' % refl)
    ctx.floor(7)


def _pairs(assign):
    out = []
    for t in assign.targets:
        if isinstance(t, ast.Tuple) and isinstance(assign.value, ast.Tuple) and len(t.elts) == len(assign.value.elts):
            out += list(zip(t.elts, assign.value.elts))
        else:
            out.append((t, assign.value))
    return out


@rule('C02.16')
def call_operands_evaluated_once(ctx):
    """a '(' step is replayed through ``Call(cur, args, kwargs)``, and Call.glomit evaluates its
    parts as arguments (C02.10).  The interpreter must therefore hand it the operand *as
    recorded*: evaluating it beforehand as well replaces a nested spec by its value and then that
    value -- if it is spec-like itself: T['f'](Val(T)) -- by yet another one"""
    p = ctx.program
    m, w = model(ctx)
    u, cfg = m.unit, m.cfg
    calls = [c for c in calls_in(u) if callee_qual(p, u, c) == 'core.Call' and m.loop in ancestors(c)]
    ctx.require(len(calls) == 1, '_t_eval: the Call spec of the call step not found (%d)' % len(calls))
    cn = cfg.node_containing(calls[0])
    # the generic operand evaluation of the loop: ``arg = arg_val(target, arg, scope)``
    pre = [n for n in cfg.nodes if n.kind == 'stmt' and isinstance(n.ast, ast.Assign) and is_name(n.ast.targets[0], m.arg_var)
           and isinstance(n.ast.value, ast.Call) and callee_qual(p, u, n.ast.value) == 'core.arg_val' and m.loop_node in n.loop_stack]
    ctx.require(len(pre) >= 1, '_t_eval: operand evaluation not found')
    for pn in pre:
        pth = cfg.find_path(pn, {cn}, avoid={m.loop_node}, labels=lambda l: l != 'exc')
        # skipped exactly for the call step: ``if op != '(': arg = arg_val(..)``
        ok = pth is None or len(_call_step_guards(m, cfg, pn)) == 1
        ctx.ob(ok, u, 'the operand of a call step reaches Call unevaluated (Call evaluates it once)',
               '' if ok else 'evaluated here and again by Call.glomit: %s' % fmt_witness(cfg, pth), node=pn.ast)
    ctx.floor(1)
