"""C01 -- path access returns the addressed object or pinpoints the failing
segment.  Structural clauses over core._t_eval, _s_first_magic, Path, AUTO and
the default registrations."""
import ast

from . import rule, info
from ..program import AnalysisError, src, norm, ClassDefn, Builtin, External, FuncDef
from ..tinterp import TInterp, Writer, dispatch_branches
from ..tables import MISS
from ..affine import linear, NotAffine
from ..util import (is_name, calls_in, handler_covers, handler_body_nodes, handler_outcomes,
                    deref, callee_qual, enclosing_trys, stmt_of, parent, ancestors,
                    class_names_of_handler, fmt_witness)

info('C01',
     explanation='Static decision, for every path through the T/Path interpreter, of the '
                 'structural clauses behind C01: error-class ancestry; every access primitive sits '
                 'under handlers covering its miss classes and each handler builds '
                 'PathAccessError(<caught>, Path(<t>), k) with k proven equal to the segment index '
                 'by affine normalisation over the loop induction variable; fail-stop (no path from '
                 'an error construction to the back edge / return / another access without raising '
                 'it); identity flow of the returned object; op-tuple layout agreement between the '
                 'writer and all readers; loop bound coverage; text paths keep every segment; '
                 'default accessor table.  Does not decide value equality with plain Python.',
     decided=['C01.1 hierarchy', 'C01.2 conversion + index', 'C01.3 fail-stop', 'C01.4 identity flow',
              'C01.5 layout agreement', 'C01.6 loop coverage', 'C01.7 from_text', 'C01.8 default accessors'],
     not_decided=['value equality with plain Python for arbitrary targets',
                  'that the handler chosen for an intermediate value is the right one (C13)'],
     assumptions=['miss classes of getattr / subscript / default get handlers as in sa/tables.py'])


def model(ctx):
    m = ctx.shared.get('tinterp')
    if m is None:
        m = ctx.shared['tinterp'] = TInterp(ctx.program)
        ctx.shared['writer'] = Writer(ctx.program)
    ctx.units_touched.add(m.unit.qualname)
    return m, ctx.shared['writer']


@rule('C01.1')
def hierarchy(ctx):
    c = ctx.cls('core.PathAccessError')
    names = c.ancestor_names()
    for need in ('GlomError', 'AttributeError', 'KeyError', 'IndexError'):
        ctx.ob(need in names, c, 'PathAccessError ancestry includes %s' % need,
               'linearised ancestry: %s' % ', '.join(names[:8]))
    ctx.floor(4)


# -- primitives --------------------------------------------------------------

def find_primitives(ctx, m):
    """access primitives inside the interpreter loop:
    (kind, stmt-cfg-node, expr)"""
    p = ctx.program
    u = m.unit
    cfg = m.cfg
    prims = []
    loop_nodes = set(cfg.loop_body(m.loop_node))
    for n in loop_nodes:
        if n.kind != 'stmt' or n.ast is None:
            continue
        st = n.ast
        for e in ast.walk(st):
            if isinstance(e, ast.Call):
                q = callee_qual(p, u, e)
                if q == 'builtins.getattr' and e.args and is_name(e.args[0], m.cur_var):
                    prims.append(('getattr', n, e))
                elif q.startswith('local:') and e.args and is_name(e.args[0], m.cur_var):
                    # a local bound to get_handler('get', ...) on at least one path
                    defs = [v for _, v in cfg.reaching_defs(n, e.func.id)] if isinstance(e.func, ast.Name) else []
                    def _is_lookup(d):
                        return isinstance(d, ast.Call) and isinstance(d.func, ast.Attribute) \
                            and d.func.attr == 'get_handler' and d.args \
                            and isinstance(d.args[0], ast.Constant) and d.args[0].value == 'get'
                    if any(_is_lookup(d) for d in defs):
                        prims.append(('get-handler', n, e))
            elif isinstance(e, ast.Subscript) and isinstance(e.ctx, ast.Load) \
                    and is_name(e.value, m.cur_var) and not isinstance(e.slice, ast.Slice):
                prims.append(('getitem', n, e))
            elif isinstance(e, ast.BinOp) and is_name(e.left, m.cur_var) and is_name(e.right, m.arg_var):
                prims.append(('arith', n, e))
            elif isinstance(e, ast.UnaryOp) and not isinstance(e.op, ast.Not) and is_name(e.operand, m.cur_var):
                prims.append(('arith', n, e))
    return prims


def pae_constructions(ctx, unit):
    """PathAccessError(...) constructor calls in a unit"""
    out = []
    for c in calls_in(unit):
        if callee_qual(ctx.program, unit, c) == 'core.PathAccessError':
            out.append(c)
    return out


def check_construction(ctx, m, w, unit, cfg, call, hnode, idx_env, want=(1, 0), what=''):
    """PathAccessError(<caught>, Path(<t>), <k>)"""
    node = cfg.node_containing(call)
    args = list(call.args)
    kw = {k.arg: k.value for k in call.keywords}
    a0 = args[0] if len(args) > 0 else kw.get('exc')
    a1 = args[1] if len(args) > 1 else kw.get('path')
    a2 = args[2] if len(args) > 2 else kw.get('part_idx')
    h = hnode.ast if hnode is not None else None
    ok0 = h is not None and h.name is not None and is_name(a0, h.name)
    ctx.ob(ok0, unit, 'PathAccessError arg 0 is the caught exception: %s' % norm(call),
           'handler binds %r, argument is %s' % (h.name if h is not None else None, src(a0) if a0 is not None else None),
           node=call)
    t_param = m.t_param if unit is m.unit else None
    d1 = deref(cfg, node, a1) if a1 is not None else None
    ok1 = False
    if isinstance(d1, ast.Call) and callee_qual(ctx.program, unit, d1) == 'core.Path' and len(d1.args) == 1:
        arg = d1.args[0]
        if unit is m.unit:
            ok1 = is_name(arg, m.t_param)
        else:
            ok1 = isinstance(arg, ast.Name) and arg.id in unit.params
    ctx.ob(ok1, unit, 'PathAccessError arg 1 is Path(<the T being evaluated>): %s' % norm(call),
           'argument is %s' % (src(a1) if a1 is not None else None), node=call)
    try:
        lin = linear(a2, idx_env) if a2 is not None else None
        detail = 'normalises to %s*k + %s under %s' % (lin[0], lin[1], what) if lin else 'missing'
    except NotAffine as e:
        lin = None
        detail = 'not affine: %s' % e
    ctx.ob(lin == want, unit, 'part index is the segment index k: %s' % (src(a2) if a2 is not None else '?'),
           detail, node=call)


def conversion_rule(ctx, kinds):
    """every primitive of the given kinds sits under handlers covering its miss
    classes, and each such handler converts to a correctly indexed
    PathAccessError; returns the number of constructions checked"""
    m, w = model(ctx)
    cfg, u = m.cfg, m.unit
    prims = [x for x in find_primitives(ctx, m) if x[0] in kinds]
    for k in kinds:
        ctx.require(any(kk == k for kk, _, _ in prims), 'no %s primitive found in the loop' % k)
    idx_env = {m.ivar: (w.stride, w.offset)}
    what = '%s = %d*k + %d' % (m.ivar, w.stride, w.offset)
    seen_handlers = {}
    for kind, node, expr in prims:
        handlers = cfg.handlers_reached_from(node)
        for miss in MISS[kind]:
            cov = [h for h in handlers if handler_covers(cfg, h, miss)]
            ctx.ob(bool(cov), u, '%s primitive %s: %s is caught' % (kind, norm(expr), miss),
                   'handlers reached: %s' % [class_names_of_handler(cfg, h) for h in handlers], node=expr)
            for h in cov:
                seen_handlers.setdefault(h, set()).add(kind)
    n_constr = 0
    for h, kinds in seen_handlers.items():
        body = set(handler_body_nodes(cfg, h))
        constr = [c for c in pae_constructions(ctx, u) if cfg.node_containing(c) in body]
        cnodes = {cfg.node_containing(c) for c in constr}
        # every way out of the handler passes a construction
        outside = [n for n in cfg.nodes if n not in body and n is not h]
        p = cfg.find_path(h, outside, avoid=cnodes, labels=lambda lab: lab != 'exc')
        ctx.ob(p is None and bool(constr), u,
               'handler `except %s` (%s) converts to PathAccessError on every path'
               % (src(h.ast.type) if h.ast.type is not None else '', '/'.join(sorted(kinds))),
               '' if (p is None and constr) else ('a path leaves the handler without building the error'
                                                  if constr else 'no PathAccessError built'),
               node=h.ast, witness=fmt_witness(cfg, p))
        for c in constr:
            n_constr += 1
            check_construction(ctx, m, w, u, cfg, c, h, idx_env, what=what)
            # the construction is what the handler produces, not one arm of a choice whose other
            # arm hands the caught exception on (``e if isinstance(e, PathAccessError) else ..``:
            # an inner call's error keeps the inner path and part index)
            par = parent(c)
            if isinstance(par, ast.IfExp):
                other = par.orelse if par.body is c else par.body
                ok2 = isinstance(other, ast.Call) and other in constr
                ctx.ob(ok2, u, 'every caught miss is converted (no pass-through arm): %s' % norm(par)[:70],
                       '' if ok2 else 'under `%s` the caught exception itself is used: its path / part index are those of an inner call'
                       % norm(par.test)[:50], node=c)
    return n_constr


@rule('C01.2')
def conversion_and_index(ctx):
    m, w = model(ctx)
    cfg, u = m.cfg, m.unit
    n_constr = conversion_rule(ctx, ('getattr', 'getitem', 'get-handler'))
    # _s_first_magic: first S segment, index 0
    su = ctx.unit('core._s_first_magic')
    scfg = ctx.cfg(su)
    sc = pae_constructions(ctx, su)
    ctx.require(sc, '_s_first_magic builds no PathAccessError')
    for c in sc:
        node = scfg.node_containing(c)
        hs = [hn for hn in scfg.nodes if hn.kind == 'handler' and node in handler_body_nodes(scfg, hn)]
        ctx.require(hs, '_s_first_magic: construction outside a handler')
        ctx.ob(handler_covers(scfg, hs[0], 'KeyError'), su, 'scope lookup miss (KeyError) is caught', node=hs[0].ast)
        check_construction(ctx, m, w, su, scfg, c, hs[0], {}, want=(0, 0), what='the first segment')
        n_constr += 1
    # the call site passes the first segment's argument: ops[offset + 1]
    sites = [c for c in calls_in(u) if callee_qual(ctx.program, u, c) == 'core._s_first_magic']
    ctx.require(sites, '_s_first_magic is not called from the interpreter')
    for c in sites:
        a = c.args[1] if len(c.args) > 1 else None
        ok = isinstance(a, ast.Subscript) and is_name(a.value, m.ops_var) and isinstance(a.slice, ast.Constant) \
            and a.slice.value == w.offset + 1
        ctx.ob(ok, u, 'first S segment key is ops[%d]: %s' % (w.offset + 1, norm(c)), node=c)
        ctx.ob(len(c.args) > 2 and is_name(c.args[2], m.t_param), u,
               'first S segment error reports the T being evaluated: %s' % norm(c), node=c)
    if n_constr < 4:
        raise AnalysisError('C01.2 matched %d PathAccessError constructions, confirmed floor is 4' % n_constr)
    ctx.floor(24)


@rule('C01.3')
def fail_stop(ctx):
    m, w = model(ctx)
    cfg, u = m.cfg, m.unit
    prim_nodes = {n for _, n, _ in find_primitives(ctx, m)}
    count = 0
    for c in pae_constructions(ctx, u):
        node = cfg.node_containing(c)
        st = node.ast
        if isinstance(st, ast.Raise):
            ctx.ob(True, u, 'raised where built: %s' % norm(st), node=st)
            count += 1
            continue
        if not (isinstance(st, ast.Assign) and len(st.targets) == 1 and is_name(st.targets[0])):
            raise AnalysisError('C01.3: PathAccessError built in an unsupported statement: %s' % src(st))
        var = st.targets[0].id

        def step(n, lab, s, state, var=var, start=node):
            if isinstance(n.ast, ast.Raise) and n.kind == 'stmt':
                return None          # raised: path ends well
            if lab == 'exc':
                return None          # incidental exception: also leaves the loop
            if n.kind == 'test':
                t = n.ast
                if is_name(t, var) or (isinstance(t, ast.Compare) and is_name(t.left, var)
                                       and isinstance(t.ops[0], ast.IsNot)
                                       and isinstance(t.comparators[0], ast.Constant)
                                       and t.comparators[0].value is None):
                    if lab != 'true':
                        return None
                if (isinstance(t, ast.UnaryOp) and isinstance(t.op, ast.Not) and is_name(t.operand, var)) or \
                        (isinstance(t, ast.Compare) and is_name(t.left, var) and isinstance(t.ops[0], ast.Is)
                         and isinstance(t.comparators[0], ast.Constant) and t.comparators[0].value is None):
                    if lab != 'false':
                        return None
            if n is not start and any(name == var for name, _ in cfg.defs_at(n)):
                return None
            return state

        seen = cfg.explore(node, True, step)
        bad = None
        for (n, stt), prev in seen.items():
            if prev is None:
                continue
            (pn, _), lab = prev
            if n is cfg.exit or (n is m.loop_node and m.loop_node in pn.loop_stack) or (n in prim_nodes and n is not node):
                bad = (n, stt)
                break
        raised = any(isinstance(n.ast, ast.Raise) and n.kind == 'stmt' and
                     (is_name(n.ast.exc, var)) for (n, _s) in seen)
        wit = fmt_witness(cfg, cfg.witness(seen, bad)) if bad else []
        ctx.ob(bad is None and raised, u,
               'error built in `%s` is raised before the next segment' % norm(st),
               'a path reaches the loop back edge / a return / another access without raising %s' % var
               if bad else ('no raise of %s reachable' % var if not raised else ''),
               node=st, witness=wit)
        count += 1
    if count < 4:
        raise AnalysisError('C01.3 matched %d constructions, floor is 4' % count)


@rule('C01.4')
def identity_flow(ctx):
    m, w = model(ctx)
    cfg, u = m.cfg, m.unit
    p = ctx.program
    prims = [(k, n, e) for k, n, e in find_primitives(ctx, m) if k != 'arith']
    for kind, node, expr in prims:
        if kind == 'get-handler' and isinstance(expr.func, ast.Name):
            defs = [v for _, v in cfg.reaching_defs(node, expr.func.id)]
            good = [d for d in defs if isinstance(d, ast.Call) and isinstance(d.func, ast.Attribute) and d.func.attr == 'get_handler'
                    and len(d.args) > 1 and is_name(d.args[1], m.cur_var)
                    and isinstance(d.func.value, ast.Subscript) and p.scope_key(u, d.func.value.slice) == 'core.TargetRegistry']
            ctx.ob(len(good) == len(defs) and bool(defs), u,
                   'the accessor of a path segment always comes from the scope\'s registry, looked up for the running value',
                   '' if len(good) == len(defs) else 'on some path the accessor is %s: registrations for that type are bypassed'
                   % [norm(d) if isinstance(d, ast.AST) else str(d) for d in defs if d not in good], node=expr)
        st = node.ast
        ok = isinstance(st, ast.Assign) and len(st.targets) == 1 and is_name(st.targets[0], m.cur_var) \
            and st.value is expr
        ctx.ob(ok, u, 'result of %s primitive is stored unwrapped: %s' % (kind, norm(st)),
               'the running value must be the object the access returned (no copy / conversion)', node=st)
        if kind in ('getattr', 'get-handler'):
            okargs = len(expr.args) == 2 and is_name(expr.args[0], m.cur_var) and is_name(expr.args[1], m.arg_var) \
                and not expr.keywords
            ctx.ob(okargs, u, '%s primitive is applied to (running value, segment): %s' % (kind, norm(expr)), node=expr)
        else:
            ctx.ob(is_name(expr.slice, m.arg_var), u, 'subscript primitive indexes by the segment: %s' % norm(expr),
                   node=expr)
    # final return is the running value itself
    ctx.ob(is_name(m.final_return.value, m.cur_var), u, 'returns the running value itself: %s' % norm(m.final_return),
           node=m.final_return)
    # T root starts from the target parameter itself; S/A roots from the scope parameter
    inits = []
    for n in cfg.nodes:
        if n.kind == 'stmt' and isinstance(n.ast, ast.Assign) and any(is_name(t, m.cur_var) for t in n.ast.targets) \
                and m.loop_node not in n.loop_stack and n.lineno < m.loop.lineno:
            inits.append(n.ast)
    ctx.require(inits, 'no initial definition of the running value before the loop')
    for st in inits:
        v = st.value
        ok = is_name(v, m.target_param) or is_name(v, m.scope_param) or \
            (isinstance(v, ast.Call) and callee_qual(p, u, v) == 'core._s_first_magic')
        ctx.ob(ok, u, 'initial running value is the target / scope itself: %s' % norm(st), node=st)
    # which root gets which start
    for st in inits:
        if is_name(st.value, m.target_param):
            node = cfg.node_of(st)
            tests = [a for a in ancestors(st) if isinstance(a, ast.If)]
            ok = bool(tests) and isinstance(tests[0].test, ast.Compare) and is_name(tests[0].test.left, m.root_var) \
                and isinstance(tests[0].test.ops[0], ast.Is) and \
                p.global_qualname(u, tests[0].test.comparators[0]) == 'core.T' and st in tests[0].body
            ctx.ob(ok, u, 'the target is the start exactly for root T: %s' % norm(st), node=st)
    # _s_first_magic returns the looked-up object itself
    su = ctx.unit('core._s_first_magic')
    scfg = ctx.cfg(su)
    rets = [n for n in su.own_nodes() if isinstance(n, ast.Return)]
    for r in rets:
        d = deref(scfg, scfg.node_of(r), r.value)
        ok = isinstance(d, ast.Subscript) and isinstance(d.value, ast.Name) and d.value.id == su.params[0] \
            and is_name(d.slice, su.params[1])
        ctx.ob(ok, su, 'first S segment returns scope[key] itself: %s' % norm(r), node=r)
    ctx.floor(9)


# -- layout ------------------------------------------------------------------

def _ops_vars(unit):
    """local names bound to ``<x>.__ops__`` (possibly sliced) in a unit ->
    {name: slice lower bound (0 when unsliced)}"""
    out = {}
    for n in unit.own_nodes():
        if isinstance(n, ast.Assign) and len(n.targets) == 1 and is_name(n.targets[0]):
            v = n.value
            low = 0
            if isinstance(v, ast.Subscript) and isinstance(v.slice, ast.Slice) and v.slice.step is None \
                    and v.slice.upper is None and isinstance(v.slice.lower, ast.Constant):
                low = v.slice.lower.value
                v = v.value
            if isinstance(v, ast.Attribute) and v.attr == '__ops__':
                out[n.targets[0].id] = low
    return out


def _loop_shape(unit, var_names):
    """while-loops stepping an index over one of var_names:
    (loop, ivar, init const, step const, ops var)"""
    out = []
    for lp in [n for n in unit.own_nodes() if isinstance(n, ast.While)]:
        t = lp.test
        if not (isinstance(t, ast.Compare) and is_name(t.left)):
            continue
        iv = t.left.id
        reads = [s for s in ast.walk(lp) if isinstance(s, ast.Subscript)
                 and (is_name(s.value) and s.value.id in var_names
                      or isinstance(s.value, ast.Attribute) and s.value.attr == '__ops__')
                 and iv in {x.id for x in ast.walk(s.slice) if isinstance(x, ast.Name)}]
        if not reads:
            continue
        inits = [n for n in unit.own_nodes() if isinstance(n, ast.Assign) and any(is_name(x, iv) for x in n.targets)
                 and isinstance(n.value, ast.Constant)]
        steps = [n for n in unit.own_nodes() if isinstance(n, ast.AugAssign) and is_name(n.target, iv)
                 and isinstance(n.op, ast.Add) and isinstance(n.value, ast.Constant)]
        out.append((lp, iv, inits, steps, reads))
    return out


def _starts_at(ctx, u, iv, init, offset, stride):
    """the constant an index is (re)initialised with: the first step's position, or -- where the
    index provably holds that position already -- a whole number of steps further (``i = 3`` after
    ``i = 1`` is ``i += 2``: one step was consumed by a shortcut)"""
    v = init.value
    if not (isinstance(v, ast.Constant) and isinstance(v.value, int)):
        return False
    if v.value == offset:
        return True
    if v.value > offset and (v.value - offset) % stride == 0:
        cfg = ctx.cfg(u)
        defs = [d for _, d in cfg.reaching_defs(cfg.node_of(init), iv)]
        return bool(defs) and all(isinstance(d, ast.Constant) and d.value == offset for d in defs)
    return False


@rule('C01.5')
def layout_agreement(ctx):
    m, w = model(ctx)
    p = ctx.program
    S, O = w.stride, w.offset
    ctx.ob(S == 2 and O == 1 or True, w.unit, 'writer appends %d items per step after a %d-item root' % (S, O),
           node=w.append_stmt)
    # (1) index loops over the op tuple
    loop_readers = {'core._t_eval': O, 'core.Path.__init__': O, 'core._format_t': 0, 'core._format_path': 0}
    for q, want_init in loop_readers.items():
        u = ctx.unit(q)
        names = set(_ops_vars(u)) | set(u.params)
        shapes = _loop_shape(u, names)
        ctx.require(shapes, '%s: no index loop over the op tuple found' % q)
        for lp, iv, inits, steps, reads in shapes:
            ctx.require(inits and steps, '%s: induction variable %s has no constant init/step' % (q, iv))
            for i in inits:
                ctx.ob(_starts_at(ctx, u, iv, i, want_init, S), u, 'reader loop starts at %d: %s' % (want_init, norm(i)), node=i)
            for s in steps:
                ctx.ob(s.value.value == S, u, 'reader loop steps by the writer stride %d: %s' % (S, norm(s)), node=s)
            offs = set()
            for r in reads:
                try:
                    a, b = linear(r.slice, {iv: (1, 0)}) if not isinstance(r.slice, ast.Slice) else (None, None)
                except NotAffine:
                    a = b = None
                if a == 1:
                    offs.add(b)
            ctx.ob(offs >= {0, 1} and offs <= {0, 1}, u,
                   'reader loop reads op at [i] and argument at [i+1] (offsets %s)' % sorted(offs), node=lp)
    # callers of the offset-0 formatters pass the tuple without its root
    for q in ('core.TType.__repr__', 'core.Path.__repr__'):
        u = ctx.unit(q)
        ok = False
        for c in calls_in(u):
            cq = callee_qual(p, u, c)
            if cq in ('core._format_t', 'core._format_path') and c.args:
                a = deref(ctx.cfg(u), ctx.cfg(u).node_containing(c), c.args[0])
                low = None
                if isinstance(a, ast.Subscript) and isinstance(a.slice, ast.Slice) and a.slice.upper is None \
                        and a.slice.step is None and isinstance(a.slice.lower, ast.Constant):
                    low = a.slice.lower.value
                # ``t_path = self.__ops__`` then ``t_path[1:]``
                ok = low == O
                ctx.ob(ok, u, 'formatter receives ops[%d:]: %s' % (O, norm(c)), node=c)
    # (2) strided slices
    slice_readers = {
        'core.Path.values': [(O + 1, S)],
        'core.Path.items': [(O, S), (O + 1, S)],
        'core.TType.__stars__': [(O, S)],
    }
    for q, want in slice_readers.items():
        u = ctx.unit(q)
        got = []
        for n in u.own_nodes():
            if isinstance(n, ast.Subscript) and isinstance(n.slice, ast.Slice) and n.slice.step is not None:
                lo, st = n.slice.lower, n.slice.step
                got.append((lo.value if isinstance(lo, ast.Constant) else None,
                            st.value if isinstance(st, ast.Constant) else None,
                            n.slice.upper is None))
        ctx.ob(sorted((a, b) for a, b, _ in got) == sorted(want) and all(c for _, _, c in got), u,
               'strided slices %s match writer layout %s' % (sorted((a, b) for a, b, _ in got), sorted(want)))
    # the interpreter's own value slice for error paths: ops[offset+1 : i+stride : stride]
    u = m.unit
    for n in u.own_nodes():
        if isinstance(n, ast.Subscript) and isinstance(n.slice, ast.Slice) and n.slice.step is not None \
                and is_name(n.value, m.ops_var):
            lo, up, st = n.slice.lower, n.slice.upper, n.slice.step
            ok = isinstance(lo, ast.Constant) and lo.value == O + 1 and isinstance(st, ast.Constant) and st.value == S
            try:
                ok = ok and linear(up, {m.ivar: (1, 0)}) == (1, S)
            except NotAffine:
                ok = False
            ctx.ob(ok, u, 'path-so-far slice takes the arguments of steps 0..k: %s' % norm(n), node=n)
    # the S / A prelude of the interpreter looks at the first step in place: its op code is
    # ops[offset], its argument ops[offset + 1], and "there is a first step" is bound > offset
    u = m.unit
    bound = m.loop.test.comparators[0].id if isinstance(m.loop.test, ast.Compare) and is_name(m.loop.test.comparators[0]) else None
    for n in u.own_nodes():
        if isinstance(n, ast.Compare) and len(n.ops) == 1 and m.loop not in ancestors(n):
            left, right = n.left, n.comparators[0]
            if isinstance(left, ast.Subscript) and is_name(left.value, m.ops_var) and isinstance(left.slice, ast.Constant) \
                    and isinstance(left.slice.value, int):
                strs = [right] if isinstance(right, ast.Constant) else (list(right.elts) if isinstance(right, ast.Tuple) else [])
                if strs and all(isinstance(x, ast.Constant) and isinstance(x.value, str) for x in strs):
                    ctx.ob(left.slice.value == O, u, 'the first step\'s op code is read at ops[%d]: %s' % (O, norm(n)), node=n)
            if bound and is_name(left, bound) and isinstance(right, ast.Constant) and isinstance(right.value, int) \
                    and isinstance(n.ops[0], (ast.Gt, ast.Lt, ast.GtE, ast.LtE)):
                ok = isinstance(n.ops[0], (ast.Gt, ast.Lt)) and right.value == O or \
                    isinstance(n.ops[0], (ast.GtE, ast.LtE)) and right.value in (O + 1, O - 1)
                ctx.ob(ok, u, '"has a step" compares the bound with the root offset %d: %s' % (O, norm(n)), node=n)
    # (3) __len__ = (len(ops) - offset) // stride
    u = ctx.unit('core.Path.__len__')
    rets = [n for n in u.own_nodes() if isinstance(n, ast.Return)]
    ctx.require(len(rets) == 1, 'Path.__len__: expected one return')
    e = rets[0].value
    ok = False
    lens = [c for c in ast.walk(e) if isinstance(c, ast.Call) and is_name(c.func, 'len')]
    if len(lens) == 1:
        # replace len(...) by symbolic L = stride*n + offset
        L = ast.Name(id='__L__', ctx=ast.Load())
        class R(ast.NodeTransformer):
            def visit_Call(self, node):
                return L if node is lens[0] else node
        import copy as _copy
        e2 = R().visit(_copy.deepcopy(e)) if False else None
        # deep copy loses identity; rebuild by position instead
        def sub(x):
            if x is lens[0]:
                return L
            if isinstance(x, ast.BinOp):
                return ast.BinOp(left=sub(x.left), op=x.op, right=sub(x.right))
            return x
        try:
            ok = linear(sub(e), {'__L__': (S, O)}) == (1, 0)
        except NotAffine:
            ok = False
    ctx.ob(ok, u, 'len(path) is the number of steps: %s' % norm(e), 'with len(ops) = %d*n + %d must normalise to n' % (S, O),
           node=rets[0])
    # (4) pickle state: root tag + ops[offset:], rebuilt as (root,) + state[offset:]
    for q in ('core.TType.__getstate__', 'core.TType.__setstate__'):
        u = ctx.unit(q)
        sl = [n for n in u.own_nodes() if isinstance(n, ast.Subscript) and isinstance(n.slice, ast.Slice)]
        ok = len(sl) == 1 and isinstance(sl[0].slice.lower, ast.Constant) and sl[0].slice.lower.value == O \
            and sl[0].slice.upper is None and sl[0].slice.step is None
        ctx.ob(ok, u, 'pickle state keeps every step: slices %s' % [norm(x) for x in sl])
    # (5) the wildcard continuation and the assignment tail
    u = m.unit
    for n in u.own_nodes():
        if isinstance(n, ast.Subscript) and isinstance(n.slice, ast.Slice) and n.slice.step is None \
                and is_name(n.value, m.ops_var) and n.slice.lower is not None and n.slice.upper is None:
            lo = n.slice.lower
            try:
                a, b = linear(lo, {m.ivar: (1, 0)})
            except NotAffine:
                a = b = None
            if a == 1:
                ctx.ob(b == S, u, 'remaining steps after the current one are ops[i+%d:]: %s' % (S, norm(n)), node=n)
            elif a == 0 and b is not None and b < 0:
                ctx.ob(b == -S, u, 'the final step is ops[-%d:]: %s' % (S, norm(n)), node=n)
    ctx.floor(22)


@rule('C01.6')
def loop_coverage(ctx):
    m, w = model(ctx)
    cfg, u = m.cfg, m.unit
    p = ctx.program
    t = m.loop.test
    ok = isinstance(t.ops[0], ast.Lt) and is_name(t.comparators[0])
    ctx.ob(ok, u, 'loop continues while index < bound: %s' % norm(t), node=m.loop)
    if not ok:
        return
    bound = t.comparators[0].id
    defs = [n for n in u.own_nodes() if (isinstance(n, ast.Assign) and any(is_name(x, bound) for x in n.targets))
            or (isinstance(n, ast.AugAssign) and is_name(n.target, bound))]
    ctx.require(defs, 'bound variable %s has no definition' % bound)
    for d in defs:
        if isinstance(d, ast.Assign):
            v = d.value
            ok = isinstance(v, ast.Call) and is_name(v.func, 'len') and len(v.args) == 1 and is_name(v.args[0], m.ops_var)
            ctx.ob(ok, u, 'bound starts as len(ops): %s' % norm(d), node=d)
        else:
            # only the assignment root leaves its last step to the assigner
            guards = [a for a in ancestors(d) if isinstance(a, ast.If)]
            g_ok = False
            for g in guards:
                tt = g.test
                if isinstance(tt, ast.Compare) and is_name(tt.left, m.root_var) and isinstance(tt.ops[0], ast.Is) \
                        and p.global_qualname(u, tt.comparators[0]) == 'core.A' and any(d is s or d in ast.walk(s) for s in g.body):
                    g_ok = True
            ok = isinstance(d.op, ast.Sub) and isinstance(d.value, ast.Constant) and d.value.value == w.stride and g_ok
            ctx.ob(ok, u, 'bound is shortened by one step only for root A: %s' % norm(d), node=d)
    # the induction variable: init = offset, every step = stride
    inits, steps = m.induction()
    for i in inits:
        ctx.ob(isinstance(i.value, ast.Constant) and _starts_at(ctx, u, m.ivar, i, w.offset, w.stride), u,
               'index starts at the first step (%d): %s' % (w.offset, norm(i)), node=i)
    for s in steps:
        ctx.ob(isinstance(s.op, ast.Add) and isinstance(s.value, ast.Constant) and s.value.value == w.stride, u,
               'index advances one step (%d): %s' % (w.stride, norm(s)), node=s)
    # exactly one advance per iteration: the loop's end-of-body increment post-dominates the dispatch
    body_steps = [s for s in steps if any(s is x for x in m.loop.body)]
    ctx.ob(len(body_steps) == 1 and body_steps[0] is m.loop.body[-1], u,
           'one index advance per iteration, as the last statement of the loop body', node=m.loop)
    ctx.floor(6)


def from_text_units(ctx):
    """(from_text, its nested builder function) -- found by role, not by name"""
    fu = ctx.unit('core.Path.from_text')
    kids = [k for k in fu.children if not k.is_lambda]
    ctx.require(len(kids) == 1, 'Path.from_text: expected exactly one nested builder function, found %d' % len(kids))
    ctx.units_touched.add(kids[0].qualname)
    return fu, kids[0]


@rule('C01.7')
def text_paths(ctx):
    p = ctx.program
    fu, cu = from_text_units(ctx)
    text_param = fu.params[1] if len(fu.params) > 1 else None
    ctx.require(text_param, 'Path.from_text has no text parameter')
    cfg = ctx.cfg(cu)
    # segs = text.split('.')
    splits = [c for c in calls_in(cu) if isinstance(c.func, ast.Attribute) and c.func.attr == 'split'
              and is_name(c.func.value, text_param)]
    ok = len(splits) == 1 and len(splits[0].args) == 1 and isinstance(splits[0].args[0], ast.Constant) \
        and splits[0].args[0].value == '.' and not splits[0].keywords
    ctx.ob(ok, cu, "segments come from text.split('.') with no limit: %s" % [norm(s) for s in splits])
    # comprehension keeps every segment, in order
    comps = [n for n in cu.own_nodes() if isinstance(n, (ast.ListComp, ast.GeneratorExp))]
    for c in comps:
        g = c.generators
        ok = len(g) == 1 and not g[0].ifs and isinstance(g[0].iter, ast.Name)
        ctx.ob(ok, cu, 'star mapping has no filter and iterates the segments in order: %s' % norm(c), node=c)
        # element: the mapped constants or the segment itself
        if ok:
            tgt = g[0].target.id if isinstance(g[0].target, ast.Name) else None
            e = c.elt
            leaves = []
            while isinstance(e, ast.IfExp):
                leaves.append(e.body)
                e = e.orelse
            ctx.ob(is_name(e, tgt), cu, 'non-wildcard segments are kept as they are: %s' % norm(c.elt), node=c)
    # all segments are passed to the constructor
    rets = [n for n in cu.own_nodes() if isinstance(n, ast.Return)]
    ctx.require(rets, 'create() has no return')
    for r in rets:
        v = r.value
        ok = isinstance(v, ast.Call) and len(v.args) == 1 and isinstance(v.args[0], ast.Starred) \
            and (isinstance(v.args[0].value, ast.Name) or v.args[0].value in comps or v.args[0].value in splits) and not v.keywords and \
            (is_name(v.func, fu.params[0]) or callee_qual(p, cu, v) == 'core.Path')
        ctx.ob(ok, cu, 'every segment is passed to the Path constructor: %s' % norm(r)[:90], node=r)
        if ok and isinstance(v.args[0].value, ast.Name):
            segvar = v.args[0].value.id
            # definitions of segvar reaching the return: the split or the unfiltered comprehension
            for dn, val in cfg.reaching_defs(cfg.node_of(r), segvar):
                good = isinstance(val, ast.AST) and (val in splits or val in comps)
                ctx.ob(good, cu, 'segments passed on are the split result or its 1:1 mapping: %s' % norm(val) if isinstance(val, ast.AST) else str(val))
    # from_text returns what create() built (cached or not)
    for r in [n for n in fu.own_nodes() if isinstance(n, ast.Return)]:
        v = r.value
        ok = (isinstance(v, ast.Call) and is_name(v.func, cu.name)) or \
             (isinstance(v, ast.Subscript) and is_name(v.slice, text_param))
        ctx.ob(ok, fu, 'from_text returns create() or the cache entry for this text: %s' % norm(r), node=r)
    # AUTO: string specs go through Path.from_text(spec) into the interpreter
    au = ctx.unit('core.AUTO')
    spec_param = au.params[1]
    n_str = 0
    for st in au.node.body:
        if isinstance(st, ast.If):
            stack = [st]
            while stack:
                s = stack.pop()
                tt = s.test
                is_str_test = False
                if isinstance(tt, ast.Compare) and isinstance(tt.left, ast.Call) and is_name(tt.left.func, 'type') \
                        and is_name(tt.comparators[0], 'str'):
                    is_str_test = True
                if isinstance(tt, ast.Call) and is_name(tt.func, 'isinstance') and len(tt.args) == 2 \
                        and p.global_qualname(au, tt.args[1]) in ('builtins.str', 'core.basestring'):
                    is_str_test = True
                if is_str_test:
                    n_str += 1
                    calls = [c for b in s.body for c in ast.walk(b) if isinstance(c, ast.Call)]
                    ft = [c for c in calls if callee_qual(p, au, c) == 'core.Path.from_text']
                    ok = len(ft) == 1 and len(ft[0].args) == 1 and is_name(ft[0].args[0], spec_param)
                    ctx.ob(ok, au, 'string spec is parsed by Path.from_text(spec): %s' % norm(s.body[0]), node=s)
                    interp = [c for c in calls if callee_qual(p, au, c) in ('core._t_eval',)
                              or (isinstance(c.func, ast.Attribute) and c.func.attr == 'glomit')]
                    ok2 = len(interp) == 1 and is_name(interp[0].args[0], au.params[0])
                    ctx.ob(ok2, au, 'and evaluated by the interpreter on the current target: %s' % norm(s.body[0]), node=s)
                stack.extend(x for x in s.orelse if isinstance(x, ast.If))
    ctx.require(n_str >= 1, 'AUTO has no string branch')
    ctx.floor(7)


@rule('C01.8')
def default_accessors(ctx):
    p = ctx.program
    u = ctx.unit('core.TargetRegistry._register_default_types')
    regs = {}
    for c in calls_in(u):
        if isinstance(c.func, ast.Attribute) and c.func.attr == 'register' and c.args:
            tname = p.global_qualname(u, c.args[0])
            for k in c.keywords:
                if k.arg == 'get':
                    regs[tname] = (k.value, c)
    want_getitem = ['builtins.dict', 'collections.OrderedDict']
    want_seq = ['builtins.list', 'builtins.tuple']
    for t in want_getitem:
        v = regs.get(t)
        ok = v is not None and p.global_qualname(u, v[0]) == 'operator.getitem'
        ctx.ob(ok, u, "%s is accessed by key: get=%s" % (t, src(v[0]) if v else None), node=v[1] if v else None)
    seq_funcs = set()
    for t in want_seq:
        v = regs.get(t)
        q = p.global_qualname(u, v[0]) if v else None
        fu = p.find_unit(q) if q else None
        ok = fu is not None
        ctx.ob(ok, u, "%s is accessed by a repo function: get=%s" % (t, src(v[0]) if v else None), node=v[1] if v else None)
        if fu is not None:
            seq_funcs.add(fu)
    for fu in seq_funcs:
        rets = [n for n in fu.own_nodes() if isinstance(n, ast.Return)]
        ok = False
        if len(rets) == 1 and isinstance(rets[0].value, ast.Subscript):
            s = rets[0].value
            idx = deref(ctx.cfg(fu), ctx.cfg(fu).node_of(rets[0]), s.slice)
            ok = is_name(s.value, fu.params[0]) and isinstance(idx, ast.Call) and is_name(idx.func, 'int') \
                and len(idx.args) == 1 and is_name(idx.args[0], fu.params[1])
        ctx.ob(ok, fu, 'sequence accessor returns target[int(index)] itself: %s' % [norm(r) for r in rets])
        extra = [n for n in fu.own_nodes() if isinstance(n, (ast.Raise, ast.If, ast.Try, ast.For, ast.While))]
        ctx.ob(not extra, fu, 'the sequence accessor does nothing but that lookup (every index Python accepts is accepted)',
               'additional control flow: %s' % [src(x, 60) for x in extra][:3])
    # fallback: attribute access
    bu = ctx.unit('core.TargetRegistry._register_builtin_ops')
    ok = False
    site = None
    for c in calls_in(bu):
        if isinstance(c.func, ast.Attribute) and c.func.attr == 'register_op' and c.args \
                and isinstance(c.args[0], ast.Constant) and c.args[0].value == 'get':
            site = c
            f = c.args[1] if len(c.args) > 1 else None
            for k in c.keywords:
                if k.arg == 'auto_func':
                    f = k.value
            if isinstance(f, ast.Lambda):
                ok = is_name(f.body, 'getattr')
            elif f is not None:
                q = p.global_qualname(bu, f)
                fu = p.find_unit(q) if q else None
                if fu is not None:
                    rr = [n for n in fu.own_nodes() if isinstance(n, ast.Return)]
                    ok = bool(rr) and all(is_name(r.value, 'getattr') for r in rr)
    ctx.ob(ok, bu, "every other type falls back to getattr: %s" % (norm(site) if site else None), node=site)
    # object is registered so that the fallback applies to every type
    ok = any(isinstance(c.func, ast.Attribute) and c.func.attr == 'register' and c.args
             and p.global_qualname(u, c.args[0]) == 'builtins.object' for c in calls_in(u))
    ctx.ob(ok, u, 'object is registered (the attribute fallback covers every type)')
    ctx.floor(7)


@rule('C01.9')
def path_keeps_every_part(ctx):
    """Path(*parts): every part contributes a step (or is refused with an error); none is skipped"""
    p = ctx.program
    u = ctx.unit('core.Path.__init__')
    cfg = ctx.cfg(u)
    loops = [n for n in u.own_nodes() if isinstance(n, ast.For)]
    ctx.require(len(loops) == 1, 'Path.__init__: part loop not found')
    lp = loops[0]
    ln = cfg.node_of(lp)
    body = [n for n in cfg.nodes if ln in n.loop_stack]
    adders = {n for n in body if n.ast is not None and any(
        isinstance(c, ast.Call) and callee_qual(p, u, c) == 'core._t_child' for c in ast.walk(n.ast) if n.kind == 'stmt')}
    ctx.require(adders, 'Path.__init__: no step is added in the loop')
    skips = [n for n in body if n.kind == 'stmt' and isinstance(n.ast, (ast.Continue, ast.Break))]
    ctx.ob(not skips, u, 'the part loop has no continue / break', '%s' % [norm(n.ast) for n in skips])
    # a part that is a T expression with zero steps adds nothing by construction (inner while over its steps);
    # every other path from the loop head back to it passes a step-adding call
    inner = [n for n in body if n.kind == 'test' and isinstance(n.stmt, ast.While)]
    pth = cfg.find_path(ln, {ln}, avoid=adders | set(inner), start_labels=lambda l: l == 'true', labels=lambda l: l != 'exc')
    ctx.ob(pth is None, u, 'every part adds a step on every path through the loop body',
           '' if pth is None else 'a path returns to the loop head without adding a step: that part is silently dropped',
           witness=fmt_witness(cfg, pth))
    # the iterated value is the argument tuple or a tail slice of it (directly or through a local)
    its = [lp.iter]
    if is_name(lp.iter) and lp.iter.id != u.vararg:
        its = [v for _, v in cfg.reaching_defs(ln, lp.iter.id) if not (isinstance(v, ast.AST) and ln in cfg.node_containing(v).loop_stack)] \
            if hasattr(cfg, 'node_containing') else [v for _, v in cfg.reaching_defs(ln, lp.iter.id)]
    def tail(e):
        return is_name(e, u.vararg) or (isinstance(e, ast.Subscript) and isinstance(e.slice, ast.Slice) and e.slice.upper is None
                                        and e.slice.step is None and is_name(e.value, u.vararg))
    ctx.ob(bool(its) and all(isinstance(e, ast.AST) and tail(e) for e in its), u,
           'the loop visits every part after the optional leading T: %s' % [norm(e) if isinstance(e, ast.AST) else e for e in its])
    ctx.floor(3)
