"""C11 -- assign obeys the lens laws and fails atomically."""
import ast

from . import rule, info
from ..program import AnalysisError, src, norm, ClassInfo
from ..affine import linear, NotAffine
from ..tables import MISS
from ..util import (clone, repetition_count, dispatch_chain, decision_function, Undecidable, locals_from_attrs, is_name, calls_in, callee_qual, deref, ancestors, evaluator_calls, stmt_of, parent,
                    handler_outcomes, completes_normally, handler_covers, in_handler_of, raised_class, is_subclass,
                    cls_name, fmt_witness, kwarg)
from .common import option_usage
from ..pattern import match, matches

info('C11',
     explanation='Static decision of: write-last ordering in Assign.glomit (on every path to the normal return '
                 'exactly one call reaches the mutation API, nothing fallible follows it, and it is not under a '
                 'recovering handler; value evaluation, parent fetch, factory and the missing tail all precede '
                 'it); the missing tail is assigned into the factory\'s fresh object (single factory site, not '
                 'in a loop) and the break point indices agree (prefix [:k], attach step items()[k], tail '
                 '[k+1:]); the same object is returned; the op dispatch of _assign_op and the conversion of '
                 'handler failures to PathAssignError; constructor split of the path; default assign handlers.',
     decided=['C11.1 write last', 'C11.2 missing tail built off-target', 'C11.3 same object back',
              'C11.5 op dispatch and error conversion', 'C11.6 constructor split', 'C11.7 wildcard broadcast',
              'C11.8 default assign handlers'],
     not_decided=['the frame condition for arbitrary targets', 'user-registered assign handlers that fail after a partial write'])


def api_reaching_calls(ctx, u):
    """calls in u that (transitively, through local lambdas / helpers) reach the mutation API"""
    p = ctx.program
    api = ctx.analysis.sanctioned
    lam_to_api = set()
    for lu in u.children:
        for c in calls_in(lu):
            q = callee_qual(p, lu, c)
            if q in api or any(q == a for a in api):
                lam_to_api.add(lu)
    lam_names = set()
    for n in u.own_nodes():
        if isinstance(n, ast.Assign) and isinstance(n.value, ast.Lambda) and is_name(n.targets[0]):
            if p.unit_of(n.value) in lam_to_api:
                lam_names.add(n.targets[0].id)
    out = []
    for c in calls_in(u):
        q = callee_qual(p, u, c)
        if q in api:
            out.append(c)
        elif q == 'mutation._apply_for_each' and c.args and (
                (is_name(c.args[0]) and c.args[0].id in lam_names) or
                (isinstance(c.args[0], ast.Lambda) and p.unit_of(c.args[0]) in lam_to_api)):
            out.append(c)
    return out


def assign_roles(ctx, u):
    """local names of Assign.glomit by role"""
    p = ctx.program
    r = {}
    r.update(locals_from_attrs(u, ('op', 'arg', 'path')))
    for n in u.own_nodes():
        if isinstance(n, ast.Assign):
            if isinstance(n.value, ast.Call) and callee_qual(p, u, n.value) == 'core.arg_val' and is_name(n.targets[0]):
                r.setdefault('val', n.targets[0].id)
    # the start of the walk to the destination: the two values the fetch's target / path
    # arguments hold when the path is S-rooted and when it is not (however the choice is written)
    from ..util import choice_values, evaluator_calls as _evs
    cfg = ctx.cfg(u)
    pathv = r.get('path')
    scope, target = u.params[2], u.params[1]
    for e in _evs(p, u):
        if any(isinstance(a, ast.ExceptHandler) for a in ancestors(e)):
            continue
        if not (len(e.args) >= 2 and is_name(e.args[0]) and is_name(e.args[1])):
            continue
        at = cfg.node_containing(e)
        dt, dp = e.args[0].id, e.args[1].id
        paths = ['self.path'] + ([pathv] if pathv else [])
        for pe in paths:
            tmpl = '%s.startswith(S)' % pe
            cv_t = choice_values(cfg, at, dt, tmpl)
            cv_p = choice_values(cfg, at, dp, tmpl)
            if not cv_t or not cv_p:
                continue
            if cv_t[0] == ['%s[UP]' % scope] and cv_t[1] == [target] \
                    and len(cv_p[0]) == 1 and cv_p[0][0] in ['%s.from_t()' % x for x in paths] \
                    and len(cv_p[1]) == 1 and cv_p[1][0] in paths:
                r['dest_target'], r['dest_path'] = dt, dp
                r['root_split'] = at.ast
    return r


@rule('C11.1')
def write_last(ctx):
    p = ctx.program
    u = ctx.unit('mutation.Assign.glomit')
    cfg = ctx.cfg(u)
    writes = api_reaching_calls(ctx, u)
    ctx.ob(len(writes) == 1, u, 'exactly one call of Assign.glomit reaches the mutation API: %s' % [norm(w) for w in writes])
    if len(writes) != 1:
        return
    w = writes[0]
    wn = cfg.node_containing(w)
    # not in a loop, not under a recovering handler
    ctx.ob(not wn.loop_stack, u, 'the write is not repeated in a loop of this function')
    rec = [h for h in cfg.handlers_reached_from(wn)]
    ctx.ob(not rec, u, 'the write is not under a handler (a failed write propagates)',
           'handlers: %s' % [src(h.ast.type) for h in rec if h.ast.type is not None])
    # every path from entry to a normal return passes the write exactly once and nothing fallible follows
    rets = [n for n in cfg.nodes if n.kind == 'stmt' and isinstance(n.ast, ast.Return)]
    for r in rets:
        ctx.ob(cfg.dominates(wn, r), u, 'every normal return comes after the write: %s' % norm(r.ast), node=r.ast)
    after = cfg.reachable(wn, labels=lambda l: l != 'exc')
    fallible = []
    for n in after:
        if n.ast is None or n is wn:
            continue
        for c in ast.walk(n.ast):
            if isinstance(c, (ast.Call, ast.Subscript, ast.Attribute, ast.BinOp)):
                fallible.append(n)
                break
    ctx.ob(not fallible, u, 'nothing that can fail follows the write',
           'after the write: %s' % [norm(n.ast) for n in fallible][:3])
    # everything fallible precedes: arg_val, parent fetch, factory, recursive tail assignment
    pre = []
    for c in calls_in(u):
        q = callee_qual(p, u, c)
        if q == 'core.arg_val' or p.is_evaluator_call(u, c) or q == 'mutation.Assign' or \
                (isinstance(c.func, ast.Attribute) and c.func.attr == 'missing'):
            pre.append(c)
    ctx.require(len(pre) >= 5, 'Assign.glomit: expected value evaluation, parent fetch, factory, tail (found %d)' % len(pre))
    for c in pre:
        cn = cfg.node_containing(c)
        ok = cfg.find_path(wn, {cn}) is None
        ctx.ob(ok, u, 'fallible step precedes the write: %s' % src(c, 70), node=c)
    # the written value / destination: the lambda forwards exactly the computed pieces
    lus = [lu for lu in u.children if any(callee_qual(p, lu, c) == 'core._assign_op' for c in calls_in(lu))]
    ctx.require(len(lus) == 1, 'Assign.glomit: apply lambda not found')
    lu = lus[0]
    c = [c for c in calls_in(lu) if callee_qual(p, lu, c) == 'core._assign_op'][0]
    kw = {k.arg: k.value for k in c.keywords}
    roles = assign_roles(ctx, u)
    ok = is_name(kw.get('dest'), lu.params[0]) and all(is_name(kw.get(k), roles.get(k)) for k in ('op', 'arg', 'val', 'path')) \
        and is_name(kw.get('scope'), u.params[2])
    ctx.ob(ok, u, 'the write applies (op, arg, val) to the destination it is given: %s' % norm(c), node=c)
    ctx.floor(10)


@rule('C11.2')
def missing_tail(ctx):
    p = ctx.program
    u = ctx.unit('mutation.Assign.glomit')
    cfg = ctx.cfg(u)
    evs = evaluator_calls(p, u)
    fetch = [e for e in evs if not in_handler_of(e)]
    inh = [e for e in evs if in_handler_of(e)]
    ctx.require(len(fetch) == 1 and len(inh) == 2, 'Assign.glomit: expected parent fetch + (tail, re-fetch) in the handler')
    fn = cfg.node_containing(fetch[0])
    hs = cfg.handlers_reached_from(fn)
    ok = len(hs) == 1 and p.global_qualname(u, hs[0].ast.type) == 'core.PathAccessError' and hs[0].ast.name
    ctx.ob(ok, u, 'only a PathAccessError of the parent fetch starts the missing-tail route')
    if not ok:
        return
    h = hs[0]
    # nothing else is guarded by that handler: an access error raised while evaluating the value
    # (or anything else) must not be mistaken for a missing destination
    guarded = [n for n in cfg.nodes if n is not fn and n.kind in ('stmt', 'test', 'for') and h in cfg.handlers_reached_from(n)
               and any(isinstance(c, ast.Call) for c in ast.walk(n.ast))]
    ctx.ob(not guarded, u, 'the missing-destination handler guards the destination fetch only',
           '' if not guarded else 'also guarded: %s -- a PathAccessError from there is taken for a missing destination'
           % [norm(n.ast)[:60] for n in guarded], node=h.ast)
    pae = h.ast.name
    roles = assign_roles(ctx, u)
    valv, opv, argv, pathv = roles.get('val'), roles.get('op'), roles.get('arg'), roles.get('path')
    first = next((n for n in h.ast.body if isinstance(n, ast.If)), None)
    ok = isinstance(first, ast.If) and norm(first.test) == 'not self.missing' and isinstance(first.body[0], ast.Raise) \
        and (first.body[0].exc is None or is_name(first.body[0].exc, pae))
    ctx.ob(ok, u, 'without a factory the access error propagates unchanged: %s' % norm(first))
    tail = [e for e in inh if isinstance(e.args[1], ast.Call) and callee_qual(p, u, e.args[1]) == 'mutation.Assign']
    ctx.require(len(tail) == 1, 'Assign.glomit: recursive tail assignment not found')
    t = tail[0]
    fac = t.args[0]
    ok = isinstance(fac, ast.Call) and isinstance(fac.func, ast.Attribute) and fac.func.attr == 'missing' and not fac.args
    ctx.ob(ok, u, 'the tail is assigned into a fresh factory object, not into the target: %s' % norm(fac), node=t)
    facs = [c for c in calls_in(u) if isinstance(c.func, ast.Attribute) and c.func.attr == 'missing']
    ctx.ob(len(facs) == 1 and not cfg.node_containing(facs[0]).loop_stack, u, 'one factory call per level (single site, not in a loop)')
    # the tail carries the value and the same factory
    a = t.args[1]
    kw = {k.arg: k.value for k in a.keywords}
    carried = a.args[1] if len(a.args) >= 2 else None
    if isinstance(carried, ast.Call) and callee_qual(p, u, carried) == 'core.Val' and len(carried.args) == 1:
        carried = carried.args[0]         # handed on as a literal (C11.18)
    ok = is_name(carried, valv) and isinstance(kw.get('missing'), ast.Attribute) and kw['missing'].attr == 'missing'
    ctx.ob(ok, u, 'the tail assigns the value with the same factory: %s' % norm(a))
    st = stmt_of(t)
    ctx.ob(isinstance(st, ast.Assign) and is_name(st.targets[0], valv), u, 'the filled factory object becomes the value to attach: %s' % norm(st))
    # index agreement around the break point k = pae.part_idx
    env = {'__k__': (1, 0)}
    def idx(e):
        class R(ast.NodeTransformer):
            def visit_Attribute(self, node):
                if isinstance(node.value, ast.Name) and node.value.id == pae and node.attr == 'part_idx':
                    return ast.Name(id='__k__', ctx=ast.Load())
                return node
        import copy
        return linear(R().visit(clone(e)), env)
    tail_path = deref(cfg, cfg.node_containing(t), a.args[0])
    if isinstance(tail_path, ast.Call) and isinstance(tail_path.func, ast.Attribute) and tail_path.func.attr == 'from_t' and not tail_path.args:
        tail_path = tail_path.func.value          # re-rooted at T (C11.23): the same steps
    try:
        ok = isinstance(tail_path, ast.Subscript) and isinstance(tail_path.slice, ast.Slice) and tail_path.slice.upper is None \
            and norm(tail_path.value) == 'self._orig_path' and idx(tail_path.slice.lower) == (1, 1)
    except NotAffine:
        ok = False
    ctx.ob(ok, u, 'the tail is the path after the failing segment: %s' % norm(tail_path))
    opdef = [n for n in ast.walk(h.ast) if isinstance(n, ast.Assign) and isinstance(n.targets[0], ast.Tuple)
             and [e.id for e in n.targets[0].elts if isinstance(e, ast.Name)] == [opv, argv]]
    try:
        ok = len(opdef) == 1 and isinstance(opdef[0].value, ast.Subscript) and norm(opdef[0].value.value) == 'self._orig_path.items()' \
            and idx(opdef[0].value.slice) == (1, 0)
    except NotAffine:
        ok = False
    ctx.ob(ok, u, 'the attach step is the failing segment itself: %s' % [norm(o) for o in opdef])
    pdef = [n for n in ast.walk(h.ast) if isinstance(n, ast.Assign) and is_name(n.targets[0], pathv)]
    try:
        ok = len(pdef) == 1 and isinstance(pdef[0].value, ast.Subscript) and isinstance(pdef[0].value.slice, ast.Slice) \
            and pdef[0].value.slice.lower is None and norm(pdef[0].value.value) == 'self._orig_path' \
            and idx(pdef[0].value.slice.upper) == (1, 0)
    except NotAffine:
        ok = False
    ctx.ob(ok, u, 'the destination is re-fetched through the existing prefix: %s' % [norm(x) for x in pdef])
    refetch = [e for e in inh if e is not t]
    ok = len(refetch) == 1 and is_name(refetch[0].args[1], pathv) and is_name(refetch[0].args[0], roles.get('dest_target'))
    st = stmt_of(refetch[0]) if refetch else None
    fst = stmt_of(fetch[0])
    destv = fst.targets[0].id if isinstance(fst, ast.Assign) and is_name(fst.targets[0]) else None
    ctx.ob(ok and isinstance(st, ast.Assign) and is_name(st.targets[0], destv), u,
           'existing intermediates are fetched, never replaced: %s' % (norm(st) if st is not None else None))
    # order inside the handler: build the tail first, then re-fetch (so a failing factory leaves the target untouched)
    if refetch:
        ctx.ob(cfg.dominates(cfg.node_containing(t), cfg.node_containing(refetch[0])), u, 'the tail is complete before the destination is touched')
    ctx.floor(11)


@rule('C11.3')
def same_object(ctx):
    p = ctx.program
    u = ctx.unit('mutation.Assign.glomit')
    rets = [n for n in u.own_nodes() if isinstance(n, ast.Return)]
    ctx.ob(len(rets) == 1 and is_name(rets[0].value, u.params[1]) and not _rebinds(ctx, u, u.params[1]), u,
           'Assign returns the object it was given: %s' % [norm(r) for r in rets])
    au = ctx.unit('mutation.assign')
    rets = [n for n in au.own_nodes() if isinstance(n, ast.Return)]
    ok = len(rets) == 1 and isinstance(rets[0].value, ast.Call) and callee_qual(p, au, rets[0].value) == 'core.glom'
    if ok:
        c = rets[0].value
        sp = c.args[1]
        ok = is_name(c.args[0], au.params[0]) and isinstance(sp, ast.Call) and callee_qual(p, au, sp) == 'mutation.Assign' \
            and [a.id if isinstance(a, ast.Name) else None for a in sp.args] == au.params[1:3] \
            and any(k.arg == 'missing' and is_name(k.value, 'missing') for k in sp.keywords)
    ctx.ob(ok, au, 'assign() is glom(obj, Assign(path, val, missing=missing)): %s' % [norm(r) for r in rets])
    # the value is evaluated once, first, against the current target
    avs = [c for c in calls_in(u) if callee_qual(p, u, c) == 'core.arg_val']
    ok = len(avs) == 1 and is_name(avs[0].args[0], u.params[1]) and isinstance(avs[0].args[1], ast.Attribute) and avs[0].args[1].attr == 'val'
    ctx.ob(ok, u, 'the value is evaluated once as an argument on the current target: %s' % [norm(a) for a in avs])
    # S-rooted destinations are fetched from the enclosing scope
    roles = assign_roles(ctx, u)
    ok = 'root_split' in roles
    ctx.ob(ok, u, 'T-rooted destinations start at the target, S-rooted ones at the enclosing scope')
    if ok:
        evs = [e for e in evaluator_calls(p, u) if not in_handler_of(e)]
        ctx.ob(len(evs) == 1 and is_name(evs[0].args[0], roles['dest_target']) and is_name(evs[0].args[1], roles['dest_path']), u,
               'the parent is fetched from that start through the parent path: %s' % [norm(e) for e in evs])
    ctx.floor(4)


def _rebinds(ctx, u, name):
    cfg = ctx.cfg(u)
    return any(nm == name for n in cfg.nodes if n is not cfg.entry for nm, _ in cfg.defs_at(n))


@rule('C11.5')
def op_dispatch(ctx):
    p = ctx.program
    u = ctx.unit('core._assign_op')
    cfg = ctx.cfg(u)
    # what runs for each step kind: the body with the tests on ``op`` decided (if/elif chain,
    # guard clauses and a final ``if op != 'P': raise`` are the same dispatch)
    from ..util import code_slice
    tested = set()
    for t in [n for n in u.own_nodes() if isinstance(n, ast.Compare) and is_name(n.left, 'op')]:
        for c in t.comparators:
            tested |= {x.value for x in ast.walk(c) if isinstance(x, ast.Constant) and isinstance(x.value, str)}
    ctx.require(tested, '_assign_op: dispatch not found')
    ctx.ob(tested == {'[', '.', 'P'}, u, 'assignment dispatches on the three assignable step kinds: %s' % sorted(tested))

    def eff(code):
        # the statements run for that kind, without a trailing bare ``return``
        body = code_slice(u.node.body, 'op', code)
        body = [s_ for s_ in body if not (isinstance(s_, ast.Expr) and isinstance(s_.value, ast.Constant))]
        # a constant bound to a local nobody reads has no effect
        read = {x.id for x in u.own_nodes() if isinstance(x, ast.Name) and isinstance(x.ctx, ast.Load)}
        body = [s_ for s_ in body if not (isinstance(s_, ast.Assign) and len(s_.targets) == 1 and is_name(s_.targets[0])
                                          and isinstance(s_.value, ast.Constant) and s_.targets[0].id not in read)]
        while body and isinstance(body[-1], ast.Return) and body[-1].value is None:
            body.pop()
        return body
    b = eff('[')
    ok = len(b) == 1 and norm(b[0]) == 'dest[arg] = val'
    ctx.ob(ok, u, "'[' stores dest[arg] = val: %s" % [norm(x)[:40] for x in b])
    b = eff('.')
    ok = len(b) == 1 and norm(b[0]) == 'setattr(dest, arg, val)'
    ctx.ob(ok, u, "'.' sets the attribute: %s" % [norm(x)[:40] for x in b])
    pbody = eff('P')
    ctx.require(pbody, "_assign_op: 'P' branch not found")

    class _B:
        body = pbody
    b = _B
    gh = [c for s in b.body for c in ast.walk(s) if isinstance(c, ast.Call) and isinstance(c.func, ast.Attribute) and c.func.attr == 'get_handler']
    ok = len(gh) == 1 and isinstance(gh[0].args[0], ast.Constant) and gh[0].args[0].value == 'assign' and is_name(gh[0].args[1], 'dest')
    ctx.ob(ok, u, "'P' uses the destination's registered 'assign' handler: %s" % [norm(g) for g in gh])
    hv = stmt_of(gh[0]).targets[0].id if gh and isinstance(stmt_of(gh[0]), ast.Assign) else None
    hc = [c for s in b.body for c in ast.walk(s) if isinstance(c, ast.Call) and is_name(c.func, hv)]
    ok = len(hc) == 1 and [a.id if isinstance(a, ast.Name) else None for a in hc[0].args] == ['dest', 'arg', 'val']
    ctx.ob(ok, u, 'the handler receives (dest, arg, val): %s' % [norm(c) for c in hc])
    if hc:
        hn = cfg.node_containing(hc[0])
        hs = cfg.handlers_reached_from(hn)
        for miss in MISS['assign-handler']:
            ctx.ob(any(handler_covers(cfg, h, miss) for h in hs), u, 'a handler failure (%s) is caught' % miss)
        for h in hs:
            out = handler_outcomes(cfg, h)
            ok = list(out) and all(k.startswith('raise-new') for k in out)
            rs = [r for r in ast.walk(h.ast) if isinstance(r, ast.Raise)]
            ok = ok and len(rs) == 1 and is_subclass(raised_class(p, u, rs[0]), 'PathAssignError') \
                and isinstance(rs[0].exc, ast.Call) and is_name(rs[0].exc.args[0], h.ast.name) \
                and [a.id if isinstance(a, ast.Name) else None for a in rs[0].exc.args[1:]] == ['path', 'arg']
            ctx.ob(ok, u, 'and converted to PathAssignError(<caught>, path, arg): %s' % [norm(r) for r in rs])
    last = eff('<any other code>')
    ctx.ob(len(last) == 1 and isinstance(last[0], ast.Raise), u, 'any other step kind is refused, never ignored')
    ctx.floor(12)


@rule('C11.6')
def constructor_split(ctx):
    p = ctx.program
    for q in ('mutation.Assign.__init__', 'mutation.Delete.__init__'):
        u = ctx.unit(q)
        st = [n for n in u.own_nodes() if isinstance(n, ast.Assign) and isinstance(n.targets[0], ast.Tuple)
              and [getattr(e, 'attr', None) for e in n.targets[0].elts] == ['op', 'arg']]
        ok = len(st) == 1 and norm(st[0].value) == 'path.items()[-1]'
        ctx.ob(ok, u, 'the final step is the last (op, arg) of the path: %s' % [norm(s) for s in st])
        pp = [n for n in u.own_nodes() if isinstance(n, ast.Assign) and isinstance(n.targets[0], ast.Attribute) and n.targets[0].attr == 'path']
        ok = len(pp) == 1 and norm(pp[0].value) == 'path[:-1]'
        ctx.ob(ok, u, 'the parent path is everything before it: %s' % [norm(s) for s in pp])
        op = [n for n in u.own_nodes() if isinstance(n, ast.Assign) and isinstance(n.targets[0], ast.Attribute) and n.targets[0].attr == '_orig_path']
        ctx.ob(len(op) == 1 and is_name(op[0].value, 'path'), u, 'the full path is kept: %s' % [norm(s) for s in op])
        chk = [n for n in u.own_nodes() if isinstance(n, ast.If) and norm(n.test) == "self.op not in '[.P'"]
        ctx.ob(len(chk) == 1 and isinstance(chk[0].body[-1], ast.Raise), u, 'only attribute / item / path steps can be final')
        # string -> from_text, T -> Path(T)
        conv = {norm(n.test): norm(n.body[0]) for n in ast.walk(u.node) if isinstance(n, ast.If)}
        ok = conv.get('isinstance(path, basestring)') == 'path = Path.from_text(path)' and conv.get('type(path) is TType') == 'path = Path(path)'
        ctx.ob(ok, u, 'strings are parsed like glom string specs; T expressions are taken as they are')
    option_usage(ctx, ['mutation.Assign', 'mutation.Delete'])
    ctx.floor(14)


@rule('C11.7')
def broadcast(ctx):
    p = ctx.program
    u = ctx.unit('mutation._apply_for_each')
    func, path, val = u.params
    layers = [n for n in u.own_nodes() if isinstance(n, ast.Assign) and isinstance(n.value, ast.Call)
              and isinstance(n.value.func, ast.Attribute) and n.value.func.attr == '__stars__']
    ctx.require(len(layers) == 1, '_apply_for_each: star count not found')
    lv = layers[0].targets[0].id
    cfg = ctx.cfg(u)
    nonexc = lambda lab: lab != 'exc'
    tests = []
    for n in cfg.nodes:
        if n.kind == 'test':
            if is_name(n.ast, lv):
                tests.append((n, 'true', 'false'))
            elif isinstance(n.ast, ast.UnaryOp) and isinstance(n.ast.op, ast.Not) and is_name(n.ast.operand, lv):
                tests.append((n, 'false', 'true'))
    ctx.ob(len(tests) == 1, u, 'wildcard paths are broadcast, others applied once')
    if len(tests) == 1:
        t, starred, plain = tests[0]
        on = lambda e: (lambda lab: lab == e)
        r_plain = cfg.reachable(t, labels=nonexc, start_labels=on(plain))
        r_star = cfg.reachable(t, labels=nonexc, start_labels=on(starred))
        direct = [n for n in cfg.nodes if n.kind == 'stmt' and matches(n.ast, '%s(%s)' % (func, val))]
        only_plain = [n for n in r_plain if n not in r_star and n.kind in ('stmt', 'for', 'test')]
        ok = len(direct) == 1 and direct[0] in r_plain and direct[0] not in r_star \
            and all(n is direct[0] or isinstance(n.ast, (ast.Return, ast.Pass)) for n in only_plain)
        ctx.ob(ok, u, 'without wildcards the operation is applied to the single destination: %s' % [norm(n.ast) for n in only_plain])
        loop_asts = [x for x in u.own_nodes() if isinstance(x, (ast.For, ast.While))
                     and cfg.node_of(x) in r_star and cfg.node_of(x) not in r_plain]
        ctx.ob(len(loop_asts) == 2, u, 'flatten loop + apply loop')
        if len(loop_asts) == 2:
            counted = [(x, repetition_count(cfg, u, x)) for x in loop_asts]
            fl = [(x, rc) for x, rc in counted if rc is not None]
            ap = [x for x, rc in counted if rc is None and isinstance(x, ast.For)]
            ctx.ob(len(fl) == 1 and len(ap) == 1, u, 'one counted flatten loop and one loop over the matches')
            if len(fl) == 1 and len(ap) == 1:
                (fl, (count, counter)), ap = fl[0], ap[0]
                # flatten (layers - 1) times
                try:
                    ok = linear(count, {lv: (1, 0)}) == (1, -1)
                except NotAffine:
                    ok = False
                ctx.ob(ok, u, 'one flattening per wildcard beyond the first: %s' % norm(count))
                work = [s_ for s_ in fl.body if not (isinstance(s_, ast.AugAssign) and counter and is_name(s_.target, counter))]
                b = match(work[0], '$x = sum($x, [])') if len(work) == 1 else None
                ctx.ob(b is not None, u, 'flattening concatenates into a new list (the fetched lists are not modified): %s'
                       % [norm(s_) for s_ in work])
                xv = b['x'] if b else None
                # the list being flattened starts as the fetched matches
                if xv and xv != val:
                    d0 = [v for dn, v in cfg.reaching_defs(cfg.node_of(fl), xv, split=False) if cfg.node_of(fl) not in dn.loop_stack]
                    ctx.ob(len(d0) == 1 and is_name(d0[0], val), u, 'the flattening starts from the fetched matches: %s = %s'
                           % (xv, [norm(v) for v in d0 if isinstance(v, ast.AST)]))
                ok = xv is not None and is_name(ap.iter, xv) and len(ap.body) == 1 and is_name(ap.target) \
                    and norm(ap.body[0]) == '%s(%s)' % (func, ap.target.id) \
                    and cfg.dominates(cfg.node_of(fl), cfg.node_of(ap))
                ctx.ob(ok, u, 'the operation is applied to every match in order, after flattening: %s' % norm(ap))
    ctx.floor(5)


def discovery_table(ctx, u, dunder, results, base_types, what):
    """the autodiscover function as a decision table over its three conditions, whatever the
    nesting / order of the tests"""
    import itertools
    t = u.params[0]
    A = 'issubclass(%s, %s)' % (t, base_types)
    B = "callable(getattr(%s, '%s', None))" % (t, dunder)
    C = "callable(getattr(%s, 'index', None))" % t
    try:
        atoms, decide = decision_function(u)
    except Undecidable as e:
        ctx.ob(False, u, '%s handler discovery is a decision over three type tests' % what, str(e))
        return
    ok = set(atoms) <= {A, B, C} and A in atoms and B in atoms and C in atoms
    ctx.ob(ok, u, '%s handler discovery tests: unsupported base, item dunder, index method: %s' % (what, atoms))
    if not ok:
        return
    bad = []
    for a, b, c in itertools.product((True, False), repeat=3):
        want = results['none'] if a else (results['attr'] if not b else (results['seq'] if c else results['item']))
        got = decide({A: a, B: b, C: c})
        if got != ('return', want):
            bad.append('unsupported=%s %s=%s index=%s -> %s (expected %s)' % (a, dunder, b, c, got[1], want))
    ctx.ob(not bad, u, '%s handler discovery: scalars -> False, no %s -> attribute handler, with .index -> sequence handler, '
           'else item handler' % (what, dunder), '; '.join(bad[:3]))


@rule('C11.8')
def default_assign_handlers(ctx):
    p = ctx.program
    u = ctx.unit('mutation._assign_autodiscover')
    discovery_table(ctx, u, '__setitem__', {'none': 'False', 'attr': 'setattr', 'seq': '_set_sequence_item', 'item': 'operator.setitem'},
                    '_UNASSIGNABLE_BASE_TYPES', 'assign')
    su = ctx.unit('mutation._set_sequence_item')
    st = [n for n in su.own_nodes() if isinstance(n, ast.Assign) and isinstance(n.targets[0], ast.Subscript)]
    ok = len(st) == 1 and norm(st[0]) == '%s[int(%s)] = %s' % tuple(su.params)
    ctx.ob(ok, su, 'sequence assignment coerces the index with int(): %s' % [norm(s) for s in st])
    mod = p.modules['glom.mutation']
    regs = [n.value for n in mod.tree.body if isinstance(n, ast.Expr) and isinstance(n.value, ast.Call)
            and is_name(n.value.func, 'register_op')]
    got = {c.args[0].value: {k.arg: norm(k.value) for k in c.keywords} for c in regs if c.args and isinstance(c.args[0], ast.Constant)}
    ctx.ob(got.get('assign', {}).get('auto_func') == '_assign_autodiscover', 'glom/mutation.py', "the 'assign' op is registered with its discovery function: %s" % got.get('assign'))
    ctx.ob(got.get('delete', {}).get('auto_func') == '_delete_autodiscover', 'glom/mutation.py', "the 'delete' op is registered with its discovery function: %s" % got.get('delete'))
    ctx.floor(4)


def _path_keys(cfg, node, e, depth=0):
    """the path expressions ``e`` may stand for at ``node``, modulo re-rooting (``.from_t()``
    changes the root, not the steps): source texts after resolving locals"""
    if isinstance(e, ast.IfExp):
        return _path_keys(cfg, node, e.body, depth) | _path_keys(cfg, node, e.orelse, depth)
    if isinstance(e, ast.Call) and isinstance(e.func, ast.Attribute) and e.func.attr == 'from_t' and not e.args:
        return _path_keys(cfg, node, e.func.value, depth)
    if isinstance(e, ast.Name) and depth < 4:
        out = set()
        for dn, v in cfg.reaching_defs(node, e.id):
            if isinstance(v, ast.AST):
                out |= _path_keys(cfg, dn, v, depth + 1)
            else:
                out.add('<%s>' % e.id)
        return out or {'<%s>' % e.id}
    return {norm(e)}


@rule('C11.16')
def broadcast_counts_the_fetched_path(ctx):
    """the destinations are fetched through one path and then broadcast over according to the
    number of wildcards of a path: these must be the same path (up to re-rooting).  After a
    missing= back-fill the destination is re-fetched through the existing *prefix*; broadcasting
    that single container by the wildcard count of the full path iterates it as if it were a
    list of matches"""
    p = ctx.program
    nonexc = lambda lab: lab != 'exc'
    n = 0
    for q in ('mutation.Assign.glomit', 'mutation.Delete.glomit'):
        u = ctx.unit(q)
        cfg = ctx.cfg(u)
        calls = [c for c in calls_in(u) if callee_qual(p, u, c) == 'mutation._apply_for_each']
        ctx.require(len(calls) == 1 and len(calls[0].args) == 3, '%s: broadcast call not found' % q)
        c = calls[0]
        cn = cfg.node_containing(c)
        P, D = c.args[1], c.args[2]
        ctx.require(is_name(P) and is_name(D), '%s: broadcast arguments are not plain locals' % q)
        for dn, v in cfg.reaching_defs(cn, D.id):
            n += 1
            ok = isinstance(v, ast.Call) and p.is_evaluator_call(u, v) and len(v.args) >= 2
            detail = 'the destination does not come from a fetch'
            if ok:
                fetched = _path_keys(cfg, dn, v.args[1])
                # the broadcast path as it stands when the fetch is made, unchanged until the broadcast
                redefs = [x for x in cfg.nodes if x is not dn and any(nm == P.id for nm, _ in cfg.defs_at(x))
                          and cfg.find_path(dn, {x}, labels=nonexc) is not None and cfg.find_path(x, {cn}, labels=nonexc) is not None]
                counted = _path_keys(cfg, dn, P)
                ok = not redefs and fetched <= counted and counted <= fetched
                detail = 'fetched through %s, wildcards counted on %s' % (sorted(fetched), sorted(counted))
            ctx.ob(ok, u, 'the broadcast counts the wildcards of the path the destination was fetched through: %s' % norm(v)[:60],
                   '' if ok else detail, node=c)
    ctx.require(n >= 3, 'fetches feeding the broadcast not found (%d)' % n)
    ctx.floor(3)


@rule('C11.18')
def backfill_value_is_not_evaluated_again(ctx):
    """Assign evaluates its value once, against the target (arg_val).  The missing= back-fill hands
    that *result* to a nested Assign spec, whose own evaluation would run arg_val on it again --
    against the fresh container: a result that is itself spec-like (a T object, a Spec stored as
    data) is replaced by something else.  The result is therefore passed as ``Val(result)``"""
    p = ctx.program
    u = ctx.unit('mutation.Assign.glomit')
    roles = assign_roles(ctx, u)
    valv = roles.get('val')
    ctx.require(valv is not None, 'Assign.glomit: evaluated value not found')
    inner = [c for c in calls_in(u) if callee_qual(p, u, c) == 'mutation.Assign']
    ctx.require(len(inner) >= 1, 'Assign.glomit: nested Assign for the missing tail not found')
    for c in inner:
        a = c.args[1] if len(c.args) > 1 else kwarg(c, 'val')
        ok = isinstance(a, ast.Call) and callee_qual(p, u, a) == 'core.Val' and len(a.args) == 1 and is_name(a.args[0], valv)
        ctx.ob(ok, u, 'the already evaluated value is handed to the nested Assign as a literal: %s' % (norm(a) if a is not None else None),
               '' if ok else 'the nested Assign evaluates %s a second time (against the new container)' % valv, node=c)
    ctx.floor(1)


@rule('C11.23')
def backfill_destination_is_inside_the_new_container(ctx):
    """the missing= back-fill evaluates a nested Assign against the fresh container; its
    destination is the tail of the original path, and slicing a Path keeps its root.  For an
    S-rooted destination the tail would again be addressed through the scope -- the value lands
    in the scope frame, the new container stays empty and nothing is reported.  The tail is
    therefore re-rooted at T (``.from_t()``) before the nested Assign is built"""
    from ..util import expand_locals
    p = ctx.program
    u = ctx.unit('mutation.Assign.glomit')
    cfg = ctx.cfg(u)
    inner = [c for c in calls_in(u) if callee_qual(p, u, c) == 'mutation.Assign']
    ctx.require(len(inner) >= 1, 'Assign.glomit: nested Assign for the missing tail not found')
    for c in inner:
        a = c.args[0] if c.args else kwarg(c, 'path')
        e = expand_locals(cfg, cfg.node_of(stmt_of(c)), a) if a is not None else None
        rerooted = isinstance(e, ast.Call) and isinstance(e.func, ast.Attribute) and e.func.attr == 'from_t' \
            and isinstance(e.func.value, ast.Subscript) and isinstance(e.func.value.slice, ast.Slice)
        ctx.ob(rerooted, u, 'the tail handed to the nested Assign is re-rooted at T: %s' % (norm(e) if e is not None else None),
               '' if rerooted else 'a slice of an S-rooted path is still S-rooted: Assign(S[..][..][..], v, missing=dict) writes the tail '
               'into the scope and leaves the new container empty', node=c)
    ctx.floor(1)
